"""C12 — extraction cost is bounded by the input; explicit limits hold.

correspondence: (1) every modelled `while` loop: real function vs S2T.Loops model on the same bytes (result AND
iteration count, counted with sys.settrace on the loop located by its inventory key); (2) explicit limits at
-1/0/+1 (forged stat / forged sizes / real sparse files, real 10 MiB members), which members are read / decoded /
written (TAR: the BYTES every extractfile handle delivers, archives with hard-link / symlink / directory / FIFO entries
pointing at in-limit and oversize members; ZIP / TAR / 7z archives whose member NAMES repeat — the bytes every ZipFile.open /
extractfile handle delivers; 7z folders with coder CHAINS — the output of every stage and of every lzma decoder call), ODS sheet
shapes incl. covered cells, text:s paragraphs, XLSX used-cell sets.
(3) on every run, whole archives through read_archive on a counted BytesIO (builders/c12_cost.py): bytes read from the input / rewinds
for every stored ORDER of the members (tar.gz / tar.bz2 / tar.xz / tar / zip), and a compressed inner archive under EVERY member-name
suffix known to mimetypes / the router's tables (nests of depth <= 4, fan-out <= 3) — laws in lean/S2T/Props/C12_Cost.lean.
search: the property statement itself on the real code (boundary lattice; iteration counts, copied bytes, allocated
cells, bytes read per member, decoded / written members on amplifying inputs; repeat independence of empty runs),
independent of the Lean model.

SAFETY: no input built here may expand — also under a library that lost a cap — beyond ~10^6 cells / 50 MB of text:
amplification is shown by GROWTH on small inputs (repeat 200 vs 2000, 100^2 / 200^2 / 400^2 cells), never by size.
"""
from __future__ import annotations

import struct

from run import Broken, Violation
from builders import c12_amplify as M
from builders import c12_limits as X
from builders import c12_loopcheck, c12_loops as L
from builders import c12_xmlcheck as XC
from builders import c12_history as H
from builders import c12_cost as K
from builders.c12_trace import Probe, StepLimit, Tracer

GEN = ["Loops", "C12Consts", "C12Xml", "C12Sites", "PyLoops", "Aes", "PyAes"]
RULE = ("loops: per modelled loop a structured stream (BIFF records, JPEG segments, PPT record trees, BLIP records, DIB headers, "
        "PNG chunk chains, RTF token soup, 7z header properties) + a malformed stream over marker-rich alphabets + fixed "
        "adversarial cases (zero-length records, maximal lengths, markers at the last offsets); limits: sizes limit-1/limit/limit+1 "
        "for read_file (6 limits), the 7z archive size, ZIP/TAR/7z members (real payloads), TAR archives mixing regular members around "
        "the limit with hard links / symlinks (resolving, dangling, chained, forged header size) / directories / FIFOs, ZIP / TAR archives of 2-5 "
        "entries drawn from 1-4 names (an in-limit entry followed by an oversize last entry of the same name and the other orders), 7z archives "
        "with coder chains (filter <- LZMA / LZMA2, refused filters) and repeated names, ODS sheets with "
        "random repeat attributes on empty, non-empty and covered cells, <text:p> with text:s counts, XLSX used-cell sets within 30x30; "
        "XML parts: random (BOM, leading whitespace, XML declaration, DOCTYPE, 0-4 internal entities made of literals / references to earlier "
        "entities / &amp;, character data with references incl. undeclared ones) + nested-entity and quadratic blow-up parts, through the real "
        "read_zip_xml_root; XML packages: every XML member of hand-written DOCX/PPTX/XLSX/ODT/ODS/ODP/ODG/ODF/EPUB packages and of the "
        "repository's small fixtures x leading bytes (none, BOM, LF, CRLF, space, TAB+LF, BOM+LF, BOM+CRLF CRLF) x reference in root text / first "
        "text node / attribute x other parts behind a blank line or not, nested entities (16-fold, 4 levels = 2 MiB if expanded) or quadratic blow-up. "
        "read_file HISTORIES on one path: 2-8 events call(limit) / resize(size around the limit; rewritten, grown in place or replaced by a new file) / "
        "consume(i) incl. several pending results, consumption out of order, a second call after the file changed, + 25 fixed histories; "
        "compressed STREAMS that are not the container the dispatcher expects: gzip / bzip2 / xz files of 1-2 members (one expanding to 32 x the "
        "per-member limit, the last to 5 bytes; forged ISIZE; a real tar.gz followed by further members) under the names x.txt.gz / x.tgz / none, "
        "through read_archive and read_file; multi-member gzip files against the ISIZE / bounded-read model. "
        "distinct = distinct (loop, input) / (limit site, size) pairs; non-trivial = non-empty input")
ASSUMPTIONS = [
    "CPython semantics of slicing, int.from_bytes, struct.unpack, bytes.find, BytesIO.read/seek (modelled, tied by the correspondence)",
    "str.lower / str.isalpha / str.isdigit are parameters of the RTF models (the correspondence uses ASCII text)",
    "_TableExtractor.is_numeric_token is a parameter of the _extract_row model",
    "lzma / zlib / zipfile / tarfile / defusedxml / olefile / pypdf internals: their own cost on hostile input is not modelled",
    "tarfile: what extractfile(member).read() delivers is an INPUT of the TAR model (taken from plain tarfile on the same archive); "
    "the bound assumes only that a regular member's handle delivers at most the size in the member's own header (TarFaithful)",
    "zipfile / tarfile: an entry's own handle delivers at most its declared size (Faithful); a name resolves to the LAST entry carrying it "
    "(ZipFile.getinfo, TarFile.getmember) — both taken from plain zipfile / tarfile on the same archive in the correspondence",
    "7z chains: a decoder stage yields min(bound, size its stream expands to), a filter stage min(bound, input); chains written have one compressor, last",
    "text:c values are ASCII digit strings in the model (signs, underscores, non-numeric values: not modelled); openpyxl read-only "
    "iter_rows pads to the declared dimension (modelled as the rectangle A1..(max row, max col) of the used cells, dimension = that corner)",
    "peak RSS and wall time are run-time quantities: no theorem speaks about them; proved cost notions are iteration counts, bytes "
    "copied, list cells allocated, members decoded / written",
    "pdf _TableExtractor._extract main loop and SharePoint pagination loops are not modelled (assumedLoops, reasons in Model/LoopInventory.lean)",
    "self-recursive functions are classified by reading only (recursiveByReading)",
    "XML parts: the model covers internal GENERAL entities whose values refer to EARLIER entities, &amp; and literal ASCII text in the root's "
    "character data; parameter entities, external entities, attribute defaults, character references and expat's own amplification limit "
    "(factor 100 above 8 MiB) are not modelled — the package oracle is independent of the model and puts references into text, root and attribute positions",
    "XML parts parsed by openpyxl (workbook, worksheets, shared strings, styles) have no call site in the package: the chain theorem does not "
    "speak about them; the package oracle exercises them on every run (openpyxl uses defusedxml when it is installed)",
]
TRUSTED = ["sys.settrace line events as iteration counter (harness/builders/c12_trace.py)",
           "minimal 7z writer harness/builders/c12_sevenzip.py (7zFormat.txt layout)",
           "CPython tarfile as TAR writer and as the reference for what a link member's handle delivers (harness/builders/c12_limits.py:tar_reference)",
           "tools/gen/c12.py:_read_origin (where the argument of zf.read / zf.open / tf.extractfile comes from) and _sz_bound_sites (max_output plumbing); "
           "the ZipFile.open / lzma-module stand-ins and _apply_decoder probe of harness/builders/c12_limits.py",
           "minimal ODF / XLSX writers harness/builders/c12_amplify.py; tools/gen/c12.py:_tar_loop_facts (evaluates the loop's type guards on real TarInfo objects)",
           "tools/gen/c12.py:_xml_chains (XML parser calls, forbid_* keywords against the installed defusedxml's signature, enclosing except handlers "
           "evaluated against the real exception hierarchy); package / part writers harness/builders/c12_xmlparts.py; tracemalloc as peak-memory meter"]

MB = 1024 * 1024
# coder chains of a 7z folder, coder 0 first (None: one LZMA coder).  Filters stand in front of ONE compressor, as 7-Zip writes them
SZ_CHAINS = [None, None, ["bcj", "lzma2"], ["bcj", "lzma"], ["copy", "lzma2"], ["bcj", "copy"], ["bcj", "bcj", "lzma2"], ["copy", "bcj", "lzma"]]
SZ_REFUSED_CHAINS = [["delta", "lzma2"], ["arm", "lzma"], ["ppc", "lzma2"], ["sparc", "bcj", "lzma2"]]      # the library refuses these filters
SZ_DECODABLE = ("copy", "lzma", "lzma2", "bcj")
LINEAR_C = 2          # oracle: a byte scanner may use at most LINEAR_C * (len + 1) iterations
AMP_K = 16            # oracle: output cells / allocated cells per input byte


# ============================================================================ correspondence
def _limits_correspondence(ctx):
    broken = []
    from sharepoint2text.parsing.extractors import archive_extractor as A
    import sharepoint2text  # noqa: F401
    default = 100 * MB
    reqs, impls = [], []

    def add(tag, size, impl, field, req_extra=None):
        r = {"op": "c12.limits", "max_file_size": 0, "size": size}
        r.update(req_extra or {})
        reqs.append(r)
        impls.append((tag, size, impl, field))

    for lim in (0, -1, 1, 7, 1000, default):
        sizes = sorted({0, 1, 2, 6, 7, 8, 999, 1000, 1001, default - 1, default, default + 1} if lim <= 0 else
                       {max(0, lim - 1), lim, lim + 1, 0})
        for s in sizes:
            d = X.read_file_decision(lim, s)
            add(f"read_file/limit={lim}", s, d == "reject" if not d.startswith("ERR") else d, "read_file_rejects", {"max_file_size": lim})
    for s in (default - 1, default, default + 1):       # default argument
        d = X.read_file_decision(None, s, pass_default=True)
        add("read_file/default", s, d == "reject" if not d.startswith("ERR") else d, "read_file_rejects", {"max_file_size": default})
    for lim, s in ((1000, 999), (1000, 1000), (1000, 1001), (0, 5000)):   # genuinely sparse files, no forging
        d = X.read_file_sparse_decision(lim, s)
        add(f"read_file-sparse/limit={lim}", s, d == "reject" if not d.startswith("ERR") else d, "read_file_rejects", {"max_file_size": lim})
    for s in (0, 1, 100 * MB - 1, 100 * MB, 100 * MB + 1, 2 ** 40):
        d = X.sevenzip_size_decision(s)
        add("7z-archive-size", s, d == "reject" if not d.startswith("ERR") else d, "sevenzip_rejects")
    for s in (50 * MB - 1, 50 * MB, 50 * MB + 1, 0):
        add("archive-entry-len", s, X.entry_decision(s) == "skip", "entry_skipped")
    outs = ctx.drive(reqs)
    for (tag, size, impl, field), o in zip(impls, outs):
        ctx.case((tag, size))
        ctx.count("limits/" + tag.split("/")[0])
        if "drv_error" in o:
            broken.append(Broken("correspondence", "c12.limits", o["drv_error"], case={"site": tag, "size": size}))
        elif o[field] != impl:
            broken.append(Broken("correspondence", "c12.limits." + tag.split("/")[0], f"impl={impl} model={o[field]}",
                                 case={"site": tag, "size": size}))

    # ---- members: small configured limit (many cases) + the default 10 MiB limit (real payloads)
    rng = ctx.rng
    cfgs = []
    for _ in range(ctx.n(4, 30)):
        lim = rng.choice([1, 50, 1000, 4096])
        sizes = [rng.choice([0, 1, lim - 1, lim, lim + 1, 2 * lim, rng.randint(0, 3 * lim)]) for _ in range(rng.randint(1, 5))]
        cfgs.append((lim, [max(0, s) for s in sizes]))
    cfgs.append((None, [10 * MB - 1, 10 * MB, 10 * MB + 1]))
    reqs, exp = [], []
    for lim, sizes in cfgs:
        eff = lim if lim is not None else A.ArchiveConfig().max_memory_size
        for kind, fn in (("zip", X.zip_members), ("tar", X.tar_members)):
            got, _ = fn(lim, sizes)
            reqs.append({"op": "c12.members", "kind": kind, "limit": eff, "declared": sizes})
            exp.append((kind, lim, sizes, [s for s, read in got if read]))
    outs = ctx.drive(reqs)
    for (kind, lim, sizes, read), o in zip(exp, outs):
        ctx.case((kind, lim, tuple(sizes)))
        ctx.count(f"members/{kind}/" + ("default-limit" if lim is None else "configured-limit"))
        if "drv_error" in o or o["read"] != read:
            broken.append(Broken("correspondence", "c12.members." + kind, f"impl read={read} model={o}",
                                 case={"kind": kind, "limit": lim, "sizes": sizes}))

    # ---- TAR with link members: the bytes every extractfile handle delivers, against the model fed with what plain
    #      tarfile says about each member (kind, size field of its own header, bytes its handle delivers)
    tcfgs = []
    for _ in range(ctx.n(12, 120)):
        lim = rng.choice([50, 1000, 4096])
        members, targets, k = [], ["missing.txt"], 0
        for i in range(rng.randint(1, 4)):
            sz = max(0, rng.choice([0, 1, lim - 1, lim, lim + 1, 2 * lim, rng.randint(0, 3 * lim)]))
            pre = rng.choice(["", "", "d/"])
            members.append({"name": f"{pre}m{i}.txt", "type": "reg", "size": sz})
            targets.append(f"{pre}m{i}.txt")
            for _l in range(rng.choice([0, 1, 1, 2])):
                typ = rng.choice(["hardlink", "hardlink", "symlink", "symlink", "dir", "special"])
                tgt = rng.choice(targets)
                lpre = rng.choice(["", "", "d/"])
                if typ == "symlink" and lpre == "d/":       # a symlink's target is relative to the link's directory
                    tgt = tgt[2:] if tgt.startswith("d/") else "../" + tgt
                members.append({"name": f"{lpre}l{k}.txt", "type": typ, "link": tgt, "size": rng.choice([0, 0, 0, 5, lim + 1])})
                if typ in ("hardlink", "symlink"):
                    targets.append(f"{lpre}l{k}.txt")          # chains of links
                k += 1
        tcfgs.append((lim, members))
    tcfgs.append((1000, [{"name": "big.txt", "type": "reg", "size": 1001}, {"name": "h.txt", "type": "hardlink", "link": "big.txt"},
                         {"name": "s.txt", "type": "symlink", "link": "big.txt"}, {"name": "ok.txt", "type": "reg", "size": 1000},
                         {"name": "h2.txt", "type": "hardlink", "link": "ok.txt"}, {"name": "s2.txt", "type": "symlink", "link": "ok.txt"}]))
    tcfgs.append((None, [{"name": "big.txt", "type": "reg", "size": 10 * MB + 1}, {"name": "h.txt", "type": "hardlink", "link": "big.txt"},
                         {"name": "s.txt", "type": "symlink", "link": "big.txt"}]))
    reqs, exp = [], []
    for lim, members in tcfgs:
        eff = lim if lim is not None else A.ArchiveConfig().max_memory_size
        data = X.tar_archive(members, gz=rng.random() < 0.7)
        ref = X.tar_reference(data)
        got = X.tar_loop(lim, data)
        reqs.append({"op": "c12.tar_loop", "limit": eff, "members": [{"size": r["size"], "kind": r["kind"], "delivers": r["delivers"]} for r in ref]})
        exp.append((lim, members, ref, got))
    outs = ctx.drive(reqs)
    for (lim, members, ref, got), o in zip(exp, outs):
        ctx.case(("tar-links", lim, repr(members)))
        kinds = {r["kind"] for r in ref}
        ctx.count("members/tar-links/" + ("with-links" if kinds & {"hardlink", "symlink"} else "regular-only"))
        for r in ref:
            if r["kind"] in ("hardlink", "symlink"):
                ctx.count(f"members/tar-links/{r['kind']}-" + ("dangling" if r["delivers"] is None else "resolves"))
        real = [n for _, n in got["chunks"]]
        if "drv_error" in o or got["err"] is not None or o["delivered"] != real:
            broken.append(Broken("correspondence", "c12.tar_loop", f"impl chunks={got['chunks']} err={got['err']} model={o} reference={ref}",
                                 case={"kind": "tar_links", "limit": lim, "members": members}))

    # ---- 7z: which folders are decoded, what is written
    fixed = X.sevenzip_is_fixed()
    ctx.coverage["sevenzip_extractall_members_present"] = fixed
    reqs, exp = [], []
    szcfgs = []
    for _ in range(ctx.n(5, 40)):
        lim = rng.choice([50, 1000])
        folders = []
        k = 0
        for _f in range(rng.randint(1, 3)):
            files = []
            for _e in range(rng.randint(1, 3)):
                ext = rng.choice([".txt", ".txt", ".txt", ".bin"])
                # (no zero-length members: a real 7z writer stores them as "empty streams" outside the folders)
                files.append((f"f{k}{ext}", max(1, rng.choice([1, 2, lim - 1, lim, lim + 1, 3 * lim]))))
                k += 1
            folders.append(files)
        szcfgs.append((lim, folders))
    szcfgs.append((1000, [[("a.txt", 10)], [("c.bin", 20)]], ("e.txt", "x.bin", "sub/e2.txt")))
    szcfgs.append((None, [[("big.txt", 10 * MB + 1)]]))
    szcfgs.append((None, [[("ok.txt", 10 * MB)]]))
    for cfg in szcfgs:
        lim, folders = cfg[0], cfg[1]
        empties = cfg[2] if len(cfg) > 2 else ()
        eff = lim if lim is not None else A.ArchiveConfig().max_memory_size
        got = X.sevenzip_extract(lim, folders, empty_files=empties)
        got["n_empty_written"] = sum(1 for nm in empties if nm in got["written"])
        for nm in empties:
            got["written"].pop(nm, None)
        reqs.append({"op": "c12.sz_extract", "fixed": fixed, "limit": eff,
                     "folders": [[{"declared": sz, "keep": nm.endswith(".txt")} for nm, sz in f] for f in folders],
                     "empties": [{"keep": nm.endswith(".txt")} for nm in empties]})
        exp.append((lim, folders, got))
    outs = ctx.drive(reqs)
    for (lim, folders, got), o in zip(exp, outs):
        ctx.case(("7z", lim, repr(folders)))
        ctx.count("members/7z/" + ("default-limit" if lim is None else "configured-limit"))
        if "drv_error" in o:
            broken.append(Broken("correspondence", "c12.sz_extract", o["drv_error"], case={"limit": lim, "folders": folders}))
            continue
        if got["err"] is not None:
            broken.append(Broken("correspondence", "c12.sz_extract", f"real extraction failed: {got['err']}", case={"limit": lim, "folders": folders}))
            continue
        dec_model = [i for i, r in enumerate(o["runs"]) if r["decoded"] is not None]
        dec_real = sorted({i for i, _ in got["decoded"]})
        wr_model = sorted(sz for r in o["runs"] for sz in r["written"])
        wr_real = sorted(got["written"].values())
        bound_ok = all(n <= o["runs"][i]["decoded"] for i, n in got["decoded"] if o["runs"][i]["decoded"] is not None)
        if dec_model != dec_real or wr_model != wr_real or not bound_ok or o["empty_written"] != got.get("n_empty_written", 0):
            broken.append(Broken("correspondence", "c12.sz_extract",
                                 f"impl decoded={got['decoded']} written={got['written']} model={o['runs']}",
                                 case={"limit": lim, "folders": folders}))


    # ---- ZIP / TAR archives whose member NAMES repeat: the bytes every handle delivers (zf.open / zf.read /
    #      tf.extractfile), against the model fed with what plain zipfile / tarfile say about each entry
    ncfgs = []
    pool = ["a.txt", "b.txt", "d/a.txt", "c.txt"]
    for _ in range(ctx.n(10, 100)):
        lim = rng.choice([50, 1000, 4096])
        ents = []
        for _e in range(rng.randint(2, 5)):
            ents.append({"name": rng.choice(pool[:rng.choice([1, 2, 4])]),
                         "size": max(0, rng.choice([0, 1, lim - 1, lim, lim + 1, 2 * lim, rng.randint(0, 3 * lim)])),
                         "stored": rng.random() < 0.3})
        ncfgs.append((lim, ents))
    for lim in (50, 1000):
        ncfgs += [(lim, [{"name": "a.txt", "size": 10}, {"name": "a.txt", "size": lim + 1}]),
                  (lim, [{"name": "a.txt", "size": lim + 1}, {"name": "a.txt", "size": 10}]),
                  (lim, [{"name": "a.txt", "size": lim}, {"name": "b.txt", "size": 3}, {"name": "a.txt", "size": 3 * lim}, {"name": "a.txt", "size": lim - 1}])]
    ncfgs.append((None, [{"name": "report.txt", "size": 27}, {"name": "report.txt", "size": 10 * MB + 1}]))
    reqs, exp = [], []
    for lim, ents in ncfgs:
        eff = lim if lim is not None else A.ArchiveConfig().max_memory_size
        for kind in ("zip", "tar"):
            if kind == "zip":
                data = X.zip_archive(ents)
                ref = X.zip_reference(data)
                got = X.zip_loop(lim, data)
                real = [h[3] for h in got["handles"]]
            else:
                data = X.tar_archive([{"name": e["name"], "type": "reg", "size": e["size"]} for e in ents], gz=rng.random() < 0.7)
                ref = [{"name": r["name"], "declared": r["size"], "delivers": r["delivers"] or 0} for r in X.tar_reference(data)]
                got = X.tar_loop(lim, data)
                real = [n for _, n in got["chunks"]]
            names = sorted({r["name"] for r in ref})
            reqs.append({"op": "c12.named_loop", "kind": kind, "limit": eff,
                         "entries": [{"name": names.index(r["name"]), "declared": r["declared"], "delivers": r["delivers"]} for r in ref]})
            exp.append((kind, lim, ents, ref, got, real))
    outs = ctx.drive(reqs)
    for (kind, lim, ents, ref, got, real), o in zip(exp, outs):
        ctx.case(("named", kind, lim, repr(ents)))
        dup = len({e["name"] for e in ents}) < len(ents)
        eff = lim if lim is not None else A.ArchiveConfig().max_memory_size
        last_over = any(e["size"] <= eff and any(f["name"] == e["name"] for f in ents[i + 1:]) and
                        [f for f in ents if f["name"] == e["name"]][-1]["size"] > eff for i, e in enumerate(ents))
        ctx.count(f"members/{kind}-names/" + ("in-limit-entry-then-oversize-last-entry-of-the-same-name" if last_over else
                                               "duplicate-names" if dup else "distinct-names"))
        if "drv_error" in o or got["err"] is not None or o["delivered"] != real:
            broken.append(Broken("correspondence", "c12.named_loop." + kind, f"impl read={real} ({got}) model={o} reference={ref}",
                                 case={"kind": "named_members", "archive": kind, "limit": lim, "entries": ents}))

    # ---- 7z: folders with a coder CHAIN (filter <- LZMA / LZMA2, as 7-Zip writes with -mf=BCJ / -mf=Delta), the output of
    #      EVERY stage; 7z members whose names repeat (written to / read back from the temp directory by name)
    chcfgs = []
    for _ in range(ctx.n(10, 80)):
        lim = rng.choice([50, 1000])
        folders, chains, k = [], [], 0
        for _f in range(rng.randint(1, 3)):
            files = []
            for _e in range(rng.randint(1, 3)):
                ext = rng.choice([".txt", ".txt", ".txt", ".bin"])
                nm = f"f{k}{ext}" if rng.random() < 0.7 or not k else "f0.txt"
                files.append((nm, max(1, rng.choice([1, 2, lim - 1, lim, lim + 1, 3 * lim]))))
                k += 1
            folders.append(files)
            chains.append(rng.choice(SZ_CHAINS))
        chcfgs.append((lim, folders, chains))
    for ch in SZ_CHAINS + SZ_REFUSED_CHAINS:
        chcfgs.append((1000, [[("note.txt", 23), ("big.txt", 5000)]], [ch]))
    chcfgs.append((1000, [[("a.txt", 10)], [("a.txt", 1001)]], [["bcj", "lzma2"], None]))
    chcfgs.append((1000, [[("a.txt", 10), ("a.txt", 1001), ("a.txt", 7)]], [["bcj", "lzma"]]))
    chcfgs.append((None, [[("note.txt", 23), ("big.txt", 10 * MB + 1)]], [["bcj", "lzma2"]]))
    reqs, exp = [], []
    for lim, folders, chains in chcfgs:
        eff = lim if lim is not None else A.ArchiveConfig().max_memory_size
        got = X.sevenzip_extract(lim, folders, chains=chains)
        kept = [(nm, sz) for f in folders for nm, sz in f if nm.endswith(".txt")]
        names = sorted({nm for nm, _ in kept})
        reqs.append({"op": "c12.sz_extract", "fixed": fixed, "limit": eff, "empties": [],
                     "folders": [[{"declared": sz, "keep": nm.endswith(".txt")} for nm, sz in f] for f in folders]})
        reqs.append({"op": "c12.sz_read_back", "limit": eff, "entries": [{"name": names.index(nm), "declared": sz} for nm, sz in kept]})
        exp.append((lim, folders, chains, got))
    outs = ctx.drive(reqs)
    creqs, cexp = [], []
    for n_, (lim, folders, chains, got) in enumerate(exp):
        o, rb = outs[2 * n_], outs[2 * n_ + 1]
        case = {"kind": "7z_chain", "limit": lim, "folders": [[[nm, sz] for nm, sz in f] for f in folders], "chains": chains}
        ctx.case(("7z-chain", lim, repr(folders), repr(chains)))
        refused = any(ch and any(c not in SZ_DECODABLE for c in ch) for ch in chains)
        for ch in chains:
            ctx.count("members/7z-chain/" + ("single-coder" if not ch else "<-".join(ch)))
        if len({nm for f in folders for nm, _ in f}) < sum(len(f) for f in folders):
            ctx.count("members/7z-chain/duplicate-names")
        if "drv_error" in o or "drv_error" in rb:
            broken.append(Broken("correspondence", "c12.sz_chain", str(o.get("drv_error") or rb.get("drv_error")), case=case))
            continue
        if (got["err"] is not None) != refused:
            broken.append(Broken("correspondence", "c12.sz_chain", f"real extraction: err={got['err']}, a refused coder in the chains: {refused}", case=case))
            continue
        dec_model = {i: r["decoded"] for i, r in enumerate(o["runs"]) if r["decoded"] is not None}
        if not refused:
            if sorted(dec_model) != sorted({i for i, _ in got["decoded"]}) or any(n != dec_model.get(i) for i, n in got["decoded"]) \
                    or [n for _, n in got["entries"]] != rb["read_back"]:
                broken.append(Broken("correspondence", "c12.sz_chain", f"impl decoded={got['decoded']} read back={got['entries']} "
                                     f"model decoded={dec_model} read back={rb['read_back']}", case=case))
                continue
        if any(i not in dec_model or n > dec_model[i] for i, n in got["lzma_out"]):
            broken.append(Broken("correspondence", "c12.sz_chain", f"an lzma decoder produced more than the bound: {got['lzma_out']} model bounds={dec_model}", case=case))
            continue
        for i, ch in enumerate(chains):
            st = [r for r in got["stages"] if r[0] == i]
            if not st:
                if i in dec_model and not refused and got["stage_probe"]:
                    broken.append(Broken("correspondence", "c12.sz_chain", f"folder {i}: no stage observed, model decodes it", case=case))
                continue
            names_ = list(reversed(ch)) if ch else ["lzma"]
            real_total = sum(sz for _, sz in folders[i])
            creqs.append({"op": "c12.sz_chain", "packed": st[0][2], "max_output": dec_model.get(i),
                          "stages": [({"kind": "decoder", "real": real_total} if c in ("lzma", "lzma2") else
                                      {"kind": "filter"} if c in ("copy", "bcj") else {"kind": "unsupported"}) for c in names_]})
            cexp.append((case, i, [r[3] for r in st if r[3] is not None], [r[1] for r in st], names_, i in dec_model))
    couts = ctx.drive(creqs)
    for (case, i, real, real_names, names_, decodes), o in zip(cexp, couts):
        if "drv_error" in o or not decodes or o["outputs"] != real or real_names != names_[:len(real_names)]:
            broken.append(Broken("correspondence", "c12.sz_chain", f"folder {i}: stages {real_names} yield {real}, model {names_} {o} "
                                 f"(decoded by the model: {decodes})", case=case))

    # ---- ODS sheet shapes
    reqs, exp = [], []
    for _ in range(ctx.n(40, 600)):
        rows = []
        for _r in range(rng.randint(0, 4)):
            cells = []
            for _c in range(rng.randint(0, 4)):
                rep = rng.choice([1, 1, 1, 2, 3, 0, -1, 100, 101, 150])
                cells.append((rep, rng.choice([None, None, "x", "ab", X.COVERED])))
            rows.append((rng.choice([1, 1, 2, 3, 0, -2, 100, 101, 120]), cells))
        reqs.append(X.ods_model_request(rows))
        exp.append((rows, X.ods_extract(rows)))
    outs = ctx.drive(reqs)
    for (rows, got), o in zip(exp, outs):
        ctx.case(("ods", repr(rows)), nontrivial=bool(rows))
        ctx.count("ods/" + ("empty" if got["cells"] == 0 else "cells"))
        if any(t == X.COVERED for _, cs in rows for _, t in cs):
            ctx.count("ods/with-covered-cells")
        if "drv_error" in o or got["ragged"] or (got["rows"], got["cells"], got["xml_len"]) != (o["rows"], o["cells"], o["xml_len"]) \
                or (got["rows"] and got["cols"] != o["cols"]):
            broken.append(Broken("correspondence", "c12.ods", f"impl={got} model={o}", case={"ods_rows": rows}))

    # ---- ODF text:s: <text:p> of literal text and text:s elements; the shared walker and the five extractors
    reqs, exp = [], []
    for i in range(ctx.n(30, 300)):
        inl = [("text", rng.choice(["a", "bc", "Z"]))]
        for _ in range(rng.randint(0, 3)):
            inl.append(("space", rng.choice(["0", "1", "2", "7", "10", "007", "100", "2000", "31", "00"])))
            inl.append(("text", rng.choice(["a", "bc", "Z"])))
        fmt = M.ODF_FORMATS[i % len(M.ODF_FORMATS)] if i % 3 == 0 else None
        reqs.append(M.text_s_model_request(inl))
        exp.append((inl, M.element_text_len(inl), M.odf_extract(fmt, inl) if fmt else None, fmt))
    outs = ctx.drive(reqs)
    for (inl, (tl, sp), full, fmt), o in zip(exp, outs):
        ctx.case(("text_s", fmt, repr(inl)))
        ctx.count("text_s/" + (fmt or "element_text"))
        if "drv_error" in o or (o["out_len"], o["spaces"]) != (tl, sp) or (full and (full["spaces"], full["para_len"]) != (o["spaces"], o["markup_len"])):
            broken.append(Broken("correspondence", "c12.text_s", f"impl element_text=(len {tl}, spaces {sp}) extractor={full} model={o}",
                                 case={"kind": "odf_text", "fmt": fmt or "odt", "inlines": [list(x) for x in inl]}))

    # ---- XLSX: the rectangle spanned by the used cells (dimension = their corner), within 30 x 30
    reqs, exp = [], []
    for _ in range(ctx.n(20, 200)):
        rws = sorted(rng.sample(range(1, 31), rng.randint(1, 4)))
        cells = [(r, rng.randint(1, 30), rng.choice(["x", "yz"])) for r in rws]
        reqs.append(M.xlsx_model_request(cells))
        exp.append((cells, M.xlsx_extract(cells)))
    outs = ctx.drive(reqs)
    for (cells, got), o in zip(exp, outs):
        ctx.case(("xlsx_rect", repr(cells)))
        ctx.count("xlsx/used-cells-" + str(len(cells)))
        if "drv_error" in o or (o["cells"], o["sheet_len"]) != (got["all_rows_cells"], got["sheet_len"]):
            broken.append(Broken("correspondence", "c12.xlsx_rect", f"impl={got} model={o}",
                                 case={"kind": "xlsx_cells", "cells": [list(c) for c in cells]}))
    return broken


# ============================================================================ histories of read_file / compressed streams
def _obs_eq(model, real, ev):
    """model observation vs. real one (a read at CALL time is invisible from outside)"""
    if ev["ev"] == "call" and isinstance(model, dict):
        model = "none"
    return model == real


def _history_correspondence(ctx):
    """the history model (activations GENERATED from the current source) against the real read_file on real files;
    multi-member gzip files against the ISIZE / bounded-read model"""
    broken = []
    hs = H.fixed_histories() + [H.gen_history(ctx.rng) for _ in range(ctx.n(40, 400))]
    reqs = [{"op": "c12.history", "size": s0, "events": [{k: v for k, v in e.items() if k != "mode"} for e in evs]} for s0, evs in hs]
    outs = ctx.drive(reqs)
    for (s0, evs), o in zip(hs, outs):
        ctx.case(("history", s0, repr(evs)))
        deferred = any(e["ev"] == "resize" and any(f["ev"] == "call" for f in evs[:k]) and any(f["ev"] == "consume" for f in evs[k:])
                       for k, e in enumerate(evs))
        ctx.count("limits/read_file-history/" + ("file-changes-between-call-and-consume" if deferred else "quiescent"))
        real = H.read_file_history(s0, evs)
        if "drv_error" in o or len(o["obs"]) != len(real) or not all(_obs_eq(m, r, e) for m, r, e in zip(o["obs"], real, evs)):
            broken.append(Broken("correspondence", "c12.history", f"impl={real} model={o}", case={"kind": "read_file_history", "size": s0, "events": evs}))
    rng = ctx.rng
    cfgs = [([0], 10), ([5], 10), ([11], 10), ([10, 0], 10), ([3000, 5], 1000), ([5, 3000], 1000), ([400, 400, 400], 1000), ([70000, 1], 4096)]
    for _ in range(ctx.n(10, 80)):
        lim = rng.choice([10, 1000, 4096])
        cfgs.append(([max(0, rng.choice([0, 1, lim - 1, lim, lim + 1, 3 * lim, rng.randint(0, 2 * lim)])) for _ in range(rng.randint(1, 4))], lim))
    outs = ctx.drive([{"op": "c12.gz_stream", "members": ms, "limit": lim} for ms, lim in cfgs])
    for (ms, lim), o in zip(cfgs, outs):
        ctx.case(("gz_stream", tuple(ms), lim))
        ctx.count("streams/gzip-" + ("multi-member" if len(ms) > 1 else "single-member"))
        real = H.gzip_facts(ms, lim)
        if "drv_error" in o or any(o[k] != real[k] for k in ("isize", "inflated", "bounded_read")):
            broken.append(Broken("correspondence", "c12.gz_stream", f"CPython gzip={real} model={o}", case={"kind": "gz_stream", "members": ms, "limit": lim}))
    return broken


def _history_violation(size0, events):
    """the statement on one history (no model involved): whatever is read into memory for a result obtained with max_file_size=L > 0 has
    at most L bytes; a refusal needs a moment between the call and the consumption at which the file was larger than L; nothing else fails"""
    real = H.read_file_history(size0, events)
    calls = H.history_windows(size0, events)
    rep = {"kind": "read_file_history", "size": size0, "events": events}
    story = f"file of {size0} bytes; " + ", ".join(
        f"read_file(max_file_size={e['limit']})" if e["ev"] == "call" else f"the file is {e.get('mode', 'rewrite')}n to {e['size']} bytes".replace("rewriten", "rewritten").replace("replacen", "replaced by a new file of").replace("of to", "of") if e["ev"] == "resize"
        else f"result {e['i']} consumed -> {o}" for e, o in zip(events, real))
    n_call = -1
    for e, o in zip(events, real):
        if e["ev"] == "resize":
            continue
        if e["ev"] == "call":
            n_call += 1
            c = calls[n_call]
        else:
            if e["i"] >= len(calls):
                continue
            c = calls[e["i"]]
        lim = c["limit"]
        if isinstance(o, dict) and lim > 0 and o["read"] > lim:
            return Violation("limit.read_file-judges-another-file",
                             f"{story}: {o['read']} characters delivered under max_file_size={lim} — the limit was judged on a file that is not the one read", rep)
        if isinstance(o, str) and o.startswith("ERR"):
            return Violation("limit.read_file-deferred", f"{story}: {o}", rep)
        if o == "reject":
            seen = c["sizes"][:1] if e["ev"] == "call" else c["sizes"]
            if not (lim > 0 and any(s > lim for s in seen)):
                return Violation("limit.read_file-deferred", f"{story}: refused although the file never had more than max_file_size={lim} bytes "
                                 f"between the call and the consumption (sizes {seen})", rep)
    return None


def _oracle_histories(ctx, extra=()):
    out = []
    for s0, evs in list(extra) + H.fixed_histories():
        ctx.count("oracle/read_file-history")
        v = _history_violation(s0, evs)
        if v is not None and not any(x.key == v.key for x in out):
            out.append(v)
    return out


STREAM_LIMIT = 256 * 1024          # configured per-member limit of the stream oracle
STREAM_FACTOR = 32                 # the big member expands to STREAM_FACTOR x the limit (8 MiB)


def _stream_cases():
    big = STREAM_FACTOR * STREAM_LIMIT
    cases = []
    for codec, ext, short in (("gz", ".gz", ".tgz"), ("bz2", ".bz2", ".tbz2"), ("xz", ".xz", ".txz")):
        shapes = [([big], None), ([big, 5], None)] + ([([big], 5), ([5, big], None)] if codec == "gz" else [])
        for members, forge in shapes:
            for name, vias in (("notes.txt" + ext, ("read_archive", "read_file")), ("notes" + short, ("read_file",)), (None, ("read_archive",))):
                for via in vias:
                    cases.append({"limit": STREAM_LIMIT, "codec": codec, "members": members, "forge_isize": forge, "name": name, "via": via})
    cases.append({"limit": STREAM_LIMIT, "codec": "tar+gz", "members": [big, 5], "forge_isize": None, "name": "bundle.tar.gz", "via": "read_file"})
    cases.append({"limit": None, "codec": "gz", "members": [24 * MB, 5], "forge_isize": None, "name": "notes.txt.gz", "via": "read_archive"})
    return cases


def _stream_violation(c):
    """the statement on a compressed stream whose content exceeds the per-member limit: it is refused or skipped WITHOUT being
    decompressed into memory — no text beyond the limit comes back, and the peak of additional memory stays below half of what it expands to"""
    from sharepoint2text.parsing.extractors import archive_extractor as A
    eff = c["limit"] if c["limit"] is not None else A.ArchiveConfig().max_memory_size
    total = sum(c["members"])
    if total > 40 * MB or max(c["members"]) <= 2 * eff:
        return None, "refused: the stream must expand to more than twice the limit and at most 40 MB"
    data = H.tar_then_stream(c["members"]) if c["codec"] == "tar+gz" else H.stream_bytes(c["codec"], c["members"], c.get("forge_isize"))
    got = H.stream_run(c["limit"], data, c["name"], c["via"])
    msg = (f"{c['codec']} file {c['name']!r} of {len(data)} bytes, {len(c['members'])} member(s) expanding to {c['members']} bytes"
           + (f" (ISIZE forged to {c['forge_isize']})" if c.get("forge_isize") is not None else "") + f", per-member limit {eff}, through {c['via']}: "
           f"{got['outcome']}, {got['chars']} characters of text, peak additional memory {got['peak']} bytes")
    if got["chars"] > eff or got["peak"] >= max(c["members"]) // 2 or got["outcome"].startswith("ERR"):
        return Violation("archive.packed-stream-inflated-beyond-limit", msg + " — a compressed payload above the per-member limit was "
                         "decompressed into memory (the statement: skipped without being decompressed)", {"kind": "packed_stream", **c}), msg
    return None, msg


def _oracle_streams(ctx):
    if getattr(ctx, "_c12_streams", None) is not None:
        return list(ctx._c12_streams)
    out = []
    for c in _stream_cases():
        ctx.count("oracle/packed-stream/" + c["codec"] + ("-multi-member" if len(c["members"]) > 1 else ""))
        v, _ = _stream_violation(c)
        if v is not None and not out:
            out.append(v)
    ctx._c12_streams = out
    return list(out)


# ---- COST of whole archives through read_archive (judged on the real code, no model involved): work per input byte whatever the
#      stored order of the members; no recursive unpacking of members that are archives, under any member name
REREAD_C = 4           # oracle: the library may read the archive it was handed at most REREAD_C times (it reads it twice today)
REREAD_REWINDS = 4     # oracle: rewinds of the input to offset 0, independent of the number of members
REREAD_N = (60, 120)


def _reread_violation(kind, order, n, size=2048, seed=0):
    """the statement on an archive of n small documents stored in `order`: run time within a fixed multiple of the input size —
    bytes read from the input <= REREAD_C * len, rewinds of the input <= REREAD_REWINDS (a forward-only decompressor that is
    asked for an EARLIER member inflates the stream from the start again: members x archive size)"""
    if n > 200 or size > 8192:
        return Violation("harness.unsafe-input", "refusing an order archive above 200 members / 8 KB per member", {}, found_input=False), ""
    g = K.reread_run(kind, order, n, size, seed)
    msg = (f"{kind} archive of {g['len']} bytes, {n} documents of {size} bytes stored in {order} name order "
           f"(first: {K.order_names(order, n, seed)[:3]}): read_archive read {g['n_read']} bytes from it ({g['n_read'] / max(1, g['len']):.1f} x its size), "
           f"rewound it {g['rewinds']} times, {g['docs']} documents, err={g['err']}")
    rep = {"kind": "archive_order", "archive": kind, "order": order, "n": n, "size": size, "seed": seed}
    if g["n_read"] > REREAD_C * g["len"] + 65536 or g["rewinds"] > REREAD_REWINDS:
        return Violation("archive.member-order-rereads-input", msg + f" — the statement: run time within a fixed multiple of the input size "
                         f"(allowed here: {REREAD_C} passes, {REREAD_REWINDS} rewinds, irrespective of the number and order of members)", rep), msg
    if g["err"] is not None or g["docs"] != n:
        return Violation("archive.member-order-rereads-input", msg + f" — expected {n} documents", rep), msg
    return None, msg


def _oracle_reread(ctx):
    if getattr(ctx, "_c12_reread", None) is not None:
        return list(ctx._c12_reread)
    out = []
    seed = getattr(ctx, "seed", 0) or 0
    for kind in K.ORDER_KINDS:
        for order in K.ORDERS:
            for n in (REREAD_N if ctx.thorough else REREAD_N[-1:]):
                ctx.count(f"oracle/archive-order/{kind}/{order}")
                v, _ = _reread_violation(kind, order, n, seed=seed)
                if v is not None and not out:
                    out.append(v)
    ctx._c12_reread = out
    return list(out)


def _nested_violation(outer, inner, suffix, depth, fan):
    """the statement on a nest of compressed archives (fan-out `fan`, `depth` levels, members named part<i><suffix>): the text
    handed back stays within AMP_K x the archive's size after ONE level of decompression, irrespective of the nesting depth"""
    if depth > K.MAX_DEPTH or fan > K.MAX_FAN:
        return Violation("harness.unsafe-input", "refusing a nest deeper than 4 / wider than 3", {}, found_input=False), ""
    g = K.nested_run(outer, inner, suffix, depth, fan)
    g1 = K.nested_run(outer, inner, suffix, 1, fan)
    msg = (f"{outer} archive of {g['len']} bytes ({g['unpacked']} unpacked) holding {fan} members part<i>{suffix} that are {inner} archives, nested "
           f"{depth} deep around one 4 KB document: read_archive returned {g['docs']} documents, {g['chars']} characters, {g['marked']} of them "
           f"copies of the innermost document (depth 1: {g1['docs']} documents, {g1['chars']} characters), err={g['err']}")
    rep = {"kind": "nested_archive", "outer": outer, "inner": inner, "suffix": suffix, "depth": depth, "fan": fan}
    if g["chars"] > AMP_K * max(g["unpacked"], g["len"]) or g["marked"] > fan:
        return Violation("archive.nested-member-unpacked-recursively", msg + f" — members that are archives are unpacked recursively: documents grow "
                         f"as {fan}^depth while the input stays ~1 KB (the statement: cost within a fixed multiple of the input size irrespective of nesting depth)", rep), msg
    return None, msg


def _oracle_nested(ctx):
    if getattr(ctx, "_c12_nested", None) is not None:
        return list(ctx._c12_nested)
    out = []
    names = K.name_universe()
    ctx.coverage["nested_name_universe"] = len(names)
    for outer in K.OUTER_KINDS:
        for inner in K.INNER_KINDS:
            ctx.count(f"oracle/nested-archive/{outer}<-{inner}", len(names))
            for sfx in K.leaking_suffixes(outer, inner, names):
                v, _ = _nested_violation(outer, inner, sfx, K.MAX_DEPTH, K.MAX_FAN)
                if v is not None and not out:
                    out.append(v)
            if out:
                break
        if out:
            break
    # fixed deep nests under the names every archive tool writes (also when the depth-1 probe saw nothing: recursion that
    # starts only below the first level)
    if not out:
        for outer, inner, sfx in (("tar.gz", "tar.gz", ".tar.gz"), ("zip", "zip", ".zip"), ("tar.gz", "tar.gz", ".taz"), ("zip", "tar.gz", ".tgz"), ("tar.gz", "zip", ".ZIP")):
            ctx.count("oracle/nested-archive/deep")
            v, _ = _nested_violation(outer, inner, sfx, 3, 3)
            if v is not None:
                out.append(v)
                break
    ctx._c12_nested = out
    return list(out)


def correspondence(ctx):
    broken, mism = c12_loopcheck.run(ctx, Broken)
    ctx._c12_mismatches = mism
    broken += _limits_correspondence(ctx)
    broken += XC.correspondence(ctx, Broken)
    broken += _history_correspondence(ctx)
    ctx.sample({"loops": sorted(k for k in ctx.dist if k.startswith("loops/"))[:8]})
    # the package oracle for entity constructs runs on every check (see builders/c12_xmlcheck.py for why); so does the
    # archive oracle (duplicate member names, coder chains): a change there leaves results and unique-name / single-coder
    # archives alone, so nothing else would call for a search
    return {"broken": broken, "violations": XC.sweep(ctx, Violation) + _oracle_archives(ctx) + _oracle_deferred(ctx) + _oracle_histories(ctx) + _oracle_streams(ctx) + _oracle_reread(ctx) + _oracle_nested(ctx)}


# ============================================================================ oracle (property statement on the real code)
def _probe_steps(P, names, fn):
    """run fn() with the named probes; -> {name: iterations} or 'HANG'"""
    try:
        with Tracer([P[n] for n in names], cap=2_000_000):
            fn()
    except StepLimit as e:
        return "HANG:" + str(e)
    except Exception:
        pass
    return {n: P[n].count for n in names}


def _loop_runner(P, name, inp):
    """(probe names, callable) for one loop family"""
    import io
    if name == "xls_filepass":
        return ["xls_filepass"], lambda: L.impl_xls_filepass(P, inp)
    if name == "jpeg_dims":
        return ["jpeg_dims"], lambda: L.impl_jpeg_dims(P, inp)
    if name.startswith("pixel_"):
        return [name], lambda: L.impl_pixel(P, name[6:], inp)
    if name == "ppt_iter":
        return ["ppt_iter"], lambda: L.impl_ppt_iter(P, inp)
    if name == "slide_list":
        return ["ppt_iter"], lambda: L.impl_slide_list(P, inp)
    if name == "xls_blip":
        return ["xls_blip"], lambda: L.impl_xls_blip(P, inp)
    if name == "dib":
        return ["dib"], lambda: L.impl_dib(P, inp)
    if name == "png":
        return ["png_outer", "png_inner"], lambda: L.impl_png(P, inp)
    if name == "rtf_ignorable":
        return ["rtf_outer", "rtf_inner"], lambda: L.impl_rtf_ignorable(P, inp)
    if name == "rtf_walk":
        return ["rtf_walk"], lambda: L.impl_rtf_walk(P, inp)
    if name == "sz_props":
        return ["sz_props"], lambda: L.impl_sz_props(P, inp)
    if name == "sz_files_info":
        return ["sz_files_outer", "sz_files_inner"], lambda: L.impl_sz_files_info(P, inp)
    return [], lambda: None


def _adversarial_inputs(rng, n):
    """(loop, input) pairs built to amplify: zero-length records, maximal lengths, dense markers"""
    out = []
    for size in (64, 512, 4096):
        out += [("xls_filepass", b"\x01\x00\x00\x00" * (size // 4)), ("xls_filepass", b"\x00" * size),
                ("jpeg_dims", b"\xff\xd8" + b"\xff\xe0\x00\x00" * (size // 4)), ("jpeg_dims", b"\xff\xd8" + b"\xff" * size),
                ("jpeg_dims", b"\xff\xd8" + b"\x00" * size),
                ("ppt_iter", b"\x0f\x00\x00\x00\x00\x00\x00\x00" * (size // 8)), ("ppt_iter", b"\xff" * size),
                ("slide_list", L.ppt_nest(size // 8)), ("slide_list", L.ppt_rec(0xF, 0, 0x0FF0, b"") * (size // 8)),
                ("xls_blip", (b"\x00\x00\x1d\xf0\x01\x00\x00\x00\x00") * (size // 9)), ("xls_blip", b"\x00" * size),
                ("dib", b"\x28\x00\x00\x00" * (size // 4)),
                ("dib", (struct.pack("<IiiHHII", 40, 1, 1, 1, 24, 0, 0) + b"\x00" * 16) * (size // 40)),
                ("png", L.png_amplifier(size // 28, size // 28)), ("png", L.png_amplifier(size // 28, size // 28, True)),
                ("png", L.PNG_SIG * (size // 8)),
                ("rtf_ignorable", "{\\*" * (size // 3)), ("rtf_ignorable", "{\\pict" + "{" * size),
                ("rtf_walk", "\\u-" * (size // 3)), ("rtf_walk", "{\\*" * (size // 3)), ("rtf_walk", "\\'" * (size // 2)),
                ("rtf_walk", "\\a1-" * (size // 4)),
                ("sz_props", b"\x01\x00" * (size // 2)), ("sz_files_info", L.sz_number(size // 4) + b"\x11" + L.sz_number(size) + b"\x00" + b"a\x00\x00\x00" * (size // 4) + b"\x00")]
        for v in ("docx", "xlsx", "pptx"):
            out += [("pixel_" + v, b"\xff\xd8" + b"\xff\xe0\x00\x02" * (size // 4)), ("pixel_" + v, b"\xff\xd8" + b"\x00" * size)]
    for _ in range(n):
        out.append(("xls_filepass", L.gen_biff(rng)))
        out.append(("jpeg_dims", L.gen_jpeg(rng)))
        d = L.gen_image_head(rng)
        out += [("pixel_docx", d), ("pixel_xlsx", d), ("pixel_pptx", d)]
        d = L.gen_ppt(rng)
        out += [("ppt_iter", d), ("slide_list", d)]
        out.append(("xls_blip", L.gen_xls_blip(rng)))
        out.append(("png", L.gen_png(rng)))
        t = L.gen_rtf(rng)
        out += [("rtf_ignorable", t), ("rtf_walk", t)]
        out.append(("sz_props", L.gen_sz_props(rng)))
        out.append(("sz_files_info", L.gen_sz_files_info(rng)))
    return out


_SUPERLINEAR_KEYS = {"png": "doc.png-carver-quadratic", "slide_list": "ppt.slide-list-rewalk-superlinear"}


def _oracle_loops(ctx, extra):
    """iteration counts of the repo's own scanners stay within LINEAR_C * (len + 1); no loop hangs"""
    out = []
    try:
        P = L.probes()
    except KeyError as e:
        return [Violation("loop.probe-missing", f"a loop of the inventory is no longer found: {e}", {}, found_input=False)]
    seen = set()
    for name, inp in list(extra) + _adversarial_inputs(ctx.rng, ctx.n(30, 300)):
        names, fn = _loop_runner(P, name, inp)
        if not names:
            continue
        res = _probe_steps(P, names, fn)
        n = len(inp)
        rep = {"kind": "loop", "loop": name, "input": inp.hex() if isinstance(inp, (bytes, bytearray)) else inp,
               "is_text": not isinstance(inp, (bytes, bytearray))}
        if isinstance(res, str):
            key = f"loop.{name}.no-progress"
            if key not in seen:
                seen.add(key)
                out.append(Violation(key, f"{name}: loop does not terminate on a {n}-byte input ({res})", rep))
            continue
        total = sum(res.values())
        if total > LINEAR_C * len(names) * (n + 1):
            key = _SUPERLINEAR_KEYS.get(name, f"loop.{name}.superlinear")
            if key not in seen:
                seen.add(key)
                out.append(Violation(key, f"{name}: {total} loop iterations on a {n}-byte input (> {LINEAR_C * len(names)}·(len+1))", rep))
    return out


def _deferred_violation(lim, s0, s1):
    d, got = X.read_file_deferred(lim, s0, s1)
    if lim > 0 and s1 > lim and (d == "accept" or got > lim):
        return Violation("limit.read_file-judges-another-file",
                         f"read_file(max_file_size={lim}) obtained while the file had {s0} bytes, consumed after it had grown to {s1} bytes: "
                         f"{d}, {got} characters delivered — the limit was judged on a file that is not the one read",
                         {"kind": "read_file_deferred", "limit": lim, "size_at_call": s0, "size_at_read": s1})
    if d.startswith("ERR") or (d == "reject" and not (lim > 0 and (s0 > lim or s1 > lim))):
        return Violation("limit.read_file-deferred", f"read_file(max_file_size={lim}), {s0} bytes at the call, {s1} bytes when consumed: {d}",
                         {"kind": "read_file_deferred", "limit": lim, "size_at_call": s0, "size_at_read": s1})
    return None


def _oracle_deferred(ctx):
    """the size guard and the read look at the same file: histories call -> the file changes -> the result is consumed"""
    out = []
    for lim, s0, s1 in ((1000, 10, 1001), (1000, 1000, 5000), (4096, 0, 65536), (7, 7, 8), (1000, 10, 1000), (1000, 999, 20), (0, 5, 50000)):
        ctx.case(("deferred", lim, s0, s1))
        ctx.count("limits/read_file-deferred")
        v = _deferred_violation(lim, s0, s1)
        if v is not None and not any(x.key == v.key for x in out):
            out.append(v)
    return out


def _oracle_limits(ctx):
    out = []

    def add(key, what, rep):
        if not any(v.key == key for v in out):
            out.append(Violation(key, what, rep))
    default = 100 * MB
    for lim in (0, -1, -5, 1, 2, 7, 1000, 4096, default):
        for s in sorted({0, 1, max(0, lim - 1), max(0, lim), lim + 1 if lim > 0 else 3, default, default + 1}):
            d = X.read_file_decision(lim, s)
            want = "reject" if (lim > 0 and s > lim) else "accept"
            if d != want:
                add("limit.read_file", f"read_file(max_file_size={lim}) on a {s}-byte file: {d}, the statement says {want}",
                    {"kind": "read_file", "limit": lim, "size": s})
    out += _oracle_deferred(ctx)
    for s in (default - 1, default, default + 1):
        d = X.read_file_decision(None, s, pass_default=True)
        want = "reject" if s > default else "accept"
        if d != want:
            add("limit.read_file-default", f"read_file() with the default limit on a {s}-byte file: {d}, the statement says {want}",
                {"kind": "read_file", "limit": None, "size": s})
    for s in (0, 100 * MB - 1, 100 * MB, 100 * MB + 1):
        d = X.sevenzip_size_decision(s)
        want = "reject" if s > 100 * MB else "accept"
        if d != want:
            add("limit.7z-archive", f"7z archive of {s} bytes: {d}, the statement says {want} (limit 100 MB)", {"kind": "7z_size", "size": s})
    out += _oracle_members(ctx)
    for s in (50 * MB - 1, 50 * MB, 50 * MB + 1):
        d = X.entry_decision(s)
        want = "skip" if s > 50 * MB else "process"
        if d != want:
            add("limit.archive-entry", f"archive entry of {s} bytes: {d}, expected {want} (MAX_ARCHIVE_FILE_SIZE)", {"kind": "entry", "size": s})
    return out


def _tar_link_archive(eff):
    """an in-limit and an oversize regular member, each with a hard link and a symlink to it (root and sub-directory),
    a dangling link, a directory — sizes follow the limit in force, nothing else"""
    return [{"name": "ok.txt", "type": "reg", "size": eff - 1},
            {"name": "data/huge_export.txt", "type": "reg", "size": eff + 1},
            {"name": "data/readme.txt", "type": "hardlink", "link": "data/huge_export.txt"},
            {"name": "data/notes.txt", "type": "symlink", "link": "huge_export.txt"},
            {"name": "top.txt", "type": "symlink", "link": "data/huge_export.txt"},
            {"name": "ok_copy.txt", "type": "hardlink", "link": "ok.txt"},
            {"name": "ok_alias.txt", "type": "symlink", "link": "ok.txt"},
            {"name": "gone.txt", "type": "symlink", "link": "nowhere.txt"},
            {"name": "sub", "type": "dir"}]


def _tar_link_violations(lim, members):
    """the statement on a TAR archive with link entries: nothing above the per-member limit is read into memory,
    the in-limit regular members are processed, and the bytes read in total do not exceed the archive's payload"""
    from sharepoint2text.parsing.extractors import archive_extractor as A
    eff = lim if lim is not None else A.ArchiveConfig().max_memory_size
    payload = sum(m["size"] for m in members if m["type"] == "reg")
    if payload > 40 * MB:
        return [Violation("harness.unsafe-input", f"refusing a {payload}-byte TAR payload", {}, found_input=False)]
    data = X.tar_archive(members)
    got = X.tar_loop(lim, data)
    rep = {"kind": "tar_links", "limit": lim, "members": members}
    out = []
    types = {m["name"]: m["type"] for m in members}
    over = [(nm, n) for nm, n in got["chunks"] if n > eff or n < 0]
    if over:
        nm, n = over[0]
        via = types.get(nm, "?")
        key = "limit.member.tar" if via == "reg" else "limit.member.tar-link"
        out.append(Violation(key, f"tar ({len(data)} bytes) with per-member limit {eff}: the loop read {n} bytes into memory through the "
                             f"{via} entry {nm!r}" + (f" -> {[m.get('link') for m in members if m['name'] == nm][0]!r}" if via != "reg" else "")
                             + f" (all reads: {got['chunks']}); the statement says members above the limit are skipped without being decompressed", rep))
    read_names = {nm for nm, _ in got["chunks"]}
    for m in members:
        if m["type"] == "reg" and m["size"] <= eff and m["name"] not in read_names and got["err"] is None:
            out.append(Violation("limit.member.tar", f"tar member {m['name']!r} of {m['size']} bytes (limit {eff}) was skipped, the statement says processed", rep))
            break
    total = sum(n for _, n in got["chunks"] if n > 0)
    once = sum(m["size"] for m in members if m["type"] == "reg" and m["size"] <= eff)     # every in-limit member read once
    if total > once and not over:
        links = [nm for nm, _ in got["chunks"] if types.get(nm) != "reg"]
        out.append(Violation("limit.member.tar-link-multiplied", f"tar whose in-limit regular members hold {once} bytes: the loop read {total} bytes "
                             f"({got['chunks']}): a member is read again through every link entry {links} (512 bytes of header each), so the bytes "
                             "read follow the number of links, not the size of the archive", rep))
    if got["err"] is not None:
        out.append(Violation("limit.member.tar", f"tar extraction failed: {got['err']}", rep))
    return out


def _oracle_members(ctx, only_7z=False):
    out = []

    def add(key, what, rep):
        if not any(v.key == key for v in out):
            out.append(Violation(key, what, rep))
    from sharepoint2text.parsing.extractors import archive_extractor as A
    per_member = A.ArchiveConfig().max_memory_size
    for lim in (1000, None):
        eff = lim if lim is not None else per_member
        sizes = [eff - 1, eff, eff + 1]
        for kind, fn in (() if only_7z else (("zip", X.zip_members), ("tar", X.tar_members))):
            got, n_out = fn(lim, sizes)
            for s, read in got:
                if read != (s <= eff):
                    add(f"limit.member.{kind}", f"{kind} member of {s} bytes with per-member limit {eff}: "
                        + ("decompressed" if read else "skipped") + ", the statement says " + ("skipped" if s > eff else "processed"),
                        {"kind": "member", "archive": kind, "limit": lim, "sizes": sizes})
        if not only_7z:
            for v in _tar_link_violations(lim, _tar_link_archive(eff)):
                add(v.key, v.what, v.replay)
        layouts = [[[("a.txt", eff - 1)], [("b.txt", eff)], [("c.txt", eff + 1)]]] if lim is not None else \
            [[[("a.txt", eff - 1)]], [[("b.txt", eff)]], [[("c.txt", eff + 1)]]]
        for folders in layouts:
            got = X.sevenzip_extract(lim, folders)
            wr = got["written"]
            rep = {"kind": "7z_extract", "limit": lim, "folders": [[[nm, sz] for nm, sz in f] for f in folders]}
            if got["err"] is not None:
                add("limit.member.7z", f"7z extraction failed: {got['err']}", rep)
                continue
            for fi, f in enumerate(folders):
                for nm, sz in f:
                    if sz <= eff and nm not in wr:
                        add("limit.member.7z", f"7z member of {sz} bytes (limit {eff}) was skipped, the statement says processed", rep)
                    if sz > eff and (nm in wr or any(i == fi for i, _ in got["decoded"])):
                        add("7z.oversize-member-decoded-and-written",
                            f"7z member of {sz} bytes exceeds the per-member limit {eff} and is skipped by the filter, but extractall "
                            f"decoded its folder ({[n for i, n in got['decoded'] if i == fi]} bytes)"
                            + (f" and wrote it to disk ({wr.get(nm)} bytes)" if nm in wr else " (not written)"), rep)
    # LZMA2 stream that expands far beyond what the header declares for a member that passes the filter
    alen, outs = X.sevenzip_lzma2_bomb(8 * MB, 10)
    if any(n > 10 for n in outs):
        add("7z.oversize-member-decoded-and-written",
            f"a {alen}-byte 7z archive whose only member declares 10 bytes (passes the per-member filter) is decoded without an "
            f"output bound: the LZMA2 decoder produced {outs} bytes", {"kind": "7z_bomb", "real": 8 * MB, "declared": 10})
    # solid folder: oversize member before a wanted one
    got = X.sevenzip_extract(1000, [[("big.txt", 5000), ("ok.txt", 10)]])
    if got["err"] is None and ("big.txt" in got["written"] or any(n >= 5000 for _, n in got["decoded"])):
        if "big.txt" in got["written"]:
            add("7z.oversize-member-decoded-and-written", "7z solid folder: the oversize member big.txt (5000 > 1000) was written to disk",
                {"kind": "7z_extract", "limit": 1000, "folders": [[["big.txt", 5000], ["ok.txt", 10]]]})
        else:
            add("7z.solid-oversize-member-decoded", "7z solid folder: the oversize member big.txt (5000 bytes > limit 1000) stored before a wanted "
                f"member is decoded into memory ({got['decoded']}), though not written",
                {"kind": "7z_extract", "limit": 1000, "folders": [[["big.txt", 5000], ["ok.txt", 10]]]})
    return out


# ---- archives whose member names repeat; 7z folders with a coder chain (judged on the real code, no model involved)
def _named_violations(kind, lim, entries):
    """the statement on a ZIP / TAR archive of regular members (names may repeat): no handle delivers more than the
    per-member limit, nothing goes to disk, every member within the limit is processed — once, with ITS bytes"""
    from sharepoint2text.parsing.extractors import archive_extractor as A
    eff = lim if lim is not None else A.ArchiveConfig().max_memory_size
    if sum(e["size"] for e in entries) > 40 * MB:
        return [Violation("harness.unsafe-input", "refusing an archive payload above 40 MB", {}, found_input=False)]
    if kind == "zip":
        data = X.zip_archive(entries)
        got = X.zip_loop(lim, data)
        reads = [(h[2], h[3]) for h in got["handles"]]
        via = {h[2]: h[0] for h in got["handles"]}
    else:
        data = X.tar_archive([{"name": e["name"], "type": "reg", "size": e["size"]} for e in entries])
        got = X.tar_loop(lim, data)
        reads, via = got["chunks"], {}
    rep = {"kind": "named_members", "archive": kind, "limit": lim, "entries": entries}
    dup = len({e["name"] for e in entries}) < len(entries)
    key = f"limit.member.{kind}" + ("-duplicate-name" if dup else "")
    listing = ", ".join(f"{e['name']}: {e['size']}" for e in entries)
    out = []
    if any(n < 0 for _, n in reads):
        out.append(Violation(key, f"{kind} [{listing}]: the member loop called extract / extractall (members go to disk unchecked)", rep))
    over = [(nm, n) for nm, n in reads if n > eff]
    if over:
        nm, n = over[0]
        out.append(Violation(key, f"{kind} archive ({len(data)} bytes) with entries [{listing}] and per-member limit {eff}: the loop inflated {n} bytes "
                             f"into memory for {nm!r}" + (f" (opened by {via[nm]})" if nm in via else "") + f" (all reads: {reads}); the statement says "
                             "members above the limit are skipped without being decompressed" +
                             (" — the size tested belongs to an earlier entry of the same name" if dup else ""), rep))
    want = [(e["name"], e["size"]) for e in entries if e["size"] <= eff]
    if not out and got["err"] is None and sorted(reads) != sorted(want):
        total, once = sum(n for _, n in reads), sum(n for _, n in want)
        if total > once:
            out.append(Violation(key + "-multiplied", f"{kind} [{listing}] limit {eff}: the members within the limit hold {once} bytes, the loop read "
                                 f"{total} ({reads}): an entry is read again for every entry that shares its name", rep))
        else:
            out.append(Violation(key, f"{kind} [{listing}] limit {eff}: read {reads}, the statement says exactly the members within the limit "
                                 f"are processed ({want})", rep))
    if got["err"] is not None:
        out.append(Violation(key, f"{kind} [{listing}]: extraction failed: {got['err']}", rep))
    return out


def _chain_violations(lim, folders, chains):
    """the statement on a 7z archive (folders with coder chains, names may repeat): a skipped member is neither written nor
    handed on, and NO STAGE of a folder's chain — nor any lzma decoder call — yields more than the members up to the last
    wanted one need; a folder without a wanted member is not decoded at all"""
    from sharepoint2text.parsing.extractors import archive_extractor as A
    eff = lim if lim is not None else A.ArchiveConfig().max_memory_size
    if sum(sz for f in folders for _, sz in f) > 40 * MB:
        return [Violation("harness.unsafe-input", "refusing a 7z payload above 40 MB", {}, found_input=False)]
    got = X.sevenzip_extract(lim, folders, chains=chains)
    rep = {"kind": "7z_chain", "limit": lim, "folders": [[[nm, sz] for nm, sz in f] for f in folders], "chains": chains}
    desc = "; ".join("[" + ", ".join(f"{nm}: {sz}" for nm, sz in f) + "] " + ("<-".join(ch) if ch else "lzma") for f, ch in zip(folders, chains))
    refused = any(ch and any(c not in SZ_DECODABLE for c in ch) for ch in chains)
    out = []
    needed = []
    for f in folders:
        off, need = 0, 0
        for nm, sz in f:
            off += sz
            if nm.endswith(".txt") and sz <= eff:
                need = off
        needed.append(need)
    chained = any(ch and len(ch) > 1 for ch in chains)
    for what, obs in (("stage", [(r[0], r[3], r[1]) for r in got["stages"] if r[3] is not None]), ("lzma decoder call", [(i, n, "lzma") for i, n in got["lzma_out"]])):
        for i, n, coder in obs:
            if 0 <= i < len(folders) and n > needed[i]:
                out.append(Violation("7z.chain-stage-beyond-needed" if chained else "7z.folder-decoded-beyond-needed",
                                     f"7z ({got['archive_len']} bytes) {desc}, per-member limit {eff}: folder {i} needs {needed[i]} bytes "
                                     f"(end of its last wanted member), but the {coder} {what} produced {n} bytes "
                                     f"(all stages: {[(r[1], r[3]) for r in got['stages']]}): a skipped member was decompressed into memory", rep))
                break
        if out:
            break
    over_w = sorted(nm for nm, n in got["written"].items() if n > eff)
    over_e = [(nm, n) for nm, n in got["entries"] if n > eff]
    if over_w or over_e:
        out.append(Violation("7z.oversize-member-decoded-and-written", f"7z {desc} limit {eff}: oversize members written {over_w} / handed on {over_e}", rep))
    if not refused and got["err"] is None:
        want = sorted(sz for f in folders for nm, sz in f if nm.endswith(".txt") and sz <= eff)
        names = [nm for f in folders for nm, _ in f]
        if len(set(names)) == len(names) and sorted(n for _, n in got["entries"]) != want:
            out.append(Violation("limit.member.7z", f"7z {desc} limit {eff}: members handed on {got['entries']}, the statement says exactly "
                                 f"the members within the limit ({want})", rep))
    if (got["err"] is not None) != refused:
        out.append(Violation("limit.member.7z", f"7z {desc}: extraction " + (f"failed: {got['err']}" if got["err"] else "did not refuse a filter the library does not implement"), rep))
    return out


def _archive_cases():
    """(kind, args) of the fixed oracle inputs: sizes follow the limit in force, nothing else"""
    from sharepoint2text.parsing.extractors import archive_extractor as A
    cases = []
    for lim in (1000, None):
        eff = lim if lim is not None else A.ArchiveConfig().max_memory_size
        shapes = [[("report.txt", 27), ("report.txt", eff + 1)], [("report.txt", eff + 1), ("report.txt", 27)]]
        if lim is not None:
            shapes += [[("a.txt", eff - 1), ("b.txt", 5), ("a.txt", eff), ("a.txt", eff + 1)], [("a.txt", 1), ("a.txt", 2), ("a.txt", eff)],
                       [("d/a.txt", 9), ("a.txt", 2 * eff), ("d/a.txt", 3 * eff)]]
        for sh in shapes:
            for kind in ("zip", "tar"):
                cases.append(("named", (kind, lim, [{"name": nm, "size": sz} for nm, sz in sh])))
        chains = (SZ_CHAINS[1:] + SZ_REFUSED_CHAINS) if lim is not None else [["bcj", "lzma2"]]
        for ch in chains:
            cases.append(("chain", (lim, [[("note.txt", 23), ("big.txt", eff + 1)]], [ch])))
        if lim is not None:
            cases += [("chain", (lim, [[("a.txt", 10), ("skipped.bin", 3 * eff), ("tail.bin", 7)], [("only.bin", 2 * eff)], [("over.txt", eff + 1)]],
                                 [["bcj", "lzma2"], ["bcj", "lzma"], ["copy", "lzma2"]])),
                      ("chain", (lim, [[("a.txt", 10)], [("a.txt", eff + 1)]], [None, ["bcj", "lzma2"]])),
                      ("chain", (lim, [[("a.txt", eff + 1)], [("a.txt", 10)]], [["bcj", "lzma"], None])),
                      ("chain", (lim, [[("a.txt", 10), ("a.txt", eff + 1)]], [["bcj", "lzma2"]]))]
    return cases


def _oracle_archives(ctx):
    if getattr(ctx, "_c12_archives", None) is not None:
        return list(ctx._c12_archives)
    out = []
    for kind, args in _archive_cases():
        for v in (_named_violations(*args) if kind == "named" else _chain_violations(*args)):
            if not any(w.key == v.key for w in out):
                out.append(v)
        ctx.count("oracle/archives/" + kind)
    ctx._c12_archives = out
    return list(out)


def _oracle_amplification(ctx):
    out = []
    # 7z declared file count
    alen, cells, err = X.sevenzip_file_count(200000)
    if cells > AMP_K * alen:
        out.append(Violation("7z.declared-file-count-allocation",
                             f"a {alen}-byte 7z archive declaring 200000 files makes _parse_files_info allocate {cells} list cells "
                             f"(> {AMP_K}·size) before reading anything", {"kind": "7z_count", "n": 200000}))
    # ODS: repeat attributes on a non-empty cell
    rows = [(300, [(5000, "x")])]
    got = X.ods_extract(rows)
    ctx.coverage["witness_ods_300x5000"] = got
    if got["cells"] > AMP_K * got["xml_len"]:
        out.append(Violation("ods.repeat-nonempty-amplification",
                             f"ODS (cols-repeated=5000 and rows-repeated=300 on a non-empty cell): content.xml of {got['xml_len']} bytes "
                             f"({got['file_len']}-byte file) yields {got['cells']} cells (> {AMP_K}·size)", {"kind": "ods", "rows": rows}))
    # ODS: the documented cap on EMPTY repeats (one cell / one row).  SAFETY: 900 / 900 — with both caps gone this is
    # 901 x 901 = 8.1e5 cells (the former 100000 / 100000 would have been 1e10); a cap lost on one side only is the
    # business of the repeat-independence oracle below
    rows = [(900, [(1, None)]), (1, [(900, None), (1, "x")])]
    got = X.ods_extract(rows)
    if got["cells"] > AMP_K * got["xml_len"]:
        out.append(Violation("ods.empty-repeat-uncapped",
                             f"ODS (900 repeated EMPTY rows, then 900 repeated empty cells before one value): content.xml of "
                             f"{got['xml_len']} bytes yields {got['cells']} cells (> {AMP_K}·size)", {"kind": "ods", "rows": rows}))
    out += _oracle_repeat_independence(ctx)
    # ODS: rectangular padding — cells per input byte must not grow with the input
    def stair(n):
        return [(1, [(1, "x")] * n)] + [(1, [(1, "x")])] * n
    g1, g2 = X.ods_extract(stair(150)), X.ods_extract(stair(300))
    if g2["cells"] * g1["xml_len"] > 1.8 * g1["cells"] * g2["xml_len"]:
        out.append(Violation("ods.rectangular-padding-quadratic",
                             f"ODS without any repeat attribute: {g1['xml_len']} bytes -> {g1['cells']} cells, {g2['xml_len']} bytes -> {g2['cells']} cells "
                             "(cells per byte doubles when the input doubles: rows are padded to the widest row)",
                             {"kind": "ods_stair", "n": 300}))
    return out


# ---- "irrespective of repeat counts": every kind of EMPTY run the ODS format has.  Worst case of every sheet below
#      under a library without any cap: 3 x 2002 cells.
_INDEP_SHAPES = {
    "empty-cells-before-a-value": lambda n: [(1, [(n, None), (1, "x")])],
    "empty-rows-before-a-row-with-data": lambda n: [(n, [(1, None)]), (1, [(1, "x")])],
    "covered-cells-before-a-value": lambda n: [(1, [(1, "merged title"), (n, X.COVERED), (1, "end")])] * 3,
    "covered-cells-between-empty-cells": lambda n: [(1, [(1, None), (n, X.COVERED), (1, None), (1, "x")])],
}
INDEP_LO, INDEP_HI = 200, 2000


def _ods_worst_case_cells(rows):
    """cells of the sheet if every repeat attribute (empty, covered or not) were expanded in full"""
    return sum(max(1, rr) for rr, _ in rows) * max([sum(max(1, cr) for cr, _ in cells) for _, cells in rows] + [1])


def _repeat_independence(sheet_lo, sheet_hi):
    """the two sheets differ in the repeat count of one empty run only; -> (same cells?, message)"""
    if max(_ods_worst_case_cells(sheet_lo), _ods_worst_case_cells(sheet_hi)) > 10 ** 6:
        return None, "refused: worst-case expansion above 10^6 cells"
    a, b = X.ods_extract(sheet_lo), X.ods_extract(sheet_hi)
    same = (a["rows"], a["cols"], a["cells"]) == (b["rows"], b["cols"], b["cells"])
    return same, (f"-> {a['rows']}x{a['cols']} = {a['cells']} cells ({a['xml_len']} bytes) at the lower repeat count, "
                  f"{b['rows']}x{b['cols']} = {b['cells']} cells ({b['xml_len']} bytes) at the higher one")


def _oracle_repeat_independence(ctx):
    out = []
    for shape, mk in _INDEP_SHAPES.items():
        lo, hi = mk(INDEP_LO), mk(INDEP_HI)
        same, msg = _repeat_independence(lo, hi)
        msg = f"ODS {shape}, repeat {INDEP_LO} vs {INDEP_HI} " + msg
        ctx.coverage.setdefault("ods_repeat_independence", {})[shape] = msg
        if same is False:
            out.append(Violation("ods.empty-run-repeat-dependent." + shape, msg + ": the cells materialised for an EMPTY run follow the "
                                 "declared repeat count (the statement says: irrespective of repeat counts)",
                                 {"kind": "ods_repeat_indep", "shape": shape, "sheet_lo": lo, "sheet_hi": hi}))
    return out


# ---- ODF text: characters per input byte for every empty text:* element that may carry a count
TEXT_S_LO, TEXT_S_HI = "2000", "20000"


def _odf_text_ratio(fmt, inlines_of):
    lo, hi = M.odf_extract(fmt, inlines_of(TEXT_S_LO)), M.odf_extract(fmt, inlines_of(TEXT_S_HI))
    amplifies = hi["text_len"] > AMP_K * hi["input_len"] and hi["text_len"] - lo["text_len"] >= (int(TEXT_S_HI) - int(TEXT_S_LO)) // 2
    return amplifies, lo, hi


def _oracle_odf_text(ctx):
    """text:s text:c=N is the recorded finding; the same count on any other element (or any other growth) is new"""
    out, seen = [], set()
    for fmt in M.ODF_FORMATS:
        for el in ("s", "tab", "line-break", "span", "soft-page-break"):
            inl = (lambda n: [("text", "a"), ("space", n), ("text", "b")]) if el == "s" else \
                (lambda n, el=el: [("text", "a"), ("el", el, n), ("text", "b")])
            amp, lo, hi = _odf_text_ratio(fmt, inl)
            if el == "s":
                ctx.coverage.setdefault("witness_text_s", {})[fmt] = {"lo": lo, "hi": hi}
            key = "odf.text-s-count-amplification" if el == "s" else f"odf.text-{el}-count-amplification"
            if amp and key not in seen:
                seen.add(key)
                out.append(Violation(key, f"{fmt.upper()} <text:p>a<text:{el} text:c=\"N\"/>b</text:p>: N={TEXT_S_LO} -> {lo['text_len']} characters "
                                     f"from {lo['input_len']} input bytes, N={TEXT_S_HI} -> {hi['text_len']} characters from {hi['input_len']} bytes "
                                     f"(> {AMP_K}·size; the output follows the declared count, the input only its digits)",
                                     {"kind": "odf_text", "fmt": fmt, "inlines": [["text", "a"]] + ([["space", TEXT_S_HI]] if el == "s" else [["el", el, TEXT_S_HI]]) + [["text", "b"]]}))
    return out


# ---- XLSX: cells / characters per input byte
XLSX_STEPS = ((100, 100), (200, 200), (400, 400))


def _oracle_xlsx(ctx):
    out = []
    gs = [M.xlsx_extract([(1, 1, "x"), (r, c, "y")]) for r, c in XLSX_STEPS]
    ctx.coverage["witness_xlsx_sparse"] = {f"{r}x{c}": g for (r, c), g in zip(XLSX_STEPS, gs)}
    last = gs[-1]
    if max(last["data_cells"], last["all_rows_cells"]) > AMP_K * last["input_len"] or last["text_len"] > AMP_K * AMP_K * last["input_len"]:
        out.append(Violation("xlsx.sparse-far-cell-amplification",
                             "XLSX with two used cells A1 and (r, c): " + "; ".join(
                                 f"({r},{c}) -> {g['data_cells']} cells, {g['text_len']} characters from {g['input_len']} bytes ({g['file_len']}-byte file)"
                                 for (r, c), g in zip(XLSX_STEPS, gs)) + f" (> {AMP_K}·size, x4 per step at constant size: the rectangle spanned by "
                             "the used cells is materialised)", {"kind": "xlsx_cells", "cells": [[1, 1, "x"], [400, 400, "y"]]}))
    # controls: a declared dimension without a far cell, and a dense sheet, must not amplify
    g = M.xlsx_extract([(1, 1, "x"), (2, 2, "y")], dim=(400, 400))
    ctx.coverage["control_xlsx_dimension_only"] = g
    if max(g["data_cells"], g["all_rows_cells"]) > AMP_K * g["input_len"] or g["text_len"] > AMP_K * AMP_K * g["input_len"]:
        out.append(Violation("xlsx.declared-dimension-amplification",
                             f"XLSX with used cells A1, B2 and <dimension ref=\"A1:{M.col_name(400)}400\"/>: {g['data_cells']} cells "
                             f"({g['all_rows_cells']} in all_rows), {g['text_len']} characters from {g['input_len']} bytes: the output follows the declared dimension",
                             {"kind": "xlsx_cells", "cells": [[1, 1, "x"], [2, 2, "y"]], "dim": [400, 400]}))
    dense = [(r, 1, "x") for r in range(1, 41)]
    g = M.xlsx_extract(dense)
    if max(g["data_cells"], g["all_rows_cells"]) > AMP_K * g["input_len"]:
        out.append(Violation("xlsx.dense-amplification", f"XLSX with 40 used cells A1..A40: {g['data_cells']} cells from {g['input_len']} bytes",
                             {"kind": "xlsx_cells", "cells": [list(c) for c in dense]}))
    return out


def search(ctx, broken):
    extra = []
    for b in broken:
        c = b.case or {}
        if "loop" in c and "input" in c:
            inp = c["input"]
            nm = c["loop"]
            if nm in ("rtf_ignorable", "rtf_walk", "pdf_extract_monotone"):
                extra.append((nm, inp))
            elif isinstance(inp, str):
                try:
                    extra.append((nm, bytes.fromhex(inp)))
                except ValueError:
                    pass
    vs = _oracle_limits(ctx) + _oracle_archives(ctx) + _oracle_amplification(ctx) + _oracle_odf_text(ctx) + _oracle_xlsx(ctx) + _oracle_loops(ctx, extra)
    for b in broken:        # the generated archives on which model and code disagreed, judged by the statement
        c = b.case or {}
        if c.get("kind") == "named_members":
            vs += _named_violations(c["archive"], c["limit"], c["entries"])
        elif c.get("kind") == "7z_chain":
            vs += _chain_violations(c["limit"], [[(nm, sz) for nm, sz in f] for f in c["folders"]], c["chains"])
        elif c.get("kind") == "read_file_history":
            v = _history_violation(c["size"], c["events"])
            if v is not None and not any(x.key == v.key for x in vs):
                vs.append(v)
    vs += _oracle_histories(ctx) + _oracle_streams(ctx) + _oracle_reread(ctx) + _oracle_nested(ctx)
    vs += XC.sweep(ctx, Violation, full=True)
    # open known findings are reported by known_witnesses(); returning them here would hide a broken obligation
    # for which no NEW failing input exists (run.py then says `no-failing-input-found`)
    from run import load_known
    known = {k["key"] for k in load_known() if k.get("property") == "C12" and k.get("status", "open") == "open"}
    return [v for v in vs if v.key not in known]


# ============================================================================ replay
def replay(ctx, payload):
    rep = payload.get("replay", {})
    kind = rep.get("kind")
    if kind is None:
        return False, "replay names a broken obligation, not an input: " + payload.get("what", "")
    if kind == "loop":
        inp = rep["input"] if rep.get("is_text") else bytes.fromhex(rep["input"])
        P = L.probes()
        names, fn = _loop_runner(P, rep["loop"], inp)
        res = _probe_steps(P, names, fn)
        if isinstance(res, str):
            return False, res
        total, bound = sum(res.values()), LINEAR_C * len(names) * (len(inp) + 1)
        return total <= bound, f"{rep['loop']}: {total} iterations on {len(inp)} bytes (bound {bound})"
    if kind == "read_file":
        lim, s = rep["limit"], rep["size"]
        d = X.read_file_decision(lim, s, pass_default=lim is None)
        eff = 100 * MB if lim is None else lim
        want = "reject" if (eff > 0 and s > eff) else "accept"
        return d == want, f"read_file(max_file_size={lim}) on {s} bytes: {d} (statement: {want})"
    if kind == "read_file_deferred":
        v = _deferred_violation(rep["limit"], rep["size_at_call"], rep["size_at_read"])
        return v is None, v.what if v else "the limit is judged on the file that is read"
    if kind == "read_file_history":
        v = _history_violation(rep["size"], rep["events"])
        return v is None, v.what if v else f"history {rep['events']} on a {rep['size']}-byte file: every read within the limit in force, no unfounded refusal"
    if kind == "packed_stream":
        v, msg = _stream_violation(rep)
        return v is None, v.what if v else msg
    if kind == "archive_order":
        v, msg = _reread_violation(rep["archive"], rep["order"], rep["n"], rep.get("size", 2048), rep.get("seed", 0))
        return v is None, v.what if v else msg
    if kind == "nested_archive":
        v, msg = _nested_violation(rep["outer"], rep["inner"], rep["suffix"], rep["depth"], rep["fan"])
        return v is None, v.what if v else msg
    if kind == "7z_size":
        d = X.sevenzip_size_decision(rep["size"])
        want = "reject" if rep["size"] > 100 * MB else "accept"
        return d == want, f"7z archive of {rep['size']} bytes: {d} (statement: {want})"
    if kind == "entry":
        d = X.entry_decision(rep["size"])
        want = "skip" if rep["size"] > 50 * MB else "process"
        return d == want, f"archive entry of {rep['size']} bytes: {d} (expected {want})"
    if kind == "member":
        from sharepoint2text.parsing.extractors import archive_extractor as A
        lim = rep["limit"]
        eff = lim if lim is not None else A.ArchiveConfig().max_memory_size
        if rep["archive"] == "7z":
            got = X.sevenzip_extract(lim, [[(f"m{i}.txt", s)] for i, s in enumerate(rep["sizes"])])
            ok = got["err"] is None and all((f"m{i}.txt" in got["written"]) == (s <= eff) for i, s in enumerate(rep["sizes"]))
            return ok, f"7z members {rep['sizes']} limit {eff}: written {sorted(got['written'])} err={got['err']}"
        fn = X.zip_members if rep["archive"] == "zip" else X.tar_members
        got, _ = fn(lim, rep["sizes"])
        ok = all(read == (s <= eff) for s, read in got)
        return ok, f"{rep['archive']} members (size, decompressed) = {got} with limit {eff}"
    if kind == "7z_extract":
        folders = [[(nm, sz) for nm, sz in f] for f in rep["folders"]]
        lim = rep["limit"]
        from sharepoint2text.parsing.extractors import archive_extractor as A
        eff = lim if lim is not None else A.ArchiveConfig().max_memory_size
        got = X.sevenzip_extract(lim, folders)
        over = {nm for f in folders for nm, sz in f if sz > eff}
        bad_written = sorted(over & set(got["written"]))
        bad_decoded = [i for i, f in enumerate(folders) if any(i == j for j, _ in got["decoded"])
                       and any(nm in over for nm, _ in f) and
                       max((n for j, n in got["decoded"] if j == i), default=0) >= min(sz for nm, sz in f if nm in over)]
        ok = not bad_written and not bad_decoded
        return ok, f"oversize members written: {bad_written}; folders with an oversize member decoded: {bad_decoded} ({got['decoded']})"
    if kind == "7z_bomb":
        alen, outs = X.sevenzip_lzma2_bomb(rep["real"], rep["declared"])
        return all(n <= rep["declared"] for n in outs), f"{alen}-byte archive, member declares {rep['declared']} bytes: decoder produced {outs} bytes"
    if kind == "7z_count":
        alen, cells, err = X.sevenzip_file_count(rep["n"])
        return cells <= AMP_K * alen, f"{alen}-byte archive declaring {rep['n']} files: {cells} cells allocated ({err})"
    if kind == "ods_stair":
        n = rep["n"]
        mk = lambda k: [(1, [(1, "x")] * k)] + [(1, [(1, "x")])] * k
        g1, g2 = X.ods_extract(mk(n // 2)), X.ods_extract(mk(n))
        return g2["cells"] * g1["xml_len"] <= 1.8 * g1["cells"] * g2["xml_len"], \
            f"{g1['xml_len']} bytes -> {g1['cells']} cells; {g2['xml_len']} bytes -> {g2['cells']} cells"
    if kind == "tar_links":
        vs = _tar_link_violations(rep["limit"], rep["members"])
        got = X.tar_loop(rep["limit"], X.tar_archive(rep["members"]))
        return not vs, (vs[0].what if vs else f"every read within the limit and the payload: {got['chunks']}")
    if kind == "named_members":
        vs = _named_violations(rep["archive"], rep["limit"], rep["entries"])
        return not vs, (vs[0].what if vs else f"{rep['archive']} {[(e['name'], e['size']) for e in rep['entries']]}: every read within the limit, "
                        "every member within the limit processed once with its own bytes")
    if kind == "7z_chain":
        vs = _chain_violations(rep["limit"], [[(nm, sz) for nm, sz in f] for f in rep["folders"]], rep["chains"])
        return not vs, (vs[0].what if vs else f"7z {rep['folders']} chains {rep['chains']}: no stage beyond what the wanted members need, nothing oversize written")
    if kind == "ods_repeat_indep":
        sheets = [[(rr, [(cr, t) for cr, t in cells]) for rr, cells in rep[k]] for k in ("sheet_lo", "sheet_hi")]
        same, msg = _repeat_independence(*sheets)
        return bool(same), f"ODS {rep.get('shape', '')} " + msg
    if kind == "odf_text":
        inl = [tuple(x) for x in rep["inlines"]]
        declared = max([int(x[-1]) for x in inl if x[0] != "text"] + [0])
        if declared > M.MAX_SPACES:
            return False, f"refused: count {declared} above the harness's bound"
        got = M.odf_extract(rep["fmt"], inl)
        return got["text_len"] <= AMP_K * got["input_len"], f"{rep['fmt']}: {got['text_len']} characters from {got['input_len']} input bytes (declared count {declared})"
    if kind == "xlsx_cells":
        cells = [tuple(c) for c in rep["cells"]]
        got = M.xlsx_extract(cells, dim=tuple(rep["dim"]) if rep.get("dim") else None)
        ok = max(got["data_cells"], got["all_rows_cells"]) <= AMP_K * got["input_len"] and got["text_len"] <= AMP_K * AMP_K * got["input_len"]
        return ok, f"XLSX with {len(cells)} used cells: {got['data_cells']} cells, {got['text_len']} characters from {got['input_len']} bytes"
    if kind == "xml_entity":
        return XC.replay(rep)
    if kind == "ods":
        rows = [(rr, [(cr, t) for cr, t in cells]) for rr, cells in rep["rows"]]
        got = X.ods_extract(rows)
        return got["cells"] <= AMP_K * got["xml_len"], f"ODS content.xml {got['xml_len']} bytes -> {got['cells']} cells"
    return False, f"unknown replay kind {kind}"


# ============================================================================ witnesses of the known findings (run every time)
def known_witnesses(ctx):
    """the committed witnesses (the ones of the Lean counterexample theorems) on the real code"""
    vs = []
    P = L.probes()
    # PNG carver: model predicts 930 inner iterations on pngAmplifier 30 30 (844 bytes)
    d = L.png_amplifier(30, 30)
    res = _probe_steps(P, ["png_outer", "png_inner"], lambda: L.impl_png(P, d))
    ctx.coverage["witness_png_30"] = res if isinstance(res, str) else {"len": len(d), **res}
    if isinstance(res, dict) and len(d) == 844 and res["png_inner"] == 930:
        vs.append(Violation("doc.png-carver-quadratic", f"_extract_png_images_from_bytes: 930 chunk-walk iterations on 844 bytes "
                            "(30 signatures x 31; doubles -> x4), as the model's counterexample theorem predicts",
                            {"kind": "loop", "loop": "png", "input": d.hex(), "is_text": False}))
    else:
        ctx.notes.append(f"known finding doc.png-carver-quadratic: witness no longer behaves as recorded: {res}")
    d = L.ppt_nest(40)
    res = _probe_steps(P, ["ppt_iter"], lambda: L.impl_slide_list(P, d))
    ctx.coverage["witness_ppt_nest_40"] = res if isinstance(res, str) else {"len": len(d), **res}
    if isinstance(res, dict) and len(d) == 320 and res["ppt_iter"] == 820:
        vs.append(Violation("ppt.slide-list-rewalk-superlinear", "_extract_slide_list_texts: 820 record-walk iterations on 320 bytes "
                            "(40 nested SlideListWithText containers), as the model's counterexample theorem predicts",
                            {"kind": "loop", "loop": "slide_list", "input": d.hex(), "is_text": False}))
    else:
        ctx.notes.append(f"known finding ppt.slide-list-rewalk-superlinear: witness no longer behaves as recorded: {res}")
    for v in _oracle_amplification(ctx):
        vs.append(v)
    # text:s and the XLSX far cell: the bounded witnesses of S2T.C12.Amplify.textS_witness / xlsx_sparse_witness, with
    # the numbers the models predict; the controls (other elements carrying a count, a declared dimension without a
    # far cell, a dense sheet) are part of the same oracles and are NOT known findings
    found = _oracle_odf_text(ctx) + _oracle_xlsx(ctx)
    w = ctx.coverage.get("witness_text_s", {})
    if not all(w.get(f, {}).get("hi", {}).get("spaces") == int(TEXT_S_HI) and w[f]["hi"]["para_len"] == 43 for f in M.ODF_FORMATS):
        ctx.notes.append(f"known finding odf.text-s-count-amplification: witness no longer behaves as recorded (20000 spaces from a 43-byte paragraph in all five formats): {w}")
    x = ctx.coverage.get("witness_xlsx_sparse", {})
    if [x.get(f"{r}x{c}", {}).get("all_rows_cells") for r, c in XLSX_STEPS] != [r * c for r, c in XLSX_STEPS] or x.get("400x400", {}).get("sheet_len") != 268:
        ctx.notes.append(f"known finding xlsx.sparse-far-cell-amplification: witness no longer behaves as recorded (r*c cells, 268-byte worksheet part): {x}")
    if ctx.thorough:
        g = M.xlsx_extract([(1, 1, "x"), (1000, 702, "y")])      # ZZ1000: 702 000 cells, the largest input of the whole check
        ctx.coverage["witness_xlsx_ZZ1000"] = g
        if g["all_rows_cells"] != 702000:
            ctx.notes.append(f"xlsx ZZ1000 witness: {g}")
    vs += found
    # 7z: both the repaired defect (must stay repaired) and the open solid-folder finding
    for v in _oracle_members(ctx, only_7z=True):
        vs.append(v)
    return vs
