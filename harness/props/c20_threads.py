"""C20 under concurrent use — deterministic two-thread schedules through the built-in AES.

"computes exactly FIPS-197 AES for every key and block" is a statement about every CALL, also when several threads
use the built-in AES at the same time (two encrypted PDFs extracted in a thread pool).  The single-threaded
correspondence cannot see a function that is not re-entrant (a module-level scratch state, a shared output buffer,
a `global` chaining value, a mutable default argument, round keys mutated in place): every call on its own is right.

What is run here (no timing luck; every schedule is forced and replayable):

* thread A executes one operation (ECB / CBC either direction, `CryptAES.encrypt` / `.decrypt`, a bare block
  function) under `sys.settrace` restricted to frames of `_pypdf_aes_fallback.py`;
* at the PAUSE POINTS of the schedule — every call event / a strided sample of all line events / one named event
  (`n`-th call, line or return of function `f`) — A starts thread B, which executes its own operation COMPLETELY
  (or, in an *overlap* schedule, up to a pause point of its own, finishing only after A has finished), then A resumes;
* a pause point at which a lock of the module is held is deferred to the next event (B would only wait for A there);
* the round-key cache starts empty / primed with A's key / B's key / both;
* afterwards both operations are executed once more on their own (state left behind by the interleaving).

Every result — A's, each of B's, the two afterwards — is compared
  (correspondence)  with the Lean model's answer for the same request (for the model, which has no shared state besides
                    the round-key cache of `C20_cache`, the answer does not depend on the schedule:
                    `S2T.C20.Reentrant.private_state_any_schedule`), and with the single-threaded run of the real code;
  (search / replay) with the independent FIPS-197 reference of `props/c20.py` and the published known answers.
"""
from __future__ import annotations

import importlib
import inspect
import sys
import threading

from run import Broken, Violation

MOD = "sharepoint2text.parsing.extractors.pdf._pypdf_aes_fallback"
B_JOIN_S = 5.0          # a B that does not finish while A is paused is blocked on something A holds
MAX_LAUNCH = 3000       # bound on thread starts of one schedule
MAX_STALLS = 3          # after that many waits of B_JOIN_S in one check run no further pause is taken (bounded run time
                        # against a library that serialises the threads with a lock the engine cannot see)
_STALLS = [0]


def _A():
    return importlib.import_module(MOD)


def _C():
    from props import c20
    return c20


def _modfile():
    A = _A()
    try:
        return inspect.getsourcefile(A) or A.__file__
    except TypeError:
        return A.__file__


def _locks():
    out = []
    for v in list(vars(_A()).values()):
        if hasattr(v, "acquire") and hasattr(v, "release") and not inspect.isclass(v) and not inspect.ismodule(v):
            out.append(v)
    return out


def _any_lock_held(locks):
    for lk in locks:
        f = getattr(lk, "locked", None)
        try:
            if f is not None and f():
                return True
            g = getattr(lk, "_is_owned", None)
            if f is None and g is not None and g():
                return True
        except Exception:  # noqa: BLE001
            continue
    return False


# ------------------------------------------------------------------------------------------------ the gate (trace hook)
class _Gate:
    """trace hook of ONE thread: numbers the call/line/return events of the AES module's frames, fires `action` at
    the events the pause spec selects"""

    def __init__(self, spec, action, record=False):
        self.spec = spec or {"mode": "none"}
        self.action = action
        self.modfile = _modfile()
        self.locks = _locks()
        self.n = 0
        self.counts = {}
        self.fired = []
        self.deferred = 0
        self.pending = False
        self.errors = []
        self.trace = [] if record else None
        self.done = False
        self.visited = set()

    def tracer(self, frame, event, arg):
        if frame.f_code.co_filename != self.modfile:
            return None
        if event in ("call", "line", "return"):
            try:
                self._on(frame.f_code.co_name, event, frame.f_lineno - frame.f_code.co_firstlineno)
            except BaseException as e:  # noqa: BLE001 - never let the engine's trouble look like the library's
                self.errors.append(repr(e))
        return self.tracer

    def _match(self, i, fn, ev, k, first):
        s = self.spec
        m = s.get("mode")
        if m == "all":
            if ev not in s.get("events", ("call",)):
                return False
            if s.get("fns") is not None and fn not in s["fns"]:
                return False
            if s.get("first_visit"):
                return first
            st = int(s.get("stride", 1))
            return st <= 1 or i % st == int(s.get("phase", 0)) % st
        if self.done:
            return False
        if self.pending:
            return True
        if m == "at":
            return fn == s["fn"] and ev == s["event"] and k == int(s["nth"])
        if m == "index":
            return i == int(s["i"])
        return False

    def _on(self, fn, ev, rel):
        i = self.n
        self.n += 1
        k = self.counts.get((fn, ev), 0)
        self.counts[(fn, ev)] = k + 1
        first = (fn, ev, rel) not in self.visited
        if first:
            self.visited.add((fn, ev, rel))
        if self.trace is not None:
            self.trace.append((fn, ev, k))
        if not self._match(i, fn, ev, k, first):
            return
        if _any_lock_held(self.locks):
            self.deferred += 1
            if self.spec.get("mode") != "all":
                self.pending = True
            return
        self.pending = False
        if self.spec.get("mode") != "all":
            self.done = True
        if len(self.fired) >= MAX_LAUNCH:
            return
        self.fired.append((fn, ev, k))
        self.action()


def _run_traced(gate, fn):
    old = sys.gettrace()
    sys.settrace(gate.tracer)
    try:
        return fn()
    finally:
        sys.settrace(old)


# ------------------------------------------------------------------------------------------------ operations
def _impl(op):
    """one request on the real code -> canonical outcome.  `c20.crypt` encrypt: the IV the call drew is part of the
    answer, the model request is completed with it afterwards."""
    C = _C()
    if op["op"] == "c20.crypt" and op.get("enc"):
        cls = C._crypt_cls()
        return C._call(lambda: cls(bytes(op["key"])).encrypt(bytes(op["data"])))
    return C._impl(op)


def _model_req(op, outcome):
    """the driver request that corresponds to a real call (the wrapper's IV is taken from what the call returned)"""
    if op["op"] == "c20.crypt" and op.get("enc"):
        iv = list(outcome["ok"][:16]) if isinstance(outcome, dict) and "ok" in outcome and len(outcome["ok"]) >= 16 else [0] * 16
        return dict(op, iv=iv)
    return op


def ref_outcome(op, outcome=None):
    """what the PROPERTY STATEMENT says the call returns: FIPS-197 / SP 800-38A by the independent reference of
    props/c20.py, ValueError for wrong lengths.  None: the statement does not fix the answer (not generated here)."""
    C = _C()
    b = lambda k: bytes(op[k])  # noqa: E731
    o = op["op"]
    if o == "c20.ecb":
        if len(b("key")) not in (16, 24, 32) or len(b("data")) % 16:
            return {"err": "ValueError"}
        return {"ok": list(C.ref_ecb(op["enc"], b("key"), b("data")))}
    if o == "c20.cbc":
        if len(b("key")) not in (16, 24, 32) or len(b("data")) % 16 or len(b("iv")) != 16:
            return {"err": "ValueError"}
        return {"ok": list(C.ref_cbc(op["enc"], b("key"), b("iv"), b("data")))}
    if o == "c20.block":
        if len(b("key")) not in (16, 24, 32) or len(b("block")) != 16:
            return {"err": "ValueError"}
        return {"ok": list((C.ref_enc if op["enc"] else C.ref_dec)(b("key"), b("block")))}
    if o == "c20.crypt":
        if len(b("key")) not in (16, 24, 32):
            return {"err": "ValueError"}
        if op.get("enc"):
            if not (isinstance(outcome, dict) and "ok" in outcome and len(outcome["ok"]) >= 16):
                return {"ok": ["IV ‖ CBC(IV, PKCS#7(m))"]}
            iv = bytes(outcome["ok"][:16])
            return {"ok": list(iv + C.ref_cbc(True, b("key"), iv, C.ref_pad(b("data"))))}
        if "plain" in op:                      # a ciphertext made by the reference from this plaintext
            return {"ok": list(op["plain"])}
        return None
    return None


def _describe(op):
    C = _C()
    hx = C._hx
    o = op["op"]
    d = "encrypt" if op.get("enc") else "decrypt"
    if o == "c20.ecb":
        return f"aes_ecb_{d}(key={hx(op['key'])}, data={hx(op['data'])})"
    if o == "c20.cbc":
        return f"aes_cbc_{d}(key={hx(op['key'])}, iv={hx(op['iv'])}, data={hx(op['data'])})"
    if o == "c20.block":
        return f"_aes_{d}_block({hx(op['block'])}, _expand_key({hx(op['key'])}))"
    if o == "c20.crypt":
        return f"CryptAES({hx(op['key'])}).{d}({hx(op['data'])})"
    return repr(op)


def _describe_pause(p):
    if not p or p.get("mode") in (None, "none"):
        return "never"
    if p["mode"] == "at":
        return f"at the {_ord(int(p['nth']) + 1)} {p['event']} event of {p['fn']}"
    if p["mode"] == "index":
        return f"at trace event #{p['i']} (call/line/return events of the module, counted from 0)"
    ev = "/".join(p.get("events", ("call",)))
    st = int(p.get("stride", 1))
    if p.get("first_visit"):
        return f"the first time each source line of the module is reached ({ev} events)"
    return f"at every {ev} event" + (f" number ≡ {int(p.get('phase', 0)) % st} mod {st}" if st > 1 else "") + \
        (f" of {sorted(p['fns'])}" if p.get("fns") is not None else "")


def _ord(n):
    return f"{n}{'th' if 10 <= n % 100 <= 20 else {1: 'st', 2: 'nd', 3: 'rd'}.get(n % 10, 'th')}"


def _short(o, n=120):
    C = _C()
    if isinstance(o, dict) and "ok" in o and all(isinstance(x, int) for x in o["ok"]):
        s = C._hx(o["ok"])
        return s if len(s) <= n else s[:n] + "…"
    return repr(o)[:n]


# ------------------------------------------------------------------------------------------------ one schedule
def _prime(keys):
    A = _A()
    cache = getattr(A, "_ROUND_KEY_CACHE", None)
    if cache is not None and hasattr(cache, "clear"):
        cache.clear()
    for k in keys:
        try:
            A.aes_ecb_encrypt(bytes(k), bytes(16))
        except Exception:  # noqa: BLE001 - only priming
            pass


def run_schedule(s, record=False):
    """executes the schedule `s` = {"a": op, "b": op, "pause": spec, "bpause": spec|None, "prime": [key…]} on the real
    code.  Returns {"a": outcome, "b": [outcome…], "after": [outcomeA, outcomeB], "fired": […], "notes": […]}."""
    _prime(s.get("prime", []))
    notes = []
    b_out = []
    b_threads = []
    a_done = threading.Event()
    overlap = bool(s.get("bpause"))

    stalled = []

    def launch():
        if stalled or _STALLS[0] >= MAX_STALLS:
            return
        slot = []
        b_out.append(slot)
        b_evt = threading.Event()

        def b_pause():
            b_evt.set()                       # A may go on
            if not a_done.wait(B_JOIN_S):     # … and B waits for A to finish
                _STALLS[0] += 1
                notes.append("overlap: A did not finish while B was paused (A waits for something B holds)")

        def b_run():
            try:
                if overlap:
                    g = _Gate(s["bpause"], b_pause)
                    slot.append(_run_traced(g, lambda: _impl(s["b"])))
                    if not g.fired:
                        notes.append("overlap: B's pause point was never reached")
                else:
                    slot.append(_impl(s["b"]))
            except BaseException as e:  # noqa: BLE001
                slot.append({"err": "ENGINE:" + repr(e)})
            finally:
                b_evt.set()

        th = threading.Thread(target=b_run, daemon=True)
        b_threads.append(th)
        th.start()
        if overlap:
            if not b_evt.wait(B_JOIN_S):
                stalled.append(1)
                _STALLS[0] += 1
                notes.append("B neither reached its pause point nor finished while A was paused")
        else:
            th.join(B_JOIN_S)
            if th.is_alive():
                stalled.append(1)
                _STALLS[0] += 1
                notes.append("B did not finish while A was paused (blocked on something A holds); A resumed")

    gate = _Gate(s.get("pause"), launch, record=record)
    try:
        a_out = _run_traced(gate, lambda: _impl(s["a"]))
    finally:
        a_done.set()
    stuck = False
    for th in b_threads:
        th.join(2 * B_JOIN_S)
        stuck = stuck or th.is_alive()
    if stuck:
        notes.append("DEADLOCK: a thread B never finished after A had finished")
    notes += ["engine: " + e for e in gate.errors[:3]]
    after = [_impl(s["a"]), _impl(s["b"])]
    res = {"a": a_out, "b": [x[0] if x else {"err": "NO-RESULT"} for x in b_out], "after": after,
           "fired": gate.fired, "deferred": gate.deferred, "notes": notes, "events": gate.n}
    if record:
        res["trace"] = gate.trace
    _prime([])
    return res


def _judge(s, r, expect):
    """[(violation key, message)] — `expect(op, outcome)` gives what the call must return (None = not fixed)"""
    out = []
    pa = _describe_pause(s.get("pause"))
    ctxt = (f"thread A runs {_describe(s['a'])} and is paused {pa}; there thread B runs {_describe(s['b'])} "
            + ("up to its own pause point (" + _describe_pause(s.get("bpause")) + "), finishing after A" if s.get("bpause") else "completely")
            + (f"; round-key cache primed with {[_C()._hx(k) for k in s.get('prime', [])]}" if s.get("prime") else ""))

    def cmp(tag, who, op, got):
        want = expect(op, got)
        if want is None or got == want:
            return
        if isinstance(got, dict) and str(got.get("err", "")).startswith("ENGINE:"):
            return
        kind = "raises-" + str(got.get("err")) if isinstance(got, dict) and "err" in got and "ok" in want else \
            ("accepts-wrong-length" if "err" in want else "differs-from-fips197")
        out.append((f"threads.{tag}-{kind}", f"{who}: got {_short(got)}, FIPS-197 / SP 800-38A gives {_short(want)} — {ctxt}"))

    cmp("A", "thread A's result", s["a"], r["a"])
    for i, g in enumerate(r["b"]):
        before = len(out)
        cmp("B", f"thread B's result (its {_ord(i + 1)} run, started while A was paused at {r['fired'][i] if i < len(r['fired']) else '?'})", s["b"], g)
        if len(out) > before:
            break
    cmp("after", "the same call as A's repeated on its own after both threads finished", s["a"], r["after"][0])
    cmp("after", "the same call as B's repeated on its own after both threads finished", s["b"], r["after"][1])
    if any(n.startswith("DEADLOCK") for n in r["notes"]):
        out.append(("threads.deadlock", f"a thread never finished — {ctxt}"))
    return out


# ------------------------------------------------------------------------------------------------ schedules of a run
def _ops(ctx):
    """operation pairs (A, B): known answers, random data, the same key in both threads (same and opposite
    direction), the identical call twice, a rejected call inside a valid one"""
    C = _C()
    rng = ctx.rng
    rb = lambda n: C._rb(rng, n)  # noqa: E731
    kat = {nm: (kind, enc, key, iv, data) for kind, enc, key, iv, data, _e, nm in C._kats()}

    def K(nm, nblocks=None):
        kind, enc, key, iv, data = kat[nm]
        data = data if nblocks is None else data[: 16 * nblocks]
        if kind == "ecb":
            return {"op": "c20.ecb", "enc": enc, "key": list(key), "data": list(data)}
        return {"op": "c20.cbc", "enc": enc, "key": list(key), "iv": list(iv), "data": list(data)}

    def ecb(enc, key, n):
        return {"op": "c20.ecb", "enc": enc, "key": key, "data": rb(16 * n)}

    def cbc(enc, key, n):
        return {"op": "c20.cbc", "enc": enc, "key": key, "iv": rb(16), "data": rb(16 * n)}

    def wrap_enc(key, n):
        return {"op": "c20.crypt", "enc": True, "key": key, "data": rb(n)}

    def wrap_dec(key, n):
        m, iv = bytes(rb(n)), bytes(rb(16))
        return {"op": "c20.crypt", "enc": False, "key": key, "plain": list(m),
                "data": list(iv + C.ref_cbc(True, bytes(key), iv, C.ref_pad(m)))}

    k1, k2, k3 = rb(16), rb(24), rb(32)
    pairs = [
        ("kat/ecb128-enc × ecb256-enc", K("FIPS-197 C AES-128 cipher"), K("FIPS-197 C AES-256 cipher")),
        ("kat/ecb192-dec × ecb128-enc", K("FIPS-197 C AES-192 inverse cipher"), K("FIPS-197 C AES-128 cipher")),
        ("kat/cbc128-dec × ecb256-enc", K("SP 800-38A CBC-AES128.Decrypt", 2), K("FIPS-197 C AES-256 cipher")),
        ("kat/cbc256-enc × cbc192-dec", K("SP 800-38A CBC-AES256.Encrypt", 2), K("SP 800-38A CBC-AES192.Decrypt", 2)),
        ("kat/ecb128-enc × cbc128-enc", K("SP 800-38A ECB-AES128.Encrypt", 2), K("SP 800-38A CBC-AES128.Encrypt", 3)),
        ("same-key/ecb-enc × ecb-enc", ecb(True, k1, 1), ecb(True, k1, 2)),
        ("same-key/ecb-enc × ecb-dec", ecb(True, k3, 1), ecb(False, k3, 1)),
        ("same-key/cbc-dec × cbc-enc", cbc(False, k2, 2), cbc(True, k2, 2)),
        ("same-key/cbc-enc × cbc-enc", cbc(True, k1, 2), cbc(True, k1, 3)),
        ("wrapper/encrypt × decrypt", wrap_enc(k2, rng.randrange(0, 40)), wrap_dec(k2, rng.randrange(0, 40))),
        ("wrapper/decrypt × encrypt", wrap_dec(k3, rng.randrange(1, 40)), wrap_enc(k1, rng.randrange(0, 40))),
        ("wrapper/decrypt × decrypt", wrap_dec(k1, rng.randrange(17, 50)), wrap_dec(k1, rng.randrange(0, 16))),
        ("block/enc × dec", {"op": "c20.block", "enc": True, "key": k2, "block": rb(16)},
         {"op": "c20.block", "enc": False, "key": rb(16), "block": rb(16)}),
        ("rejected-inside/ecb-enc × bad key", ecb(True, rb(32), 1), ecb(True, rb(17), 1)),
        ("rejected-inside/cbc-dec × unaligned", cbc(False, rb(16), 2), {"op": "c20.cbc", "enc": True, "key": rb(16), "iv": rb(16), "data": rb(20)}),
        ("mixed/ecb-dec × cbc-dec", ecb(False, rb(rng.choice((16, 24, 32))), rng.randint(1, 3)), cbc(False, rb(rng.choice((16, 24, 32))), rng.randint(1, 3))),
    ]
    ident = ecb(True, rb(24), 2)
    pairs.append(("identical/ecb-enc twice", ident, dict(ident)))
    for _ in range(ctx.n(2, 40)):
        mk = rng.choice((ecb, cbc))
        mk2 = rng.choice((ecb, cbc))
        ka = rb(rng.choice((16, 24, 32)))
        kb = ka if rng.random() < 0.4 else rb(rng.choice((16, 24, 32)))
        pairs.append(("random", mk(rng.random() < 0.5, ka, rng.randint(1, 3)), mk2(rng.random() < 0.5, kb, rng.randint(1, 3))))
    return pairs


def _primes(rng, a, b):
    ka, kb = a["key"], b["key"]
    return rng.choice(([], [], [ka], [kb], [ka, kb], [kb, ka]))


def _census(s):
    """the events of A's operation without any pause: [(fn, event, nth)]"""
    r = run_schedule(dict(s, pause={"mode": "none"}), record=True)
    return r["trace"]


def schedules(ctx):
    """[(group, schedule)] of this run"""
    rng = ctx.rng
    out = []
    pairs = _ops(ctx)
    for grp, a, b in pairs:
        out.append((grp + " | every call", {"a": a, "b": b, "pause": {"mode": "all", "events": ["call"]}, "prime": _primes(rng, a, b)}))
        # between any two statements: the first time A reaches each source line of each function of the module
        out.append((grp + " | every line once", {"a": a, "b": b, "prime": _primes(rng, a, b),
                                                 "pause": {"mode": "all", "events": ["line", "return"], "first_visit": True}}))
    # line granularity: a strided sample of ALL line/return events of A (every function of the module, the loops of
    # the round functions included); the phase differs per pair and per seed
    for grp, a, b in rng.sample(pairs, ctx.n(5, len(pairs))):
        s = {"a": a, "b": b, "prime": _primes(rng, a, b)}
        try:
            tr = _census(s)
        except Exception:  # noqa: BLE001
            continue
        nl = sum(1 for _f, ev, _k in tr if ev in ("line", "return"))
        st = max(1, -(-nl // ctx.n(250, 1500)))
        s["pause"] = {"mode": "all", "events": ["line", "return"], "stride": st, "phase": rng.randrange(st)}
        out.append((grp + " | line sample", s))
        # overlap: B stops inside a function of its own and finishes only after A has finished
        calls = [(f, k) for f, ev, k in tr if ev == "call"]
        try:
            trb = _census({"a": b, "b": a, "prime": []})
        except Exception:  # noqa: BLE001
            trb = []
        callsb = [(f, k) for f, ev, k in trb if ev == "call"]
        for _ in range(ctx.n(3, 10)):
            if not calls or not callsb:
                break
            fa, ka = rng.choice(calls)
            fb, kb = rng.choice(callsb)
            out.append((grp + " | overlap", {"a": a, "b": b, "prime": _primes(rng, a, b),
                                             "pause": {"mode": "at", "fn": fa, "event": "call", "nth": ka},
                                             "bpause": {"mode": "at", "fn": fb, "event": "call", "nth": kb}}))
    return out


# ------------------------------------------------------------------------------------------------ correspondence
def correspondence(ctx, broken):
    """every result of every schedule against the Lean model's answer for the same request and against the
    single-threaded run of the real code"""
    C = _C()
    if C._crypt_cls() in (None, "MISMATCH"):
        scheds = [(g, s) for g, s in schedules(ctx) if "c20.crypt" not in (s["a"]["op"], s["b"]["op"])]
    else:
        scheds = schedules(ctx)
    runs = []
    reqs = []
    for grp, s in scheds:
        solo = [_impl(s["a"]), _impl(s["b"])]
        try:
            r = run_schedule(s)
        except Exception as e:  # noqa: BLE001
            ctx.notes.append(f"c20 threads: schedule engine failed on {grp}: {e!r}")
            continue
        obs = [("A", s["a"], r["a"])] + [("B", s["b"], g) for g in r["b"]] + [("after-A", s["a"], r["after"][0]), ("after-B", s["b"], r["after"][1])]
        at = len(reqs)
        for _who, op, got in obs:
            rq = {k: v for k, v in _model_req(op, got).items() if k != "plain"}
            reqs.append(rq)
        runs.append((grp, s, r, solo, obs, at))
        ctx.case(("c20.sched", repr(sorted((k, repr(v)) for k, v in s.items()))), nontrivial=bool(r["fired"]))
        ctx.count(f"threads/{grp.split(' | ')[1]}/{'paused' if r['fired'] else 'never-paused'}")
        ctx.count("threads/B-runs", len(r["b"]))
        for n in r["notes"]:
            ctx.count("threads/note:" + n.split(":")[0][:60])
    # the model is asked once per distinct request
    uniq = {}
    for rq in reqs:
        uniq.setdefault(repr(sorted(rq.items())), rq)
    keys = list(uniq)
    outs = dict(zip(keys, ctx.drive([uniq[k] for k in keys]))) if keys else {}
    nb = 0
    for grp, s, r, solo, obs, at in runs:
        bad = None
        for j, (who, op, got) in enumerate(obs):
            mo = outs[repr(sorted(reqs[at + j].items()))]
            if "drv_error" in mo:
                bad = f"driver: {mo['drv_error']}"
                break
            if isinstance(got, dict) and str(got.get("err", "")).startswith("ENGINE:"):
                ctx.notes.append(f"c20 threads: {got['err']}")
                continue
            if got != mo:
                bad = f"{who} (schedule {grp}): impl={_short(got)} model={_short(mo)}"
                break
            sol = solo[0] if who.endswith("A") else solo[1]
            enc_wrapper = op["op"] == "c20.crypt" and op.get("enc")
            if not enc_wrapper and got != sol:
                bad = f"{who} (schedule {grp}): under the schedule {_short(got)}, on its own {_short(sol)}"
                break
        if bad is None and any(n.startswith("DEADLOCK") for n in r["notes"]):
            bad = "a thread never finished"
        if bad is not None:
            nb += 1
            if nb <= 6:
                broken.append(Broken("correspondence", "c20.threads", bad + f" — A paused {_describe_pause(s.get('pause'))}; events fired: {r['fired'][:4]}",
                                     case={"op": "c20.sched", "sched": s}))
    ctx.coverage["thread_schedules"] = len(runs)
    ctx.coverage["thread_schedule_mismatches"] = nb
    if runs:
        grp, s, r, _solo, _obs, _at = runs[0]
        ctx.sample({"schedule": grp, "A": _describe(s["a"])[:160], "B": _describe(s["b"])[:160], "B_runs": len(r["b"]),
                    "A_result": _short(r["a"], 64)})


# ------------------------------------------------------------------------------------------------ search / replay
def _minimise(s, r, expect):
    """a schedule with ONE pause point that still fails (the report then names the place), else `s` itself"""
    if s.get("pause", {}).get("mode") != "all" or s.get("bpause"):
        return s
    fired = list(r["fired"])
    if len(fired) > 400:
        fired = fired[:: -(-len(fired) // 400)]
    for fn, ev, k in fired:
        s1 = dict(s, pause={"mode": "at", "fn": fn, "event": ev, "nth": k})
        try:
            if _judge(s1, run_schedule(s1), expect):
                return s1
        except Exception:  # noqa: BLE001
            continue
    return s


def _violations_of(s, found):
    try:
        r = run_schedule(s)
    except Exception:  # noqa: BLE001
        return
    js = _judge(s, r, ref_outcome)
    if not js:
        return
    s1 = _minimise(s, r, ref_outcome)
    if s1 is not s:
        js1 = _judge(s1, run_schedule(s1), ref_outcome)
        if js1:
            s, js = s1, js1
    for key, msg in js:
        if key not in found:
            found[key] = Violation(key, msg, {"kind": "sched", "sched": s})
        break


def search(ctx, broken):
    """the property statement on the real code under the schedules of the broken cases, then under a fresh battery"""
    found = {}
    for b in broken:
        c = b.case if isinstance(b.case, dict) else None
        if c and c.get("op") == "c20.sched":
            _violations_of(c["sched"], found)
    if not found:
        C = _C()
        ok_wrapper = C._crypt_cls() not in (None, "MISMATCH")
        for _grp, s in schedules(ctx):
            if not ok_wrapper and "c20.crypt" in (s["a"]["op"], s["b"]["op"]):
                continue
            _violations_of(s, found)
            if found:
                break
    return list(found.values())


def replay(ctx, payload):
    s = payload["replay"]["sched"]
    r = run_schedule(s)
    js = _judge(s, r, ref_outcome)
    if js:
        return False, js[0][1]
    if not r["fired"]:
        return True, "property holds on the recorded schedule (note: the recorded pause point was never reached)"
    return True, f"property holds on the recorded two-thread schedule ({len(r['b'])} complete run(s) of B inside A, all results equal FIPS-197)"
