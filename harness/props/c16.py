"""C16 — e-mail: headers, bodies, attachments and mailbox boundaries are exact.

correspondence: S2T.Model.Mail (Lean, through the driver) against the running library functions
  _split_mbox_messages / MBOX_FROM_PATTERN, _iter_message_parts / get_body_content /
  get_attachments (fed with the stdlib-parsed tree), parse_email_addresses,
  EmailContent.iterate_supported_attachments (extractor stubs), _read_eml_format (fake mailparser
  result), the Date pipeline of parse_email_message (S2T.Model.MailDate: isoOfHeader / ofTuple) — and, independently of the model, the ground-truth oracle of the property statement on
  read_eml_format_mail / read_mbox_format_mail over messages written by harness/builders/mailgen.py.
"""
from __future__ import annotations

import base64
import datetime as dt
import email
import importlib
import io
import mimetypes
import re
import types

from run import Broken, Violation

from builders import mailgen

GEN = ["Router", "Mail", "PyRouter"]
RULE = ("messages = stdlib-generated MIME trees (11 shapes: plain/html/alternative/mixed/related nestings, single-part "
        "attachment) x 9 body charsets x 4 transfer encodings x RFC 2047 headers in 8 charsets (Header class, hand-folded "
        "encoded words B/Q with '_' and =20, literal values on one line / folded by hand / folded by the stdlib) x 0..3 "
        "generated documents; every text draws letters part-uniformly from the WHOLE repertoire of its charset (single-byte: "
        "the four rows of the high half, so iso-8859-1 has its C1 controls; multi-byte: every Unicode row the codec carries); "
        "40% of the subjects and 20% of the display names have interior runs of blanks, tabs and Unicode spaces (U+00A0, "
        "U+3000, U+2003, U+0085 ...) literally, in quoted-strings and inside encoded words; single-byte codecs: all 256 byte "
        "values through decode_header_value and get_body_content against the codec table; mboxes of 0..5 such messages, LF/CRLF, mboxrd-quoted From_ lines, "
        "0..2 blank lines between messages; inside a mailbox 15% of the messages have NO Message-ID header, 12% carry the Message-ID of an "
        "earlier different message, 8% are an exact second copy of an earlier message; attachments are also declared by a bare "
        "Content-Disposition (no file name), by Content-Type name= only, with an upper-case disposition, and may precede the body parts "
        "(incl. a nameless text/plain|html attachment before the real body); read_mbox_format_mail as a whole against map parse over the "
        "model's split, each mailbox read twice; Date headers: 45% of the messages carry a generated Date header — zone -0000 (30%), "
        "+0000, RFC 5322 zone names, offsets with odd minutes up to +-23:59; optional/obsolete forms (no day name, no seconds, "
        "one-digit day, two-digit year, comment, extra white space, folded) — and inside an mbox 40% of them repeat the local time "
        "of an earlier message under another zone; the Date pipeline is also driven directly (canonical headers with arbitrary "
        "digits, RFC 2047-encoded value, refused values) as one call sequence against the model; malformed stream = line soups over separator fragments, mutated MIME "
        "(attached messages, upper-case dispositions, name= only, empty payloads, unknown charsets, lost boundaries). "
        "distinct = distinct input bytes / trees / routing tuples; non-trivial = has a separator line, an attachment or "
        "a non-ASCII header/body")
ASSUMPTIONS = [
    "stdlib email (parser, RFC 2047/2231 header decoding, transfer decoding, getaddresses, parsedate_to_datetime) and "
    "bytes.decode are inputs of the model (fields of Part); they are compared with ground truth by the oracle only",
    "mailparser's result is an input of the .eml model (Mp); .eml ground truth is checked by the oracle only",
    "re: MBOX_FROM_PATTERN is modelled by the hand-written matcher isSepLine, valid for exactly the pattern/flags the "
    "generator reads from the source (theorem gen_pattern) and tied to re by the split/sep correspondence",
    "an mbox stores From_-quoted messages; ground truth for mbox bodies is the stored (quoted) text, as for every mbox reader",
    "dates: the mbox extractor must print the ISO 8601 text of the date-time the header denotes — same local time, offset exactly "
    "as written, no offset for the zone -0000 (RFC 5322 3.3); the .eml extractor prints what mailparser delivers, every date "
    "normalised to UTC: it must be the ISO text of the same instant in UTC including '+00:00' (also for -0000: third party, granted). "
    "The truth is computed from the generated fields without the datetime/email modules. Subject, display names "
    "and bodies are compared code point by code point with what the writer put in; the only transformation granted is RFC "
    "5322 header unfolding (and RFC 2047 6.2: white space between two encoded words). EmailContent.__post_init__ strips the "
    "ENDS of subject/body_plain by design, therefore generated subjects/bodies/names carry no white space at their two ends "
    "(interior white space is arbitrary); body_html is compared after strip() of its two ends",
    "a display name with interior white space runs is written as a quoted-string or inside encoded words (in an unquoted "
    "phrase the white space is only a separator of words, RFC 5322 3.2.5)",
    "'supported attachment' = attachment whose MIME type is in MIME_TYPE_MAPPING (the flag the library stores)",
]
TRUSTED = ["model of re / bytes.rstrip / list slicing in S2T/Model/Mail.lean (validated by correspondence)",
           "harness/builders/mailgen.py (reference writer and its ground truth)"]

KNOWN_FOLDED = "eml.folded-display-name"
KNOWN_LEAK = "eml.attached-message-body-leak"
KNOWN_TRAILING = "mbox.single-part-trailing-newlines"
KNOWN_NFC = "eml.nfc-normalised-text"


def _lib():
    m = importlib.import_module("sharepoint2text.parsing.extractors.mail.mbox_email_extractor")
    e = importlib.import_module("sharepoint2text.parsing.extractors.mail.eml_email_extractor")
    return m, e


def _l1(b: bytes) -> str:
    return b.decode("latin-1")


def _txt(a) -> str:
    """text / bytes-as-latin-1 of a driver answer (arrays of numbers, see Drv/C16.lean)"""
    return "".join(map(chr, a))


def _atts(l):
    return [{"fn": _txt(a["fn"]), "mime": _txt(a["mime"]), "data": _txt(a["data"]), "sup": a["sup"]} for a in l]


def _san(s) -> str:
    """JSON-safe text: lone surrogates (surrogateescape'd header bytes) become '?' on both sides"""
    return str(s).encode("utf-8", "replace").decode("utf-8")


# ============================================================================= ground-truth oracle
def _instant(s):
    try:
        d = dt.datetime.fromisoformat(s)
    except Exception:
        return None
    if d.tzinfo is None:
        d = d.replace(tzinfo=dt.timezone.utc)
    return d


def check_content(e, t, kind="eml"):
    """[(field, detail)] where an extracted EmailContent differs from the ground truth."""
    bad = []

    def cmp(field, got, want):
        if got != want:
            bad.append((field, f"got {got!r} want {want!r}", got, want))

    pairs = lambda l: [(a.name, a.address) for a in l]  # noqa: E731
    cmp("subject", e.subject, t["subject"])
    cmp("from", (e.from_email.name, e.from_email.address), tuple(t["from_"]))
    cmp("to", pairs(e.to_emails), [tuple(x) for x in t["to"]])
    cmp("cc", pairs(e.to_cc), [tuple(x) for x in t["cc"]])
    cmp("bcc", pairs(e.to_bcc), [tuple(x) for x in t["bcc"]])
    cmp("reply_to", pairs(e.reply_to), [tuple(x) for x in t["reply_to"]])
    if kind == "mbox":
        # the ISO date of the date-time the header denotes: same local time, offset exactly as written, none for -0000
        cmp("date", e.metadata.date, t.get("date_iso") or t["when"])
    else:
        # mailparser normalises to UTC: the same instant, printed as the ISO 8601 text of that instant in UTC WITH its
        # offset (a normalised time of day without an offset would denote another date-time than the header)
        want = _instant(t["when"])
        cmp("date", e.metadata.date, want.astimezone(dt.timezone.utc).isoformat() if want is not None else t["when"])
    cmp("message_id", e.metadata.message_id, t["message_id"])
    cmp("body_plain", e.body_plain, t["plain"].strip())
    cmp("body_html", e.body_html.strip(), t["html"].strip())
    # an attachment declared WITHOUT a file name (truth name "") is still an attachment with its type and exact bytes;
    # the name the extractor invents for it is not compared
    got_atts = [(a.filename, a.mime_type, a.data.getvalue()) for a in e.attachments]
    want_atts = [tuple(x) for x in t["attachments"]]
    if len(got_atts) == len(want_atts):
        want_atts = [(g[0] if not w[0] else w[0], w[1], w[2]) for g, w in zip(got_atts, want_atts)]
    cmp("attachments", got_atts, want_atts)
    if not any(b[0] == "attachments" for b in bad):
        d = _check_supported_attachments(e, t)
        if d:
            bad.append(("supported_attachments", d, None, None))
    return bad


def _standalone(name, mime, data):
    """what the attached file yields on its own: [(class, full text)]; routed by name, else by its MIME type"""
    from sharepoint2text.parsing.exceptions import ExtractionFileFormatNotSupportedError
    from sharepoint2text.parsing.mime_types import MIME_TYPE_MAPPING
    from sharepoint2text.parsing.router import get_extractor
    try:
        ex = get_extractor(name)
    except ExtractionFileFormatNotSupportedError:
        ex = get_extractor("attachment." + MIME_TYPE_MAPPING[mime])
    try:
        return [(type(r).__name__, r.get_full_text()) for r in ex(io.BytesIO(data), name)]
    except Exception:
        return []


def _check_supported_attachments(e, t):
    from sharepoint2text.parsing.mime_types import MIME_TYPE_MAPPING
    want = []
    for (name, mime, data), a in zip(t["attachments"], e.attachments):
        if mime in MIME_TYPE_MAPPING:
            want += _standalone(name or a.filename, mime, data)     # no declared name: the file under the name it got
    try:
        got = [(type(r).__name__, r.get_full_text()) for r in e.iterate_supported_attachments()]
    except Exception as exc:
        return f"iterate_supported_attachments raised {exc!r}"
    if got != want:
        return f"got {got!r} want {want!r}"
    for (name, mime, _), a in zip(t["attachments"], e.attachments):
        if a.is_supported_mime_type != (mime in MIME_TYPE_MAPPING):
            return f"is_supported_mime_type of {name!r} ({mime}) is {a.is_supported_mime_type}"
    return ""


def _nfc(x):
    import unicodedata
    if isinstance(x, str):
        return unicodedata.normalize("NFC", x)
    if isinstance(x, (list, tuple)):
        return type(x)(_nfc(y) for y in x)
    return x


_FOLDED_QUOTED = re.compile(rb'^(?:From|To|Cc|Bcc|Reply-To):(?:.*\r?\n[ \t])*.*"[^"\r\n]*\r?\n[ \t][^"]*"', re.M)


def _classify(kind, field, got, want, t, raw):
    """stable key of one failing mechanism + witness shape"""
    if kind == "eml" and field in ("from", "to", "cc", "bcc", "reply_to") and _FOLDED_QUOTED.search(raw.split(b"\n\n")[0].split(b"\r\n\r\n")[0]):
        return KNOWN_FOLDED
    if kind == "eml" and field in ("subject", "body_plain", "body_html", "from", "to", "cc", "bcc", "reply_to") \
            and got != want and _nfc(got) == _nfc(want) and got == _nfc(got):
        return KNOWN_NFC        # exactly the canonical composition of what was sent (mailparser's @sanitize)
    if kind == "eml" and field in ("body_plain", "body_html") and t.get("notes", {}).get("attached_message"):
        return KNOWN_LEAK
    if kind == "mbox" and field == "attachments" and t.get("notes", {}).get("shape") == "single-attachment" \
            and len(got) == len(want) == 1 and got[0][:2] == want[0][:2] and got[0][2] == want[0][2].rstrip(b"\r\n"):
        return KNOWN_TRAILING
    return f"{kind}.{field}"


def _truth_json(t):
    d = {k: v for k, v in t.items() if k not in ("attachments",)}
    d["attachments"] = [[n, m, base64.b64encode(b).decode()] for n, m, b in t["attachments"]]
    return d


def _truth_from_json(d):
    t = dict(d)
    t["attachments"] = [(n, m, base64.b64decode(b)) for n, m, b in d["attachments"]]
    return t


def oracle_eml(raw: bytes, t) -> list[tuple[str, str]]:
    """[(key, what)] — the property statement on read_eml_format_mail for one message"""
    _, E = _lib()
    try:
        res = list(E.read_eml_format_mail(io.BytesIO(raw)))
    except Exception as exc:
        return [("eml.raises", f".eml extraction raised {exc!r} cause={exc.__cause__!r}")]
    if len(res) != 1:
        return [("eml.count", f".eml yields {len(res)} results")]
    return [(_classify("eml", f, g, w, t, raw), f"eml {f}: {d[:400]}") for f, d, g, w in check_content(res[0], t)]


def oracle_mbox(data: bytes, truths) -> list[tuple[str, str]]:
    M, _ = _lib()
    try:
        res = list(M.read_mbox_format_mail(io.BytesIO(data)))
    except Exception as exc:
        return [("mbox.raises", f".mbox extraction raised {exc!r} cause={exc.__cause__!r}")]
    if len(res) != len(truths):
        return [("mbox.count", f".mbox of {len(truths)} messages yields {len(res)} results")]
    out = []
    for i, (e, t) in enumerate(zip(res, truths)):
        for f, d, g, w in check_content(e, t, "mbox"):
            out.append((_classify("mbox", f, g, w, t, data), f"mbox message {i} {f}: {d[:400]}"))
    return out


def _violations(found, rep, out, seen):
    for key, what in found:
        if key not in seen:
            seen.add(key)
            out.append(Violation(key, what, rep))


# ============================================================================= Date headers
_DOW = ["Mon", "Tue", "Wed", "Thu", "Fri", "Sat", "Sun"]
_MON = ["Jan", "Feb", "Mar", "Apr", "May", "Jun", "Jul", "Aug", "Sep", "Oct", "Nov", "Dec"]
# RFC 5322 4.3 obsolete zone names and what they denote (minutes east of UTC)
_ZONE_NAMES = {"UT": 0, "GMT": 0, "EST": -300, "EDT": -240, "CST": -360, "CDT": -300, "MST": -420, "MDT": -360, "PST": -480, "PDT": -420}
_OFFSETS = [0, 0, 60, -60, 330, 345, -210, -300, 570, 765, 840, -720, -1, 1, -59, 1439, -1439]


def _iso_truth(y, mo, d, h, mi, s, zone):
    """ISO 8601 text of the denoted date-time, written WITHOUT the datetime module: the local fields and the offset as
    written; no offset for the zone -0000 (RFC 5322 3.3: no information about the local zone)"""
    out = "%04d-%02d-%02dT%02d:%02d:%02d" % (y, mo, d, h, mi, s)
    if zone is not None:
        out += "%s%02d:%02d" % ("-" if zone < 0 else "+", abs(zone) // 60, abs(zone) % 60)
    return out


def gen_date_header(rng, exotic=True, same_as=None):
    """-> (Date header value, ISO truth).  canonical form with every kind of zone (numeric incl. odd minutes, -0000,
    +0000, names); with `exotic` also the optional / obsolete forms of RFC 5322: no day name, no seconds, one-digit
    day, two-digit year, comment after the zone, extra white space, a folded value."""
    y = rng.choice([rng.randint(1970, 2037), rng.randint(1900, 2099), 2000, 2024, 1999])
    mo = rng.randint(1, 12)
    dim = [31, 29 if (y % 4 == 0 and (y % 100 != 0 or y % 400 == 0)) else 28, 31, 30, 31, 30, 31, 31, 30, 31, 30, 31][mo - 1]
    d = rng.choice([1, dim, rng.randint(1, dim)])
    h, mi, s = rng.choice([0, 23, rng.randint(0, 23)]), rng.choice([0, 59, rng.randint(0, 59)]), rng.choice([0, 59, rng.randint(0, 59)])
    if same_as:     # the local date and time of an earlier message of the mailbox, under another zone
        y, mo, d, h, mi, s = (int(x) for x in re.match(r"(\d+)-(\d+)-(\d+)T(\d+):(\d+):(\d+)", same_as).groups())
    r = rng.random()
    if r < 0.3:
        zone, ztext = None, "-0000"
    elif r < 0.45:
        zone, ztext = 0, "+0000"
    elif r < 0.6 and exotic:
        ztext = rng.choice(sorted(_ZONE_NAMES))
        zone = _ZONE_NAMES[ztext]
    else:
        zone = rng.choice(_OFFSETS + [rng.randint(-14 * 60, 14 * 60)])
        ztext = "%s%02d%02d" % ("-" if zone < 0 else "+", abs(zone) // 60, abs(zone) % 60)
        if zone == 0:
            ztext = "+0000"
    import calendar
    dow = _DOW[calendar.weekday(y, mo, d)]
    day, year, sec, lead = "%02d" % d, "%04d" % y, ":%02d" % s, dow + ", "
    sp = [" "] * 5
    tail = ""
    if exotic:
        k = rng.randrange(9)
        if k == 0:
            lead = ""
        elif k == 1:
            sec, s = "", 0
        elif k == 2:
            day = str(d)
        elif k == 3 and 1969 <= y <= 2068:
            year = "%02d" % (y % 100)
        elif k == 4:
            tail = " (" + rng.choice(["UTC", "CET", "local time", "+0100"]) + ")"
        elif k == 5:
            sp[rng.randrange(5)] = rng.choice(["  ", "\t", "   "])
        elif k == 6:
            sp[rng.randrange(1, 5)] = rng.choice(["\n ", "\n\t", "\n  "])
    hdr = lead + day + sp[0] + _MON[mo - 1] + sp[1] + year + sp[2] + "%02d:%02d" % (h, mi) + sec + sp[3] + ztext + tail
    return hdr, _iso_truth(y, mo, d, h, mi, s, zone)


def _redate(rng, raw: bytes, t, start=0, exotic=True, same_as=None):
    """rewrite the Date header of the message written at raw[start:] (ground truth follows); -> (raw, end position)"""
    if t["notes"].get("shape") == "repertoire":     # its truth object is shared between the .eml and the mbox copy
        return raw, start
    old = b"Date: " + email.utils.format_datetime(dt.datetime.fromisoformat(t["when"])).encode("ascii")
    i = raw.find(old, start)
    if i < 0 or (i and raw[i - 1:i] != b"\n"):
        return raw, start
    hdr, iso = gen_date_header(rng, exotic, same_as)
    new = b"Date: " + hdr.encode("ascii")
    if t["notes"].get("crlf") or raw[i + len(old): i + len(old) + 2] == b"\r\n":
        new = new.replace(b"\n", b"\r\n")
    t["date_iso"] = iso
    t["when"] = iso
    t["notes"]["date"] = hdr
    return raw[:i] + new + raw[i + len(old):], i + len(new)


_CANON = re.compile(r"[A-Z][a-z]{2}, (\d\d) ([A-Z][a-z]{2}) (\d{4}) (\d\d):(\d\d):(\d\d) ([+-])(\d\d)(\d\d)\Z")


def _ref_canonical_date(hdr):
    """ISO truth of a VALID canonical RFC 5322 date-time (year >= 1900, real calendar day, zone below 24 h with
    minutes below 60), else None — written without the datetime / email modules"""
    m = _CANON.match(hdr)
    if not m or m.group(2) not in _MON:
        return None
    d, mo, y, h, mi, s = int(m.group(1)), _MON.index(m.group(2)) + 1, int(m.group(3)), int(m.group(4)), int(m.group(5)), int(m.group(6))
    zh, zm = int(m.group(8)), int(m.group(9))
    dim = [31, 29 if (y % 4 == 0 and (y % 100 != 0 or y % 400 == 0)) else 28, 31, 30, 31, 30, 31, 31, 30, 31, 30, 31][mo - 1]
    if not (1900 <= y and 1 <= d <= dim and h < 24 and mi < 60 and s < 60 and zh < 24 and zm < 60):
        return None
    zone = None if (m.group(7) == "-" and zh == zm == 0) else (zh * 60 + zm) * (-1 if m.group(7) == "-" else 1)
    return _iso_truth(y, mo, d, h, mi, s, zone)


def _date_witness(hdr, iso):
    raw = ("From: a@b.c\nTo: x@y.z\nSubject: s\nDate: " + hdr + "\nMessage-ID: <m@x>\n\nbody\n").encode("ascii")
    t = {"subject": "s", "from_": ("", "a@b.c"), "to": [("", "x@y.z")], "cc": [], "bcc": [], "reply_to": [], "when": iso, "date_iso": iso,
         "message_id": "<m@x>", "plain": "body", "html": "", "attachments": [], "notes": {"shape": "date-witness", "date": hdr}}
    return b"From a@b.c Mon Jan  1 10:00:00 2024\n" + raw + b"\n", t


_ISO_SHAPE = re.compile(r"\d{4}-\d\d-\d\dT\d\d:\d\d:\d\d([+-]\d\d:\d\d)?\Z")


# ============================================================================= model correspondence
def _tree_json(part, M):
    """what the library's walk asks the standard library about one part (inputs of the model)"""
    ct = part.get_content_type()
    disp = str(part.get("Content-Disposition", ""))
    fn = part.get_filename()
    node = {"ct": _san(ct), "disp": _san(disp), "fn": _san(fn or ""), "fnd": _san(M.decode_header_value(fn) if fn else "")}
    if part.is_multipart():
        node["kids"] = [_tree_json(p, M) for p in part.get_payload()]
        node["pl"] = _l1(b"".join(p.as_bytes() for p in part.get_payload()))
        node["tx"] = ""
    else:
        payload = part.get_payload(decode=True) or b""
        charset = part.get_content_charset() or "utf-8"
        try:
            tx = payload.decode(charset, errors="replace")
        except (LookupError, UnicodeDecodeError):
            tx = payload.decode("utf-8", errors="replace")
        node["pl"] = _l1(payload)
        node["tx"] = _san(tx)
    return node


def _impl_tree(msg, M):
    try:
        plain, html = M.get_body_content(msg)
    except Exception as exc:
        return {"raised": repr(exc)}
    out = {"plain": _san(plain), "html": _san(html)}
    if hasattr(M, "get_attachments"):
        try:
            out["atts"] = [{"fn": _san(a.filename), "mime": _san(a.mime_type), "data": _l1(a.data.getvalue()),
                            "sup": bool(a.is_supported_mime_type)} for a in M.get_attachments(msg)]
        except Exception as exc:
            return {"raised": repr(exc)}
    else:
        out["atts"] = "MISSING: mbox_email_extractor has no get_attachments"
    if hasattr(M, "_iter_message_parts"):
        out["walk"] = [{"ct": _san(p.get_content_type()), "att": bool(a)} for p, a in M._iter_message_parts(msg)]
    else:
        out["walk"] = "MISSING: mbox_email_extractor has no _iter_message_parts"
    # what parse_email_message puts into the EmailContent must be the same two things
    try:
        ec = M.parse_email_message(msg)
        if [(a.filename, a.mime_type, a.data.getvalue()) for a in ec.attachments] != \
                [(a["fn"], a["mime"], a["data"].encode("latin-1")) for a in out["atts"]] \
                and all(a["fn"].isascii() for a in out["atts"] if isinstance(a, dict)):
            out["atts"] = "parse_email_message does not store get_attachments(message)"
        if ec.body_plain != plain.strip() or ec.body_html != html:
            out["plain"] = "parse_email_message does not store get_body_content(message)"
    except Exception:
        pass  # missing Date etc.: outside this comparison
    return out


def _mutate_mime(rng, raw: bytes) -> bytes:
    """malformed / unusual MIME derived from a generated message"""
    k = rng.randrange(10)
    if k == 0:
        return raw.replace(b"Content-Disposition: attachment", b"Content-Disposition: ATTACHMENT", 1)
    if k == 1:
        return re.sub(rb'Content-Disposition: attachment; filename[^\n]*\n', b"Content-Disposition: attachment\n", raw, count=1)
    if k == 2:
        return re.sub(rb'Content-Disposition: (?:attachment|inline); filename="([^"\n]*)"\n', rb'X-Was: \1\n', raw, count=1) \
            .replace(b'Content-Type: text/csv', b'Content-Type: text/csv; name="from-ctype.csv"', 1)
    if k == 3:
        return re.sub(rb'charset="[^"]*"', b'charset="x-unknown-9"', raw, count=1)
    if k == 4:
        return re.sub(rb'boundary="[^"]*"', b'boundary="nope"', raw, count=1)
    if k == 5:
        return raw[: rng.randrange(len(raw) // 2, len(raw))]
    if k == 6:  # attach the message to itself as message/rfc822
        inner = email.message_from_bytes(raw)
        outer = mailgen.MIMEMultipart("mixed")
        for h in ("Subject", "From", "To", "Date"):
            if inner[h]:
                outer[h] = inner[h]
        outer.attach(mailgen._leaf("text", "plain", b"outer body\n", "7bit", params={"charset": "us-ascii"}))
        from email.mime.message import MIMEMessage
        mm = MIMEMessage(inner)
        if rng.random() < 0.7:
            mm.add_header("Content-Disposition", "attachment", filename="fwd.eml")
        outer.attach(mm)
        return outer.as_bytes()
    if k == 7:
        return re.sub(rb"\n\n[^\n-][^\n]*\n", b"\n\n", raw, count=1)      # empty first payload
    if k == 8:
        return raw.replace(b"Content-Type: multipart/mixed", b"Content-Disposition: attachment\nContent-Type: multipart/mixed", 1)
    return raw.replace(b"Content-Type: text/plain", b"Content-Type: TEXT/Plain", 1).replace(b"Content-Type: text/html", b"Content-Type: text/html ", 1)


def _corr_trees(ctx, raws, broken):
    M, _ = _lib()
    reqs, impls = [], []
    for label, raw in raws:
        try:
            msg = email.message_from_bytes(raw)
            node = _tree_json(msg, M)
        except Exception as exc:   # the standard library itself refuses: not a case
            ctx.count("tree/stdlib-raised:" + type(exc).__name__)
            continue
        impl = _impl_tree(msg, M)
        if "raised" in impl:
            ctx.count("tree/impl-raised")
            continue
        reqs.append({"op": "c16.tree", "tree": node})
        impls.append((label, raw, impl))
    outs = ctx.drive(reqs)
    bad = 0
    for (label, raw, impl), o in zip(impls, outs):
        natt = len(impl["atts"]) if isinstance(impl["atts"], list) else -1
        ctx.case(("tree", raw), nontrivial=True)
        ctx.count(f"tree/{label}/atts={min(natt, 3)}" + ("/plain" if impl["plain"] else "") + ("/html" if impl["html"] else ""))
        if "drv_error" in o:
            broken.append(Broken("correspondence", "driver", o["drv_error"], case={"raw": _l1(raw)}))
            continue
        o = {"plain": _txt(o["plain"]), "html": _txt(o["html"]), "atts": _atts(o["atts"]),
             "walk": [{"ct": _txt(w["ct"]), "att": w["att"]} for w in o["walk"]]}
        diff = [k for k in ("plain", "html", "atts", "walk") if impl[k] != o[k]]
        if diff:
            bad += 1
            if bad <= 6:
                broken.append(Broken("correspondence", "c16.tree", "; ".join(f"{k}: impl={impl[k]!r:.300} model={o[k]!r:.300}" for k in diff),
                                     case={"kind": "eml", "raw": _l1(raw)}))
    if impls:
        ctx.sample({"op": "c16.tree", "label": impls[0][0], "impl": {k: (v if not isinstance(v, list) else v[:2]) for k, v in impls[0][2].items()}})
    return bad


_FRAGS = [b"From ", b"From", b"from ", b">From ", b"a@b", b" ", b"  ", b"\t", b"2024", b"202", b"12345", b"\r", b"\n", b"\n", b"\r\n",
          b"Mon Jan  1 10:00:00 2024", b"x", b"\x0b", b"\x0c", b"\x1c", b"\x85", b"\xa0", b"\xff", b"Subject: s", b"0000", b"9", b"/", b":"]


def _soup(rng, n):
    return b"".join(rng.choice(_FRAGS) for _ in range(n))


_LINES = [b"From a@b Mon Jan  1 10:00:00 2024", b"From - 1999", b"From x 12345", b"From 12345", b"From 2024", b"From  a 2024", b"From a 2024 ",
          b"From a 202", b"From\ta 2024", b"from a 2024", b">From a 2024", b" From a 2024", b"From a 2024\r", b"From \xff\xfe 2024", b"From a\x0b2024",
          b"Subject: s", b"", b"", b"body text", b"\r", b"From", b"From ", b"From a 2024x", b"X-From a 2024", b"From a 0000"]


def _line_soup(rng, n):
    out = b""
    for _ in range(n):
        out += rng.choice(_LINES) + rng.choice([b"\n", b"\n", b"\n", b"\r\n", b"\r\n", b"", b"\n\n", b"\r"])
    return out


def _corr_split(ctx, datas, broken):
    M, _ = _lib()
    reqs, impls = [], []
    for label, data in datas:
        try:
            msgs = M._split_mbox_messages(data)
            spans = [[m.start(), m.end() - m.start()] for m in M.MBOX_FROM_PATTERN.finditer(data)]
        except Exception as exc:
            broken.append(Broken("correspondence", "c16.split", f"_split_mbox_messages raised {exc!r}", case={"kind": "split", "data": _l1(data)}))
            continue
        reqs.append({"op": "c16.split", "data": _l1(data)})
        impls.append((label, data, [_l1(m) for m in msgs], spans))
    outs = ctx.drive(reqs)
    bad = 0
    for (label, data, msgs, spans), o in zip(impls, outs):
        ctx.case(("split", data), nontrivial=bool(spans))
        ctx.count(f"split/{label}/seps={min(len(spans), 4)}/msgs={min(len(msgs), 4)}")
        if "drv_error" in o:
            broken.append(Broken("correspondence", "driver", o["drv_error"], case={"data": _l1(data)}))
            continue
        o = {"msgs": [_txt(m) for m in o["msgs"]], "spans": o["spans"]}
        if o["msgs"] != msgs or o["spans"] != spans:
            bad += 1
            if bad <= 6:
                broken.append(Broken("correspondence", "c16.split", f"impl msgs={msgs!r:.300} spans={spans} model msgs={o['msgs']!r:.300} spans={o['spans']}",
                                     case={"kind": "split", "data": _l1(data)}))
    return bad


def _corr_sep(ctx, broken):
    M, _ = _lib()
    rng = ctx.rng
    lines = []
    for b in range(256):   # every byte in the \S position, and as the byte before the year
        lines.append(b"From " + bytes([b]) + b" 2024\n")
        lines.append(b"From a" + bytes([b]) + b"2024\n")
        lines.append(b"From a 202" + bytes([b]) + b"\n")
        lines.append(b"From a 2024" + bytes([b]) + b"\n")
        lines.append(b"From a 2024\r" + bytes([b]))
    lines += [b"From a 2024", b"From a 2024\r", b"From a 2024\r\r\n", b"From 12345\n", b"From 2024\n", b"From  2024\n", b"From\t1 2024\n",
              b"From a\n2024\n", b"From a 2024\n\n", b"\nFrom a 2024\n", b" From a 2024\n", b"FROM a 2024\n", b"From a 20245\n", b""]
    for _ in range(ctx.n(400, 4000)):
        lines.append(_soup(rng, rng.randint(1, 7)) + rng.choice([b"\n", b"\r\n", b""]))
    reqs, impls = [], []
    for l in lines:
        m = M.MBOX_FROM_PATTERN.match(l)
        impls.append(bool(m) and m.end() == len(l))
        reqs.append({"op": "c16.sep", "line": _l1(l)})
    outs = ctx.drive(reqs)
    bad = 0
    for l, want, o in zip(lines, impls, outs):
        ctx.case(("sep", l), nontrivial=l.startswith(b"From "))
        ctx.count("sep/" + ("match" if want else "no-match"))
        if o.get("sep") != want:
            bad += 1
            if bad <= 6:
                broken.append(Broken("correspondence", "c16.sep", f"line={l!r} impl={want} model={o.get('sep')}", case={"kind": "split", "data": _l1(l)}))
    return bad


def _corr_addr(ctx, raws, broken):
    M, _ = _lib()
    reqs, impls = [], []
    values = []
    for _, raw in raws:
        msg = email.message_from_bytes(raw)
        for h in ("To", "Cc", "Bcc", "Reply-To"):
            v = msg.get(h)
            if v is not None:
                values.append(v)
    values += ["", "a@b.c, , <>, x <y@z>", "undisclosed-recipients:;", "A <a@x>, B", "\"Doe,\n John\" <j@x>", "\"Doe,\r\n John\" <j@x>, k@x"]
    for v in values:
        try:
            got = [[a.name, a.address] for a in M.parse_email_addresses(v)]
        except Exception as exc:
            broken.append(Broken("correspondence", "c16.addr", f"parse_email_addresses({v!r}) raised {exc!r}", case={"header": str(v)}))
            continue
        unfold = getattr(M, "_unfold_header_value", lambda s: s)
        pairs = [[_san(M.decode_header_value(n)), _san(a)] for n, a in email.utils.getaddresses([unfold(v)])] if v else []
        reqs.append({"op": "c16.addr", "pairs": pairs})
        impls.append((v, [[_san(n), _san(a)] for n, a in got]))
    outs = ctx.drive(reqs)
    for (v, got), o in zip(impls, outs):
        ctx.case(("addr", str(v)), nontrivial=bool(got))
        ctx.count("addr/n=%d" % min(len(got), 3))
        kept = [[_txt(n), _txt(a)] for n, a in o.get("kept", [])]
        if kept != got:
            broken.append(Broken("correspondence", "c16.addr", f"header={v!r} impl={got} model={kept}", case={"header": str(v)}))


def _corr_route(ctx, broken):
    """EmailContent.iterate_supported_attachments with the registered extractors replaced by stubs"""
    from sharepoint2text.parsing import router
    from sharepoint2text.parsing.extractors.data_types import EmailAddress, EmailAttachment, EmailContent
    from sharepoint2text.parsing.mime_types import MIME_TYPE_MAPPING, is_supported_mime_type
    rng = ctx.rng
    called = []
    saved = []
    for ft, (modname, fn) in router._EXTRACTOR_REGISTRY.items():
        mod = importlib.import_module(modname)
        if any(m is mod and n == fn for m, n, _ in saved):
            continue
        saved.append((mod, fn, getattr(mod, fn)))

        def mk(tag):
            def stub(file_like, path=None):
                called.append((tag, path, file_like.tell()))
                return iter(())
            return stub
        setattr(mod, fn, mk(f"{modname}:{fn}"))
    try:
        exts = sorted(set(router._EXTRACTOR_REGISTRY) | set(router._EXTENSION_ALIASES)) + ["bin", "exe", "png", "", "tar.gz", "TXT", "Pdf"]
        mimes = sorted(MIME_TYPE_MAPPING) + ["application/octet-stream", "image/png", "", "TEXT/PLAIN", "text/x-unknown"]
        cases = []
        for m in mimes:
            for e in rng.sample(exts, ctx.n(6, len(exts))):
                stem = rng.choice(["a", "My Report", "x.y", "attachment", ".hidden", "dir/f"])
                cases.append((stem + ("." + e if e else ""), m))
            cases.append(("attachment", m))
            cases.append(("noext", m))
        reqs, impls = [], []
        for name, mime in cases:
            for flag in ((is_supported_mime_type(mime),) if rng.random() < 0.8 else (True, False)):
                att = EmailAttachment(filename=name, mime_type=mime, data=io.BytesIO(b"xyz"), is_supported_mime_type=flag)
                att.data.seek(2)
                ec = EmailContent(from_email=EmailAddress(), attachments=[att])
                called.clear()
                try:
                    list(ec.iterate_supported_attachments())
                    got = "skip" if not called else called[0][0]
                    if called and (called[0][1] != name or called[0][2] != 0):
                        got += f" (path={called[0][1]!r} pos={called[0][2]})"
                except Exception as exc:
                    got = "ERR:" + type(exc).__name__
                ft = MIME_TYPE_MAPPING.get(mime)
                reqs.append({"op": "c16.route", "sup": flag, "name": name.lower(), "guess": mimetypes.guess_type(name.lower())[0],
                             "mime": mime, "guess2": mimetypes.guess_type(f"attachment.{ft}")[0] if ft else None})
                impls.append((name, mime, flag, got))
        outs = ctx.drive(reqs)
        bad = 0
        for (name, mime, flag, got), o in zip(impls, outs):
            ctx.case(("route", name, mime, flag))
            d = o.get("d", "")
            want = "skip" if d.startswith("skip") else ("ERR:ExtractionFileFormatNotSupportedError" if d.startswith("ERR:") else d)
            ctx.count("route/" + ("skip" if got == "skip" else "run" if ":" in got and not got.startswith("ERR") else got))
            if want != got or o.get("supmime") != is_supported_mime_type(mime):
                bad += 1
                if bad <= 6:
                    broken.append(Broken("correspondence", "c16.route", f"name={name!r} mime={mime!r} flag={flag} impl={got} model={d} "
                                         f"is_supported_mime_type impl={is_supported_mime_type(mime)} model={o.get('supmime')}",
                                         case={"kind": "route", "name": name, "mime": mime}))
    finally:
        for mod, fn, orig in saved:
            setattr(mod, fn, orig)


# texts whose white space must survive: interior runs, Unicode spaces, C1 controls, folds (only a fold may go)
_WS_TEXTS = ["a  b", "a\tb", "a \t b   c", "x\u00a0y", "5\u00a0000\u00a0EUR", "\u4f1a\u8b70\u3000\u8b70\u4e8b\u9332", " \u00a0lead",
             "trail\u3000", "\u3000both\u2003\u2003ends \u0085", "fold\n ed", "fold\r\n\ted  twice\n  x", "a \n b", "no\nfold",
             "cr\ronly", "x\u0085y\u0093z", "\u2028sep\u2029", "\x1cfs\x1f", "q \u2009thin\u200bzw ", "\t\n", "\ufeffbom "]


def _rand_ws_text(rng):
    from builders.mailgen import WS_ASCII, WS_UNICODE
    pieces = WS_ASCII + WS_UNICODE + [" ", " ", "\n ", "\r\n\t", "\n", "\r", "\x0b", "\x1c", "\u200b", "\ufeff", "a", "B", "\u00e9", "\u4e2d", "\U0001f600", "x=y", "\u0093"]
    return "".join(rng.choice(pieces) for _ in range(rng.randint(0, 9)))


def _corr_text(ctx, broken):
    """str.strip / header unfolding / the Subject pipeline of the running code against S2T.MailText"""
    M, _ = _lib()
    from sharepoint2text.parsing.extractors.data_types import EmailAddress, EmailContent
    rng = ctx.rng
    reqs, impls = [], []
    texts = list(_WS_TEXTS) + [_rand_ws_text(rng) for _ in range(ctx.n(250, 4000))]
    for s in texts:
        ec = EmailContent(from_email=EmailAddress(), subject=s, body_plain=s)
        for what, got in (("subject", ec.subject), ("body_plain", ec.body_plain)):
            reqs.append({"op": "c16.text", "fn": "strip", "s": s})
            impls.append((f"EmailContent.{what}", s, got))
        if hasattr(M, "_unfold_header_value"):
            reqs.append({"op": "c16.text", "fn": "unfold", "s": s})
            impls.append(("_unfold_header_value", s, M._unfold_header_value(s)))
    # a literal Subject header (no encoded word): what the stdlib hands over -> parse_email_message(...).subject
    for _ in range(ctx.n(150, 2500)):
        words = [rng.choice(["alpha", "Re:", "x=y", "2024", "b", "(fwd)", "a_b"]) for _ in range(rng.randint(1, 7))]
        val = words[0]
        for w in words[1:]:
            sep = rng.choice([" ", " ", "  ", "\t", " \t ", "   "])
            if rng.random() < 0.3:
                k = rng.randrange(len(sep))
                sep = sep[:k] + "\n" + sep[k:]
            val += sep + w
        raw = ("Subject: " + val + "\nFrom: a@b.c\nDate: Mon, 01 Jan 2024 10:00:00 +0000\n\nx\n").encode("ascii")
        if rng.random() < 0.3:
            raw = raw.replace(b"\n", b"\r\n")
        msg = email.message_from_bytes(raw)
        try:
            got = M.parse_email_message(msg).subject
        except Exception as exc:
            got = "RAISED " + repr(exc)
        reqs.append({"op": "c16.text", "fn": "subject", "s": str(msg.get("Subject"))})
        impls.append(("parse_email_message.subject", str(msg.get("Subject")), got))
    outs = ctx.drive(reqs)
    bad = 0
    for (what, s, got), o in zip(impls, outs):
        ctx.case(("text", what, s), nontrivial=bool(s.strip()))
        ctx.count("text/" + what)
        if "drv_error" in o or _txt(o["out"]) != got:
            bad += 1
            if bad <= 6:
                broken.append(Broken("correspondence", "c16.text", f"{what}({s!r}) impl={got!r} model={_txt(o.get('out', []))!r} {o.get('drv_error', '')}",
                                     case={"kind": "text", "what": what, "s": s}))


_CODECS = ["us-ascii", "iso-8859-1", "iso-8859-15", "windows-1252", "koi8-r"]


def _corr_decode(ctx, broken):
    """single-byte charsets: every byte value through decode_header_value (B and Q words) and get_body_content
    (single part / inside a multipart, plain / html) against the codec's table in the model"""
    M, _ = _lib()
    rng = ctx.rng
    reqs, impls = [], []
    for cs in _CODECS:
        chunks = [bytes(range(i, i + 16)) for i in range(0, 256, 16)]
        chunks += [bytes(rng.randrange(256) for _ in range(rng.randint(1, 24))) for _ in range(ctx.n(12, 200))]
        for ch in chunks:
            b64 = base64.b64encode(ch).decode()
            qq = "".join("=%02X" % b for b in ch)
            label = rng.choice([cs, cs.upper()])
            sites = [("decode_header_value/B", lambda: M.decode_header_value(f"=?{label}?B?{b64}?=")),
                     ("decode_header_value/Q", lambda: M.decode_header_value(f"=?{label}?q?{qq}?="))]
            single = (f"Content-Type: text/plain; charset={label}\nContent-Transfer-Encoding: base64\n\n{b64}\n").encode()
            multi = (f"Content-Type: multipart/alternative; boundary=B\n\n--B\nContent-Type: text/plain; charset=\"{label}\"\n"
                     f"Content-Transfer-Encoding: base64\n\n{b64}\n--B\nContent-Type: text/html; charset={label}\n"
                     f"Content-Transfer-Encoding: quoted-printable\n\n{qq}\n--B--\n").encode()
            sites.append(("get_body_content/single", lambda: M.get_body_content(email.message_from_bytes(single))[0]))
            sites.append(("get_body_content/multi-plain", lambda: M.get_body_content(email.message_from_bytes(multi))[0]))
            sites.append(("get_body_content/multi-html", lambda: M.get_body_content(email.message_from_bytes(multi))[1]))
            for name, f in sites:
                want_bytes = ch
                if name.endswith("multi-html"):
                    # quoted-printable text: the stdlib's transfer decoding is an input (trailing line end of the part)
                    want_bytes = email.message_from_bytes(multi).get_payload()[1].get_payload(decode=True)
                try:
                    got = [ord(c) for c in f()]
                except Exception as exc:
                    got = "RAISED " + repr(exc)
                reqs.append({"op": "c16.decode", "codec": cs, "bytes": list(want_bytes)})
                impls.append((cs, name, want_bytes, got))
    outs = ctx.drive(reqs)
    bad = 0
    for (cs, name, ch, got), o in zip(impls, outs):
        ctx.case(("decode", cs, name, ch))
        ctx.count(f"decode/{cs}/{name}")
        if o.get("out") != got:
            bad += 1
            if bad <= 6:
                broken.append(Broken("correspondence", "c16.decode", f"{name} charset={cs} bytes={ch!r} impl={got!r:.300} model={o.get('out')!r:.300} {o.get('drv_error', '')}",
                                     case={"kind": "decode", "charset": cs, "site": name, "bytes": _l1(ch)}))


def _corr_eml_mapping(ctx, broken):
    """_read_eml_format fed with a fabricated mailparser result"""
    _, E = _lib()
    rng = ctx.rng
    words = ["", "a", "Ann Lee", "x@y.z", "Doe,\n John", " pad ", "ü"]

    def tup():
        return tuple(rng.choice(words) for _ in range(rng.choice([0, 1, 2, 2, 2, 3])))

    reqs, impls = [], []
    orig = E.parse_from_bytes
    try:
        for _ in range(ctx.n(150, 2000)):
            atts = []
            for _ in range(rng.randint(0, 3)):
                data = bytes(rng.randrange(256) for _ in range(rng.randint(0, 12)))
                binary = rng.random() < 0.6
                payload = base64.b64encode(data).decode() if binary else rng.choice(["plain text", "ünï", "", "a\nb"])
                a = {"payload": payload, "binary": binary}
                r = rng.random()
                if r < 0.7:
                    a["filename"] = rng.choice(["a.txt", "Ü.csv", "", "x"])
                elif r < 0.85:
                    a["filename"] = None
                r = rng.random()
                if r < 0.7:
                    a["mail_content_type"] = rng.choice(["text/plain", "application/pdf", "image/png", "", "application/zip"])
                elif r < 0.85:
                    a["mail_content_type"] = None
                atts.append(a)
            fake = types.SimpleNamespace(
                from_=[tup() for _ in range(rng.choice([0, 1, 1, 1, 2]))], to=[tup() for _ in range(rng.randint(0, 3))] if rng.random() < 0.3
                else [(rng.choice(words), "t@x.io") for _ in range(rng.randint(0, 3))],
                cc=[tup() for _ in range(rng.randint(0, 3))], bcc=[tup() for _ in range(rng.randint(0, 2))],
                reply_to=[tup() for _ in range(rng.randint(0, 2))], date=None, message_id=rng.choice(["<m@x>", "", None]),
                subject=rng.choice(["s", " padded ", "", None] + _WS_TEXTS), in_reply_to=None,
                text_plain=[rng.choice(["p1", "", " p2 ", "x\ny"] + _WS_TEXTS) for _ in range(rng.randint(0, 3))],
                text_html=[rng.choice(["<b>h</b>", "", "<i>\n</i>"]) for _ in range(rng.randint(0, 2))], attachments=atts)
            if fake.from_ and len(fake.from_[0]) >= 2 and rng.random() < 0.8:
                pass
            elif rng.random() < 0.7:
                fake.from_ = [("N", "f@x.io")]
            E.parse_from_bytes = lambda payload, _f=fake: _f
            try:
                r = E._read_eml_format(b"")
                pairs = lambda l: [[a.name, a.address] for a in l]  # noqa: E731
                impl = {"from": pairs([r.from_email]), "to": pairs(r.to_emails), "cc": pairs(r.to_cc), "bcc": pairs(r.to_bcc),
                        "reply_to": pairs(r.reply_to), "subject": r.subject, "plain": r.body_plain, "html": r.body_html,
                        "atts": [{"fn": a.filename, "mime": a.mime_type, "data": _l1(a.data.getvalue()), "sup": bool(a.is_supported_mime_type)}
                                 for a in r.attachments]}
            except IndexError:
                impl = {"err": "IndexError"}
            except Exception as exc:
                impl = {"err": type(exc).__name__}
            reqs.append({"op": "c16.eml", "from": [list(t) for t in fake.from_], "to": [list(t) for t in fake.to],
                         "cc": [list(t) for t in fake.cc], "bcc": [list(t) for t in fake.bcc], "reply_to": [list(t) for t in fake.reply_to],
                         "subject": fake.subject or "", "text_plain": fake.text_plain, "text_html": fake.text_html,
                         "atts": [{"fn": a.get("filename") or "", "ct": a.get("mail_content_type") or "", "bin": a["binary"],
                                   "b64": _l1(base64.b64decode(a["payload"])) if a["binary"] else "",
                                   "utf8": _l1(a["payload"].encode("utf-8", errors="ignore"))} for a in atts]})
            impls.append(impl)
    finally:
        E.parse_from_bytes = orig
    outs = ctx.drive(reqs)
    bad = 0
    for rq, impl, o in zip(reqs, impls, outs):
        ctx.case(("eml-map", repr(rq)))
        ctx.count("eml-map/" + ("IndexError" if "err" in impl else "atts=%d" % len(impl["atts"])))
        if "err" not in o and "drv_error" not in o:
            pr = lambda l: [[_txt(a), _txt(b)] for a, b in l]  # noqa: E731
            o = {"from": pr(o["from"]), "to": pr(o["to"]), "cc": pr(o["cc"]), "bcc": pr(o["bcc"]), "reply_to": pr(o["reply_to"]),
                 "subject": _txt(o["subject"]), "plain": _txt(o["plain"]),     # unfolding + __post_init__ are the model's
                 "html": _txt(o["html"]), "atts": _atts(o["atts"])}
        if o != impl:
            bad += 1
            if bad <= 6:
                broken.append(Broken("correspondence", "c16.eml", f"mailparser result={rq!r:.600} impl={impl!r:.400} model={o!r:.400}", case={"kind": "eml-map"}))


_DATE_FIXED = ["Fri, 05 Jan 2024 10:00:00 -0000", "Fri, 05 Jan 2024 10:00:00 +0000", "Fri, 05 Jan 2024 10:00:00 GMT",
               "Fri, 05 Jan 2024 10:00:00 -0330", "Fri, 5 Jan 2024 10:00:00 +0545", "Sat, 06 Jan 2024 23:59:59 -0000",
               "Thu, 29 Feb 2024 23:59:59 -0000", "Fri, 30 Feb 2024 10:00:00 +0000", "Fri, 05 Jan 2024 24:00:00 +0000",
               "Fri, 05 Jan 2024 10:00:00 +2400", "Fri, 05 Jan 2024 10:00:00 -2359", "Fri, 05 Jan 2024 10:00:00 +0075",
               "Fri, 05 Jan 2024 10:00:60 +0000", "Fri, 00 Jan 2024 10:00:00 +0000", "Wed, 01 Jan 0069 01:02:03 +0100",
               "Sun, 01 Jan 0068 01:02:03 -0000", "5 Jan 2024 10:00 EST", "Fri, 05 Jan 2024 10:00:00 -0000 (UTC)",
               "Fri, 05 Jan 2024 10:00:00 XYZ", "Fri, 05 Jan 2024 10:00:00", "not a date", "Fri, 05 Jan 2024 10:00:00 -0000 ",
               " Fri, 05 Jan 2024 10:00:00 -0000", "=?utf-8?q?Fri=2C_05_Jan_2024_10=3A00=3A00_-0000?="]


def _corr_date(ctx, broken):
    """the Date pipeline of the running parse_email_message against S2T.MailDate: `isoOfHeader` on canonical headers
    (the whole pipeline in the model), `ofTuple` on every header (the stdlib tokenizer's tuple being the input)"""
    M, _ = _lib()
    rng = ctx.rng
    hdrs = list(_DATE_FIXED)
    for _ in range(ctx.n(600, 8000)):
        hdrs.append(gen_date_header(rng, exotic=rng.random() < 0.5)[0])
    for _ in range(ctx.n(150, 2000)):      # canonical shape, arbitrary digits: out-of-range fields and zones
        hdrs.append("%s, %02d %s %04d %02d:%02d:%02d %s%02d%02d" % (
            rng.choice(_DOW), rng.choice([0, 1, 28, 29, 30, 31, 32, rng.randint(0, 99)]), rng.choice(_MON),
            rng.choice([0, 68, 69, 99, 100, 1900, 2023, 2024, 2100, 9999, rng.randint(0, 9999)]), rng.choice([0, 23, 24, rng.randint(0, 99)]),
            rng.choice([0, 59, 60, rng.randint(0, 99)]), rng.choice([0, 59, 60, 61, rng.randint(0, 99)]), rng.choice("+-"),
            rng.choice([0, 0, 14, 23, 24, rng.randint(0, 99)]), rng.choice([0, 0, 30, 59, 60, 99, rng.randint(0, 99)])))
    reqs, impls = [], []
    for hdr in hdrs:
        msg = email.message_from_bytes(("From: a@b.c\nDate: " + hdr + "\n\nx\n").encode("ascii"))
        try:
            got = M.parse_email_message(msg).metadata.date
        except ValueError:
            got = "RAISED ValueError"
        except Exception as exc:
            got = "RAISED " + type(exc).__name__
        value = M.decode_header_value(msg.get("Date"))
        tup = email.utils._parsedate_tz(value)
        reqs.append({"op": "c16.date", "hdr": hdr})
        impls.append(("isoOfHeader", hdr, got))
        if tup is None:
            ctx.count("date/tokenizer-refuses")
            if got != "RAISED ValueError":
                broken.append(Broken("correspondence", "c16.date", f"Date: {hdr!r}: the stdlib refuses the value, impl={got!r}",
                                     case={"kind": "date", "hdr": hdr}))
        else:
            reqs.append({"op": "c16.datetuple", "f": [max(0, int(x)) for x in tup[:6]], "tz": tup[9]})
            impls.append(("ofTuple", hdr, got))
    outs = ctx.drive(reqs)
    bad = 0
    for (what, hdr, got), o in zip(impls, outs):
        if o.get("noncanonical"):
            ctx.count("date/noncanonical")
            continue
        ctx.case(("date", what, hdr), nontrivial=True)
        model = _txt(o["iso"]) if "iso" in o else "RAISED ValueError" if "err" in o else repr(o)
        ctx.count(f"date/{what}/" + ("raises" if "err" in o else "naive" if len(model) == 19 else "aware"))
        if model != got:
            bad += 1
            if bad <= 6:
                broken.append(Broken("correspondence", "c16.date", f"{what}: Date: {hdr!r} impl={got!r} model={model!r} {o.get('err', '')}",
                                     case={"kind": "date", "hdr": hdr}))


def _content_key(e):
    """every field of an EmailContent the statement names, as comparable data"""
    pr = lambda l: [(a.name, a.address) for a in l]  # noqa: E731
    return {"subject": e.subject, "from": (e.from_email.name, e.from_email.address), "to": pr(e.to_emails), "cc": pr(e.to_cc),
            "bcc": pr(e.to_bcc), "reply_to": pr(e.reply_to), "date": e.metadata.date, "message_id": e.metadata.message_id,
            "plain": e.body_plain, "html": e.body_html,
            "atts": [(a.filename, a.mime_type, a.data.getvalue(), bool(a.is_supported_mime_type)) for a in e.attachments]}


def _corr_reader(ctx, mboxes, broken):
    """read_mbox_format_mail as a whole against the model: the i-th result is parse_email_message of the i-th message of
    the MODEL's split (Lean `splitMbox`, through the driver) — the reader is `map parse ∘ split` (C16_mbox_reader_count),
    nothing skipped, repeated, reordered, merged or carried over from an earlier message of the same mailbox or an
    earlier call (each mailbox is read twice, the second time after the others)."""
    M, _ = _lib()
    reqs = [{"op": "c16.split", "data": _l1(d)} for d in mboxes]
    outs = ctx.drive(reqs)
    bad = 0
    second = []
    for d, o in zip(mboxes, outs):
        if "drv_error" in o:
            broken.append(Broken("correspondence", "driver", o["drv_error"], case={"data": _l1(d)}))
            continue
        msgs = [_txt(m).encode("latin-1") for m in o["msgs"]]
        ctx.case(("reader", d), nontrivial=len(msgs) > 1)
        ctx.count("reader/msgs=%d" % min(len(msgs), 5))
        try:
            got = [_content_key(e) for e in M.read_mbox_format_mail(io.BytesIO(d))]
            want = [_content_key(M.parse_email_message(email.message_from_bytes(m))) for m in msgs]
        except Exception as exc:
            ctx.count("reader/raised:" + type(exc).__name__)
            continue
        second.append((d, got))
        if got != want:
            bad += 1
            if bad <= 4:
                i = next((k for k, (a, b) in enumerate(zip(got, want)) if a != b), min(len(got), len(want)))
                broken.append(Broken("correspondence", "c16.reader", f"read_mbox_format_mail yields {len(got)} results, the model's split has {len(msgs)} "
                                     f"messages; first difference at message {i}: impl={got[i] if i < len(got) else None!r:.300} "
                                     f"parse(split[i])={want[i] if i < len(want) else None!r:.300}", case={"kind": "mbox-raw", "data": _l1(d)}))
    for d, got in second[:: max(1, len(second) // 40)]:       # a second reading, after all the others, gives the same
        try:
            again = [_content_key(e) for e in M.read_mbox_format_mail(io.BytesIO(d))]
        except Exception as exc:
            again = repr(exc)
        if again != got:
            broken.append(Broken("correspondence", "c16.reader", "a second read_mbox_format_mail of the same bytes, later in the same process, gives another result",
                                 case={"kind": "mbox-raw", "data": _l1(d)}))
            break
    return bad


# ============================================================================= run.py interface
def _streams(ctx, n_msg, n_mbox):
    rng = ctx.rng
    singles = []
    for _ in range(n_msg):
        if rng.random() < 0.2:      # a message written with CRLF line ends throughout
            raw, t = mailgen.gen_message(rng, crlf=True)
            t["notes"]["crlf"] = True
            singles.append((raw.replace(b"\r\n", b"\n").replace(b"\n", b"\r\n"), t))
        else:
            singles.append(mailgen.gen_message(rng))
    mboxes = []
    # one message per charset with its complete repertoire in the body (as .eml and as a one-message mbox)
    for cs, _ in mailgen.CHARSETS:
        raw, t = mailgen.gen_repertoire_message(rng, cs)
        singles.append((raw, t))
        mboxes.append((False, b"From rep@example.com Mon Jan  1 10:00:00 2024\n" + raw + b"\n", [t]))
    for _ in range(n_mbox):
        crlf = rng.random() < 0.4
        mboxes.append((crlf,) + mailgen.gen_mbox(rng, rng.choice([0, 1, 1, 2, 3, 5]), crlf=crlf))
    # Date headers: 45% of the messages get another Date header (every kind of zone: -0000, +0000, names, odd minutes;
    # optional / obsolete forms, folded) with its own ground truth
    singles = [(_redate(rng, raw, t)[0], t) if rng.random() < 0.45 else (raw, t) for raw, t in singles]
    redated = []
    for crlf, data, truths in mboxes:
        pos = 0
        prev = None
        for t in truths:
            if rng.random() < 0.45:
                data, pos = _redate(rng, data, t, pos, same_as=prev if rng.random() < 0.4 else None)
                prev = t.get("date_iso")
            else:       # step over this message's own Date header (a Message-ID may be absent or shared in a mailbox)
                own = b"Date: " + email.utils.format_datetime(dt.datetime.fromisoformat(t["when"])).encode("ascii")
                i = data.find(own, pos)
                pos = i + len(own) if i >= 0 else pos
        redated.append((crlf, data, truths))
    return singles, redated


def _truth_pass(ctx, singles, mboxes, out, seen):
    for raw, t in singles:
        ctx.case(("truth-eml", raw))
        ctx.count("truth/eml/" + t["notes"]["shape"] + ("/crlf" if t["notes"].get("crlf") else ""))
        _violations(oracle_eml(raw, t), {"kind": "eml", "raw": _l1(raw), "truth": _truth_json(t)}, out, seen)
    for crlf, data, truths in mboxes:
        ctx.case(("truth-mbox", data))
        ctx.count(f"truth/mbox/{'crlf' if crlf else 'lf'}/n={len(truths)}")
        _violations(oracle_mbox(data, truths), {"kind": "mbox", "data": _l1(data), "truths": [_truth_json(t) for t in truths]}, out, seen)


def correspondence(ctx):
    broken, violations = [], []
    rng = ctx.rng
    singles, mboxes = _streams(ctx, ctx.n(500, 8000), ctx.n(200, 3000))
    if singles:
        ctx.sample({"message": _l1(singles[0][0])[:1200], "truth": {k: v for k, v in _truth_json(singles[0][1]).items() if k != "attachments"}})
    # 1. separator matcher and splitter
    _corr_sep(ctx, broken)
    datas = [("generated-crlf" if crlf else "generated-lf", d) for crlf, d, _ in mboxes if len(d) < 60000]
    for crlf, d, _ in mboxes[: ctx.n(150, 2000)]:
        if d:   # damage a well-formed mbox: cut, drop a byte, un-quote a From_ line, glue lines
            k = rng.randrange(4)
            i = rng.randrange(len(d))
            datas.append(("damaged", [d[:i], d[:i] + d[i + 1:], d.replace(b"\n>From ", b"\nFrom ", 1), d.replace(b"\n", b"", 1)][k]))
    for _ in range(ctx.n(150, 4000)):
        datas.append(("soup", _soup(rng, rng.randint(0, 40))))
    for _ in range(ctx.n(500, 12000)):
        datas.append(("line-soup", _line_soup(rng, rng.randint(0, 9))))
    _corr_split(ctx, datas, broken)
    # 1b. the reader as a whole = map parse over the model's split
    _corr_reader(ctx, [d for _, d, _ in mboxes if len(d) < 200000][: ctx.n(200, 3000)], broken)
    # 2. MIME walk: bodies + attachments of the mbox extractor on the stdlib-parsed tree
    plain_singles = [(raw, t) for raw, t in singles if t["notes"]["shape"] != "repertoire"]
    raws = [("generated", raw) for raw, _ in plain_singles]
    raws += [("mutated", _mutate_mime(rng, raw)) for raw, _ in plain_singles[: ctx.n(400, 6000)]]
    _corr_trees(ctx, raws, broken)
    _corr_addr(ctx, raws[: ctx.n(120, 2000)], broken)
    # 3. attachment routing, 4. eml mapping
    _corr_route(ctx, broken)
    _corr_eml_mapping(ctx, broken)
    # 4b. text steps: strip / unfolding / Subject pipeline, single-byte codecs over all 256 byte values
    _corr_text(ctx, broken)
    _corr_decode(ctx, broken)
    # 4c. the Date pipeline
    _corr_date(ctx, broken)
    # 5. ground truth (the property statement itself) on both extractors
    seen = set()
    _truth_pass(ctx, singles, mboxes, violations, seen)
    ctx.coverage["broken_correspondence"] = len(broken)
    return {"broken": broken, "violations": violations}


def _witnesses():
    """(key, kind, bytes, truth) for the open known findings — minimal hand-written inputs"""
    base = {"subject": "s", "from_": ("", "a@b.c"), "to": [("", "x@y.z")], "cc": [], "bcc": [], "reply_to": [],
            "when": "2024-01-01T10:00:00+00:00", "message_id": "<m@x>", "html": "", "notes": {"shape": "witness"}}
    hdr = b"From: a@b.c\nTo: x@y.z\nSubject: s\nDate: Mon, 01 Jan 2024 10:00:00 +0000\nMessage-ID: <m@x>\n"
    folded = (b"From: a@b.c\nTo: \"Doe,\n John\" <j@x.io>\nSubject: s\nDate: Mon, 01 Jan 2024 10:00:00 +0000\nMessage-ID: <m@x>\n\nbody\n")
    t_folded = dict(base, to=[("Doe, John", "j@x.io")], plain="body", attachments=[])
    inner = b"Subject: inner\nFrom: i@b.c\nDate: Mon, 01 Jan 2024 09:00:00 +0000\nContent-Type: text/plain\n\ninner text\n"
    leak = (hdr + b"MIME-Version: 1.0\nContent-Type: multipart/mixed; boundary=\"B\"\n\n--B\nContent-Type: text/plain\n\nouter text\n"
            b"--B\nContent-Type: message/rfc822\nContent-Disposition: attachment; filename=\"fwd.eml\"\n\n" + inner + b"\n--B--\n")
    t_leak = dict(base, plain="outer text", attachments=[("fwd.eml", "message/rfc822", inner)], notes={"shape": "witness", "attached_message": True})
    single = hdr + b"MIME-Version: 1.0\nContent-Type: text/csv\nContent-Disposition: attachment; filename=\"d.csv\"\n\na,b\n"
    t_single = dict(base, plain="", attachments=[("d.csv", "text/csv", b"a,b\n")], notes={"shape": "single-attachment"})
    # text that is not in normalisation form C: compatibility ideograph, angstrom sign, decomposed e-acute
    odd = "\uf966 \u212b e\u0301"
    nfc = ("From: a@b.c\nTo: x@y.z\nSubject: =?utf-8?B?%s?=\nDate: Mon, 01 Jan 2024 10:00:00 +0000\nMessage-ID: <m@x>\n"
           "Content-Type: text/plain; charset=utf-8\nContent-Transfer-Encoding: 8bit\n\n" % base64.b64encode(odd.encode()).decode()
           ).encode() + odd.encode() + b"\n"
    t_nfc = dict(base, subject=odd, plain=odd, attachments=[])
    return [
        (KNOWN_NFC, "eml", nfc, t_nfc),
        (KNOWN_FOLDED, "eml", folded, t_folded),
        (KNOWN_FOLDED, "eml", folded.replace(b"\n", b"\r\n"), t_folded),
        (KNOWN_LEAK, "eml", leak, t_leak),
        (KNOWN_TRAILING, "mbox", b"From a@b.c Mon Jan  1 10:00:00 2024\n" + single + b"\n", t_single),
    ]


def known_witnesses(ctx):
    out, seen = [], set()
    for key, kind, data, t in _witnesses():
        if kind == "eml":
            found = oracle_eml(data, t)
            rep = {"kind": "eml", "raw": _l1(data), "truth": _truth_json(t)}
        else:
            found = oracle_mbox(data, [t])
            rep = {"kind": "mbox", "data": _l1(data), "truths": [_truth_json(t)]}
        if not any(k == key for k, _ in found):
            ctx.notes.append(f"witness of known finding {key} no longer fails by that mechanism — the finding can be closed")
        _violations(found, rep, out, seen)
    # the mbox side of two of them is fixed in the library: the same inputs must hold there
    for key, kind, data, t in _witnesses():
        if kind == "eml" and key in (KNOWN_FOLDED, KNOWN_LEAK, KNOWN_NFC):
            mb = b"From a@b.c Mon Jan  1 10:00:00 2024\n" + data + b"\n"
            t2 = dict(t)
            for k2, what in oracle_mbox(mb, [t2]):
                k3 = "mbox." + key.split(".", 1)[1]
                if k3 not in seen:
                    seen.add(k3)
                    out.append(Violation(k3, what, {"kind": "mbox", "data": _l1(mb), "truths": [_truth_json(t2)]}))
    return out


def search(ctx, broken):
    """the property statement on the real code: the inputs of the broken cases first, then a fresh stream"""
    out, seen = [], set()
    M, _ = _lib()
    for b in broken:
        c = b.case or {}
        if c.get("kind") == "split" and "data" in c:
            # split-level oracle: a well-formed mbox around the disagreeing bytes is not available; check the
            # boundaries directly against the format definition (a separator is a From_ line as written by mailgen)
            data = c["data"].encode("latin-1")
            want = _reference_split(data)
            try:
                got = M._split_mbox_messages(data)
            except Exception as exc:
                got = repr(exc)
            if got != want:
                _violations([("mbox.split", f"_split_mbox_messages({data!r:.200}) = {got!r:.300}, by the separator rule {want!r:.300}")],
                            {"kind": "split", "data": c["data"]}, out, seen)
    for b in broken:
        c = b.case or {}
        if c.get("kind") == "date":
            iso = _ref_canonical_date(c["hdr"])
            if iso is not None:     # a valid canonical RFC 5322 date: its ground truth is known without the model
                data, t = _date_witness(c["hdr"], iso)
                _violations(oracle_mbox(data, [t]), {"kind": "mbox", "data": _l1(data), "truths": [_truth_json(t)]}, out, seen)
    singles, mboxes = _streams(ctx, ctx.n(300, 3000), ctx.n(150, 1500))
    # boundaries by the separator rule, on well-formed and on arbitrary line sequences
    for data in [d for _, d, _ in mboxes] + [_line_soup(ctx.rng, ctx.rng.randint(0, 9)) for _ in range(ctx.n(1500, 20000))]:
        want = _reference_split(data)
        try:
            got = M._split_mbox_messages(data)
        except Exception as exc:
            got = repr(exc)
        if got != want:
            _violations([("mbox.split", f"_split_mbox_messages({data!r:.200}) = {got!r:.300}, by the separator rule {want!r:.300}")],
                        {"kind": "split", "data": _l1(data)}, out, seen)
            break
    _truth_pass(ctx, singles, mboxes, out, seen)
    out += [v for v in known_witnesses(ctx) if v.key not in seen and not v.key.startswith("eml.")]
    return out


def _reference_split(data: bytes):
    """mbox boundaries by the format rule the statement names, written independently of `re`:
    a separator is a complete line `From␠<non-space>…<4 digits>[\\r]\\n`."""
    ws = b" \t\n\r\x0b\x0c"
    lines = data.split(b"\n")
    lines = [l + b"\n" for l in lines[:-1]] + ([lines[-1]] if lines[-1] else [])
    msgs, cur = [], None
    for l in lines:
        body = l[:-1] if l.endswith(b"\n") else None
        is_sep = False
        if body is not None and body.startswith(b"From "):
            if body.endswith(b"\r"):
                body = body[:-1]
            rest = body[5:]
            is_sep = len(rest) >= 5 and rest[:1] not in [bytes([c]) for c in ws] and rest[-4:].isdigit() and all(48 <= c <= 57 for c in rest[-4:])
        if is_sep:
            if cur is not None:
                msgs.append(cur)
            cur = b""
        elif cur is not None:
            cur += l
    if cur is not None:
        msgs.append(cur)
    return [m.rstrip(b"\r\n") for m in msgs if m.rstrip(b"\r\n")]


def replay(ctx, payload):
    rep = payload.get("replay", {})
    kind = rep.get("kind")
    if kind == "eml":
        found = oracle_eml(rep["raw"].encode("latin-1"), _truth_from_json(rep["truth"]))
    elif kind == "mbox":
        found = oracle_mbox(rep["data"].encode("latin-1"), [_truth_from_json(t) for t in rep["truths"]])
    elif kind == "split":
        M, _ = _lib()
        data = rep["data"].encode("latin-1")
        got, want = M._split_mbox_messages(data), _reference_split(data)
        found = [] if got == want else [("mbox.split", f"got {got!r} want {want!r}")]
    else:
        return False, "replay names a broken obligation, not an input: " + payload.get("what", "")
    # failures that are exactly an open known finding are named, but do not make the replay fail
    from run import load_known
    known = {k["key"] for k in load_known() if k.get("property") == "C16" and k.get("status", "open") == "open"}
    real = [w for k, w in found if k not in known]
    msg = "; ".join(w for _, w in found if _ not in known)
    kn = sorted({k for k, _ in found if k in known})
    if kn:
        msg = (msg + " " if msg else "") + "(open known finding on this input: " + ", ".join(kn) + ")"
    return (not real), msg or "property holds on the recorded input"
