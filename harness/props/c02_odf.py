"""C02 (part 'odf') — main-text fidelity for the OpenDocument family (ODT, ODP, ODS, ODG, ODF) and the
legacy / plain family (RTF, PPT text cleaning, XLS sheet formatting, plain text, unit joins).

Correspondence: abstract documents are generated here (all randomness from ctx.rng), sent to the Lean driver, which
renders them with the renderer the theorems are about (S2T.Spec.C02OdfDoc) and answers with the rendered tree /
RTF text, the model's full text and the spec's body tokens.  The harness packages the rendered tree into a real ODF
zip (or writes the RTF bytes), runs the REAL extractor end to end and compares get_full_text() with the model text.
A second, malformed stream feeds arbitrary element trees / arbitrary RTF character soup to both sides.

Oracle (search): the property statement itself on the real code: the whitespace-separated tokens of get_full_text()
must equal the document's body tokens (computed here, in Python, from the abstract document - not from the Lean
model): same multiplicity, same order, nothing merged, nothing excluded leaking, nothing invented.
"""
from __future__ import annotations

import io
import json
import re

from run import Broken, Violation
from builders.c02_odf_zip import NS, content_doc, node, package, q, serialize

GEN = ["C02Odf"]
RULE = ("ODT/ODG documents = trees of paragraphs / headings / containers (lists, items, tables, header rows, rows, cells, "
        "sections, frames, text boxes, tracked-changes store) in arbitrary nesting (depth <= 4) with inline runs (text "
        "incl. non-ASCII and inner whitespace, text:s counts 0..4, tabs, line breaks, spans, links, notes, annotations, "
        "bookmarks); ODP = slides of positioned text boxes with Title/Body/other paragraph styles + speaker notes; ODS = "
        "sheets of rows/cells with row/column repeats and cell comments; RTF = paragraphs of escaped text (ASCII specials, "
        "BMP and astral characters), tabs, line breaks, formatting words, groups, ignorable destinations, fields, "
        "header/footer/info/font table; plus malformed streams: arbitrary element trees over the ODF vocabulary with "
        "hostile attribute values, arbitrary RTF fragment soup, PPT text with control characters, ragged XLS rows, "
        "whitespace-padded plain text.  distinct = distinct (format, rendered input); non-trivial = the input carries at "
        "least one token")
ASSUMPTIONS = [
    "zipfile / defusedxml / ElementTree deliver the element tree that was written (the model starts at the tree)",
    "int() is modelled for ASCII digits only (other Unicode decimal digits in text:c / repeat attributes are never generated)",
    "ODP frame order: the model compares exact rationals, the code binary floats; generated positions never differ by less than 1e-6 unless equal",
    "ODS office:value strings that float() maps to +-inf (OverflowError in int()) are never generated",
    "ODF formula: only content without MathML elements is modelled (StarMath / MathML rendering is outside this part)",
    "RTF: the regex pre-pass _DEST_PATTERNS, _decode_rtf and the '{\\rtf' check are outside the model; they are exercised "
    "end to end on rendered documents only (where the pre-pass removes only groups the machine skips anyway)",
    "PPT / XLS / DOC / PDF / e-mail: OLE2/BIFF/PDF/MIME parsing is third-party or C03's; only _clean_text, "
    "_format_sheet_as_text and the strip/join layer are modelled here, called directly on strings",
    "plain text: charset_normalizer's decoding is assumed; the model starts at the decoded string",
]
TRUSTED = ["harness/builders/c02_odf_zip.py (ODF package writer)",
           "S2T/Spec/C02OdfDoc.lean renderers (used both by the theorems and, through the driver, by this correspondence)"]

KNOWN_KEYS = {
    "odt.paragraph-anchored-textbox-merged",
    "rtf.u-prefixed-control-word-leak",
    "rtf.unicode-fallback-not-skipped",
    "rtf.hex-escape-not-codepage",
    "rtf.tracked-deletion-leak",
    "rtf.escaped-brace-breaks-destination-removal",
    "odp.shape-text-outside-frames-dropped",
    "ods.header-rows-dropped",
}

# ----------------------------------------------------------------------------- token / text generation
_EXTRA = ["é", "ß", "Ω", "日", "😀", "ñ", "ž", "-", "_", "'", "&", "<", ">", '"']
_WSX = [" ", "  ", " ", " ", " ", " "]


class TokGen:
    def __init__(self, rng):
        self.rng, self.n = rng, 0

    def tok(self, cls: str, extra=True) -> str:
        self.n += 1
        t = f"{cls}{self.n}"
        r = self.rng.random()
        if extra and r < 0.25:
            t += self.rng.choice(_EXTRA)
        t += self.rng.choice("xyzw")
        return t

    def text(self, cls: str, extra=True) -> str:
        k = self.rng.choice([1, 1, 1, 2, 3])
        s = ""
        for i in range(k):
            if i:
                s += self.rng.choice(_WSX)
            s += self.tok(cls, extra)
        if self.rng.random() < 0.15:
            s = " " + s
        if self.rng.random() < 0.15:
            s = s + " "
        return s


def gen_inls(tg: TokGen, cls: str, depth: int, notes=True, annots=True, maxn=4) -> list:
    rng = tg.rng
    out = []
    for _ in range(rng.randint(0 if depth else 1, maxn)):
        r = rng.random()
        if r < 0.5 or depth >= 3:
            out.append({"k": "t", "s": tg.text(cls)})
        elif r < 0.58:
            out.append({"k": "sp", "n": rng.choice([1, 1, 2, 3, 4, 0, 12])})
        elif r < 0.64:
            out.append({"k": "tab"})
        elif r < 0.70:
            out.append({"k": "br"})
        elif r < 0.78:
            out.append({"k": "span", "c": gen_inls(tg, cls, depth + 1, notes, annots, 3)})
        elif r < 0.84:
            out.append({"k": "a", "h": "http://example.org/" + str(rng.randint(0, 99)), "c": gen_inls(tg, cls, depth + 1, notes, annots, 2)})
        elif r < 0.90 and notes:
            out.append({"k": "note", "e": rng.random() < 0.3, "cit": tg.tok("q", False), "c": gen_inls(tg, "n", depth + 1, False, False, 2)})
        elif r < 0.95 and annots:
            out.append({"k": "ann", "cr": tg.tok("r", False), "c": gen_inls(tg, "a", depth + 1, False, False, 2)})
        else:
            out.append({"k": "bm", "n": "bm" + str(rng.randint(0, 9))})
    return out


def gen_blks(tg: TokGen, depth: int, odg=False, maxn=4, cls="b") -> list:
    rng = tg.rng
    out = []
    for _ in range(rng.randint(1, maxn)):
        r = rng.random()
        if r < 0.5 or depth >= 4:
            if rng.random() < 0.08:
                out.append({"k": "p", "st": "P1", "c": [] if rng.random() < 0.5 else [{"k": "sp", "n": 2}]})
            else:
                out.append({"k": "p", "st": rng.choice(["P1", "Standard", "Table_20_Contents", "Text_20_body"]),
                            "c": gen_inls(tg, cls, 0, notes=not odg)})
        elif r < 0.60:
            out.append({"k": "h", "lv": rng.randint(1, 4), "c": gen_inls(tg, cls, 0, notes=not odg, maxn=2)})
        elif r < 0.72:
            items = [{"k": "c", "t": "item", "c": gen_blks(tg, depth + 2, odg, 2, cls)} for _ in range(rng.randint(1, 3))]
            out.append({"k": "c", "t": "list", "c": items})
        elif r < 0.84 and not odg:
            rows = []
            for _ in range(rng.randint(1, 3)):
                cells = [{"k": "c", "t": "cell", "c": gen_blks(tg, depth + 3, odg, 2, cls)} for _ in range(rng.randint(1, 3))]
                rows.append({"k": "c", "t": "row", "c": cells})
            if rng.random() < 0.25:
                rows = [{"k": "c", "t": "hrows", "c": rows[:1]}] + rows[1:]
            out.append({"k": "c", "t": "table", "c": rows})
        elif r < 0.90:
            out.append({"k": "c", "t": "section" if not odg else "group", "c": gen_blks(tg, depth + 1, odg, 3, cls)})
        else:
            inner = {"k": "c", "t": "textbox", "c": gen_blks(tg, depth + 2, odg, 2, cls)}
            out.append({"k": "c", "t": "frame" if rng.random() < 0.7 or not odg else "shape",
                        "c": [inner] if rng.random() < 0.8 or not odg else inner["c"]})
    return out


def gen_odt_doc(tg: TokGen) -> list:
    rng = tg.rng
    d = gen_blks(tg, 0)
    if rng.random() < 0.3:
        regions = [{"k": "c", "t": "region", "c": [{"k": "c", "t": "deletion", "c": gen_blks(tg, 3, False, 2, "d")}]}
                   for _ in range(rng.randint(1, 2))]
        d = [{"k": "c", "t": "tracked", "c": regions}] + d
    return d


def gen_odg_doc(tg: TokGen) -> list:
    pages = []
    for _ in range(tg.rng.randint(1, 3)):
        kids = gen_blks(tg, 1, True, 3)
        if tg.rng.random() < 0.3:  # a comment on the page
            kids.insert(tg.rng.randint(0, len(kids)), {"k": "ann", "cr": tg.tok("r", False), "c": gen_inls(tg, "a", 1, False, False, 2)})
        pages.append({"k": "c", "t": "page", "c": kids})
    return pages


# ---- python-side semantics of the abstract documents (independent of the Lean model: used by the oracle only)
def py_visible(inls) -> str:
    out = []
    for i in inls:
        k = i["k"]
        if k == "t":
            out.append(i["s"])
        elif k == "sp":
            out.append(" " * i["n"])
        elif k == "tab":
            out.append("\t")
        elif k == "br":
            out.append("\n")
        elif k in ("span", "a"):
            out.append(py_visible(i["c"]))
    return "".join(out)


def py_excl_inl(inls) -> list:
    out = []
    for i in inls:
        k = i["k"]
        if k in ("span", "a"):
            out += py_excl_inl(i["c"])
        elif k == "note":
            out += [i["cit"], py_visible(i["c"])]
        elif k == "ann":
            out += [i["cr"], py_visible(i["c"])]
    return out


def py_body_texts(blks, all_=False) -> list:
    out = []
    for b in blks:
        if b["k"] in ("p", "h"):
            out.append(py_visible(b["c"]))
        elif b["k"] == "ann":
            pass
        elif b["t"] == "tracked" and not all_:
            pass
        else:
            out += py_body_texts(b["c"], all_)
    return out


def py_excl_texts(blks) -> list:
    out = []
    for b in blks:
        if b["k"] in ("p", "h"):
            out += py_excl_inl(b["c"])
        elif b["k"] == "ann":
            out += [b["cr"], py_visible(b["c"])] + py_excl_inl(b["c"])
        else:
            if b["t"] == "tracked":
                out += py_body_texts(b["c"], True)
            out += py_excl_texts(b["c"])
    return out


def toks(texts) -> list:
    return [t for s in texts for t in s.split()]


# ----------------------------------------------------------------------------- diagnosis (shared by all formats)
def diagnose(fmt: str, expected: list, actual: list, excluded: list):
    """None if `actual` == `expected`; else (kind, message) naming the first discrepancy in the property's words."""
    if actual == expected:
        return None
    exp_set, act_set = set(expected), set(actual)
    excl = set(excluded) - exp_set
    leaked = [t for t in actual if t in excl]
    if leaked:
        return "leaked", f"excluded text {leaked[0]!r} appears in get_full_text()"
    from collections import Counter
    ce, ca = Counter(expected), Counter(actual)
    for t in expected:
        if ca[t] > ce[t]:
            return "duplicated", f"token {t!r} occurs {ca[t]}x in get_full_text(), {ce[t]}x in the source"
    for t in actual:
        if t not in exp_set:
            parts = [e for e in expected if e in t and e != t]
            if len(parts) >= 2 or (parts and len(t) > len(parts[0])):
                lost_sep = [e for e in parts if e not in act_set]
                if len(lost_sep) >= 2:
                    return "merged", f"tokens {lost_sep[:3]} that the source separates come out merged as {t!r}"
    for t in expected:
        if ca[t] < ce[t]:
            return "lost", f"token {t!r} occurs {ce[t]}x in the source but {ca[t]}x in get_full_text()"
    for t in actual:
        if t not in exp_set:
            return "invented", f"get_full_text() contains {t!r}, which is neither source text nor documented decoration"
    return "reordered", f"tokens come out in a different order: expected {expected[:8]}..., got {actual[:8]}..."


# ----------------------------------------------------------------------------- real side
def _quiet():
    import logging
    logging.disable(logging.CRITICAL)


def hf_styles(tg: TokGen):
    """styles.xml with a master page carrying header/footer paragraphs (class 'h' tokens)"""
    hdr, ftr = tg.text("h"), tg.text("h")
    mp = node(q("style", "master-page"), [(q("style", "name"), "Standard")], kids=[
        node(q("style", "header"), kids=[node(q("text", "p"), text=hdr)]),
        node(q("style", "footer"), kids=[node(q("text", "p"), text=ftr)])])
    root = node(q("office", "document-styles"), kids=[node(q("office", "master-styles"), kids=[mp])])
    return serialize(root), [hdr, ftr]


def meta_xml(title: str) -> str:
    root = node(q("office", "document-meta"), kids=[node(q("office", "meta"), kids=[node(q("dc", "title"), text=title)])])
    return serialize(root)


def real_odf(fmt: str, body_tree: dict, styles=None, meta=None, whole=False):
    """get_full_text() of the real extractor on a package whose content.xml holds `body_tree` under office:body
    (`whole`: body_tree is the complete content root). Returns ('ok', text) or ('err', class name)."""
    _quiet()
    from sharepoint2text.parsing.extractors import open_office as OO
    reader = {"odt": OO.read_odt, "odp": OO.read_odp, "ods": OO.read_ods, "odg": OO.read_odg, "odf": OO.read_odf}[fmt]
    content = serialize(body_tree if whole else content_doc(fmt, body_tree))
    data = package(fmt, content, styles, meta)
    try:
        res = next(reader(io.BytesIO(data)))
        return "ok", res.get_full_text()
    except Exception as e:
        cause = getattr(e, "__cause__", None)
        return "err", type(cause).__name__ if cause is not None else type(e).__name__


def real_rtf_bytes(data: bytes):
    _quiet()
    from sharepoint2text.parsing.extractors.ms_legacy.rtf_extractor import read_rtf
    return next(read_rtf(io.BytesIO(data))).get_full_text()


def codes(s: str) -> list:
    return [ord(c) for c in s]


# ----------------------------------------------------------------------------- malformed ODF trees
_T = lambda l: q("text", l)  # noqa: E731
ODT_TAGS = [_T("p"), _T("p"), _T("p"), _T("h"), _T("span"), _T("span"), _T("a"), _T("s"), _T("s"), _T("tab"), _T("line-break"),
            _T("note"), q("office", "annotation"), q("table", "table"), q("table", "table-row"), q("table", "table-cell"),
            q("table", "table-header-rows"), q("table", "covered-table-cell"), _T("list"), _T("list-item"), _T("list-header"),
            _T("tracked-changes"), _T("changed-region"), _T("deletion"), q("draw", "frame"), q("draw", "text-box"),
            _T("section"), _T("note-body"), _T("note-citation"), _T("soft-page-break"), "{urn:x}y", _T("sequence"),
            q("draw", "custom-shape"), q("draw", "page"), q("draw", "g")]
C_VALUES = ["1", "2", "3", "0", "-1", "x", "", " 2 ", "+2", "1_0", "2.0", "007", "\t3\n", "--1", "_1", "1_", "10"]


def rnd_text(rng, tg, p=0.5):
    if rng.random() > p:
        return ""
    return rng.choice(["", " ", "\n  ", "\t"]) + tg.text("m") + rng.choice(["", " ", "\n"])


def gen_tree(rng, tg, tags, depth, attrs_for=None) -> dict:
    tag = rng.choice(tags)
    attrs = []
    if tag == _T("s") and rng.random() < 0.8:
        attrs.append((q("text", "c"), rng.choice(C_VALUES)))
    if attrs_for:
        attrs += attrs_for(rng, tag)
    kids = []
    if depth < 5 and tag not in (_T("s"), _T("tab"), _T("line-break")) or rng.random() < 0.1:
        for _ in range(rng.choice([0, 1, 1, 2, 2, 3, 4]) if depth < 5 else 0):
            kids.append(gen_tree(rng, tg, tags, depth + 1, attrs_for))
    return node(tag, attrs, rnd_text(rng, tg), rnd_text(rng, tg, 0.35), kids)


def odp_attrs(rng, tag):
    out = []
    if tag == q("draw", "frame"):
        unit = rng.choice(["cm", "cm", "in", "mm", "pt", "pc", "px", "", "CM", " cm", "em"])
        for a in ("x", "y"):
            if rng.random() < 0.85:
                v = rng.choice(["0", "1", "2", "2", "3", "10", "1.5", "2.25", "12.7", "07"])
                out.append((q("svg", a), rng.choice([v + unit, v + unit, v + unit, " " + v + unit + " ", "abc", "", "-1cm", ".5cm", "5.cm", "1e3cm"])))
    if tag == _T("p") and rng.random() < 0.7:
        out.append((q("text", "style-name"), rng.choice(["Title", "TitleText", "P1", "BodyText", "Body_1", "MyTitle2", "body", "title", "Text_Body", ""])))
    return out


ODP_TAGS = [q("draw", "frame")] * 4 + [q("draw", "text-box")] * 3 + [_T("p")] * 5 + [_T("span"), _T("s"), _T("tab"), _T("line-break"),
            q("office", "annotation"), _T("list"), _T("list-item"), q("presentation", "notes"), q("draw", "custom-shape"),
            q("table", "table"), q("draw", "image"), _T("h")]

REP_VALUES = ["1", "2", "3", "101", "150", "0", "-1", "x", "", " 2 ", "100", "+3"]


def ods_attrs(rng, tag):
    out = []
    if tag == q("table", "table-cell"):
        if rng.random() < 0.3:
            out.append((q("table", "number-columns-repeated"), rng.choice(REP_VALUES)))
        r = rng.random()
        if r < 0.2:
            out += [(q("office", "value-type"), rng.choice(["float", "currency", "percentage"])),
                    (q("office", "value"), rng.choice(["1", "1.5", "", "abc", "nan", "-3", "2e3", "0.10"]))]
        elif r < 0.3:
            out += [(q("office", "value-type"), "date"), (q("office", "date-value"), rng.choice(["2024-01-02", ""]))]
        elif r < 0.36:
            out += [(q("office", "value-type"), "time"), (q("office", "time-value"), rng.choice(["PT1H", ""]))]
        elif r < 0.44:
            out += [(q("office", "value-type"), "boolean"), (q("office", "boolean-value"), rng.choice(["true", "FALSE", ""]))]
        elif r < 0.6:
            out.append((q("office", "value-type"), "string"))
    if tag == q("table", "table-row") and rng.random() < 0.3:
        out.append((q("table", "number-rows-repeated"), rng.choice(REP_VALUES)))
    if tag == q("table", "table") and rng.random() < 0.9:
        out.append((q("table", "name"), rng.choice(["Sheet1", "S 2", "", " x ", "Tabé"])))
    return out


ODS_TAGS = [q("table", "table-row")] * 4 + [q("table", "table-cell")] * 6 + [_T("p")] * 5 + [_T("span"), _T("s"), _T("tab"), q("office", "annotation"),
            q("table", "table-header-rows"), q("table", "covered-table-cell"), q("table", "table-column"), q("draw", "frame"), _T("a")]


def gen_ods_tree(rng, tg):
    """office:spreadsheet with a few well-shaped tables whose cells hold hostile content"""
    tables = []
    for _ in range(rng.randint(0, 3)):
        rows = []
        for _ in range(rng.randint(0, 4)):
            if rng.random() < 0.12:
                rows.append(gen_tree(rng, tg, ODS_TAGS, 3, ods_attrs))
                continue
            cells = []
            for _ in range(rng.randint(0, 4)):
                c = node(q("table", "table-cell"), ods_attrs(rng, q("table", "table-cell")), rnd_text(rng, tg, 0.1), rnd_text(rng, tg, 0.1),
                         [gen_tree(rng, tg, ODS_TAGS[8:], 4, ods_attrs) for _ in range(rng.choice([0, 1, 1, 2]))])
                cells.append(c)
            rows.append(node(q("table", "table-row"), ods_attrs(rng, q("table", "table-row")), kids=cells))
        tables.append(node(q("table", "table"), ods_attrs(rng, q("table", "table")), kids=rows))
    return node(q("office", "spreadsheet"), kids=tables)


def gen_odp_tree(rng, tg):
    pages = []
    for _ in range(rng.randint(0, 3)):
        kids = [gen_tree(rng, tg, ODP_TAGS, 2, odp_attrs) for _ in range(rng.randint(0, 5))]
        pages.append(node(q("draw", "page"), kids=kids))
    return node(q("office", "presentation"), kids=pages)


# ----------------------------------------------------------------------------- ODP / ODS documents
def gen_odp_doc(tg: TokGen):
    rng = tg.rng
    slides = []
    for _ in range(rng.randint(1, 3)):
        unit = rng.choice(["cm", "in", "mm", "pt"])
        boxes = []
        for _ in range(rng.randint(0, 4)):
            y, x = rng.choice([0, 1, 2, 3, 5, 8]), rng.choice([0, 1, 2, 4])
            paras = []
            for _ in range(rng.randint(1, 3)):
                cls = rng.choice(["title", "body", "other", "other"])
                st = {"title": rng.choice(["Title", "TitleText", "Sub_Title1"]), "body": rng.choice(["BodyText", "Body", "Text_20_Body"]),
                      "other": rng.choice(["P1", "", "Standard", "Outline1"])}[cls]
                paras.append({"st": st, "cls": cls, "c": gen_inls(tg, "b", 1, notes=False, maxn=3)})
            boxes.append({"y": f"{y}{unit}", "x": f"{x}{unit}", "yv": y, "xv": x, "paras": paras})
        notes = [{"c": gen_inls(tg, "s", 1, False, False, 2)} for _ in range(rng.randint(0, 2))]
        slides.append({"boxes": boxes, "notes": notes})
    return slides


def py_odp_expected(slides):
    exp, excl = [], []
    for s in slides:
        boxes = sorted(s["boxes"], key=lambda b: (b["yv"], b["xv"]))  # stable
        title, body, other = None, [], []
        for b in boxes:
            for p in b["paras"]:
                t = py_visible(p["c"])
                excl += py_excl_inl(p["c"])
                if not t.strip():
                    continue
                if p["cls"] == "title" and title is None:
                    title = t
                elif p["cls"] == "body":
                    body.append(t)
                else:
                    other.append(t)
        exp += toks(([title] if title is not None else []) + body + other)
        for n in s["notes"]:
            excl.append(py_visible(n["c"]))
    return exp, toks(excl)


def gen_ods_doc(tg: TokGen):
    rng = tg.rng
    sheets = []
    for si in range(rng.randint(1, 3)):
        rows = []
        for _ in range(rng.randint(0, 4)):
            cells = []
            for _ in range(rng.randint(0, 4)):
                empty = rng.random() < 0.25
                paras = [] if empty else [{"c": gen_inls(tg, "b", 1, notes=False, maxn=2)} for _ in range(rng.choice([1, 1, 1, 2]))]
                # empty runs: beyond the code's cap of 100 (C13's open finding ods.empty-repeat-shifts-cells is about a
                # VALUE after such a run; the token sequence checked here is not affected) but small enough that even
                # an uncapped expansion stays below 10^6 cells (4 cells x 200 columns x 1000 rows)
                rep = rng.choice([1, 1, 1, 2, 3]) if not empty else rng.choice([1, 2, 5, 120, 200])
                cell = {"rep": rep, "paras": paras}
                if rng.random() < 0.15:
                    cell["com"] = gen_inls(tg, "c", 1, False, False, 2)
                cells.append(cell)
            allempty = all(not c["paras"] for c in cells)
            rows.append({"rep": rng.choice([1, 1, 1, 2, 3]) if not allempty else rng.choice([1, 2, 150, 1000]), "cells": cells})
        sheets.append({"name": rng.choice(["", "Sheet", "Tab ", "Täb"]) + tg.tok("k", False), "rows": rows})
    return sheets


def py_ods_expected(sheets):
    exp, excl = [], []
    for s in sheets:
        exp += s["name"].split()
        for r in s["rows"]:
            row = []
            for c in r["cells"]:
                t = "\n".join(py_visible(p["c"]) for p in c["paras"])
                row += t.split() * c["rep"]
                for p in c["paras"]:
                    excl += py_excl_inl(p["c"])
                if "com" in c:
                    excl.append(py_visible(c["com"]))
            exp += row * r["rep"]
    return exp, toks(excl)


# ----------------------------------------------------------------------------- RTF documents
RTF_FMT_WORDS = ["b", "i", "f", "fs", "cf", "plain", "qc", "lang", "kerning", "strike", "scaps", "highlight", "cb", "sa", "li", "nosupersub"]
RTF_DESTS = ["annotation", "bkmkstart", "bkmkend", "atnid", "atnauthor", "generator", "xe", "tc", "pn", "panose"]
_RTF_CH = ["\\", "é", "€", "日", "😀", "’", "~", "-", "'", ";", "?", " "]


def rtf_text(tg: TokGen, cls: str) -> str:
    s = tg.text(cls)
    if tg.rng.random() < 0.3:
        i = tg.rng.randint(0, len(s))
        s = s[:i] + tg.rng.choice(_RTF_CH) + s[i:]
    return s


def _fmt_word(rng):
    w = rng.choice(RTF_FMT_WORDS)
    d = {"w": w}
    if w in ("f", "fs", "cf", "lang", "kerning", "highlight", "cb", "sa", "li") or rng.random() < 0.2:
        d["n"] = rng.choice([0, 1, 2, 24, 1033])
    return d


def gen_rinls(tg: TokGen, cls: str, depth: int, maxn=4):
    rng = tg.rng
    out = []
    for _ in range(rng.randint(1, maxn)):
        r = rng.random()
        if r < 0.5 or depth >= 3:
            out.append({"k": "t", "s": rtf_text(tg, cls)})
        elif r < 0.58:
            out.append({"k": "tab"})
        elif r < 0.62:
            out.append({"k": "line"})
        elif r < 0.66:
            out.append({"k": rng.choice(["cell", "cell", "row"])})
        elif r < 0.76:
            out.append(dict(_fmt_word(rng), k="fmt"))
        elif r < 0.86:
            out.append(dict(_fmt_word(rng), k="group", c=gen_rinls(tg, cls, depth + 1, 3)))
        elif r < 0.92:
            out.append({"k": "dest", "w": rng.choice(RTF_DESTS), "s": rtf_text(tg, "x")})
        elif r < 0.95:  # an inline picture: a destination without \\* (not touched by the regex pre-pass)
            out.append({"k": "pict", "s": "\\picw1\\pich1 " + "".join(rng.choice("0123456789abcdef") for _ in range(rng.choice([2, 8, 16])))})
        else:  # a field: {\field {\*\fldinst …}{\fldrslt …}}
            out.append({"k": "group", "w": "field", "c": [
                {"k": "dest", "w": "fldinst", "s": 'HYPERLINK "http://example.org/' + tg.tok("u", False) + '"'},
                {"k": "group", "w": "fldrslt", "c": gen_rinls(tg, cls, depth + 1, 2)}]})
    return out


def gen_rtf_doc(tg: TokGen):
    rng = tg.rng
    d = {"fonts": [rng.choice(["Arial", "Times New Roman", "Courier"]) + tg.tok("f", False) for _ in range(rng.randint(1, 2))],
         "title": tg.text("t", False), "paras": []}
    if rng.random() < 0.5:
        d["header"] = rtf_text(tg, "h")
    if rng.random() < 0.4:
        d["footer"] = rtf_text(tg, "h")
    for _ in range(rng.randint(1, 5)):
        d["paras"].append({"c": gen_rinls(tg, "b", 0), "pb": rng.random() < 0.2})
    return d


def py_rvisible(inls):
    out = []
    for i in inls:
        k = i["k"]
        if k == "t":
            out.append(i["s"])
        elif k in ("tab", "cell"):
            out.append("\t")
        elif k in ("line", "row"):
            out.append("\n")
        elif k == "group":
            out.append(py_rvisible(i["c"]))
    return "".join(out)


def py_rexcl(inls):
    out = []
    for i in inls:
        if i["k"] == "dest":
            out.append(i["s"])
        elif i["k"] == "group":
            out += py_rexcl(i["c"])
    return out


def py_rtf_expected(d):
    exp = toks(py_rvisible(p["c"]) for p in d["paras"])
    excl = [d["title"]] + d["fonts"]
    for k in ("header", "footer"):
        if d.get(k):
            excl.append(d[k])
    for p in d["paras"]:
        excl += py_rexcl(p["c"])
    return exp, toks(excl)


def py_render_rtf(d, hex_latin1=True) -> str:
    """python twin of S2T.RtfDoc.renderRtf used by the search only; with `hex_latin1` the characters U+00A0..U+00FF are
    written as \\'hh (as ANSI-code-page writers do), which the Lean renderer never does"""
    def esc(t):
        out = []
        for ch in t:
            o = ord(ch)
            if ch in "\\{}":
                out.append("\\" + ch)
            elif 32 <= o < 127:
                out.append(ch)
            elif hex_latin1 and 0xA0 <= o <= 0xFF:
                out.append("\\'%02x" % o)
            elif o < 0x10000:
                out.append("\\u%d?" % (o if o < 0x8000 else o - 65536))
            else:
                o -= 0x10000
                out.append("\\u%d?\\u%d?" % (0xD800 + (o >> 10) - 65536, 0xDC00 + (o & 0x3FF) - 65536))
        return "".join(out)

    def ctl(w, n=None):
        return "\\" + w + ("" if n is None else str(n)) + " "

    def inl(i):
        k = i["k"]
        if k == "t":
            return esc(i["s"])
        if k in ("tab", "line", "cell", "row"):
            return ctl(k)
        if k == "fmt":
            return ctl(i["w"], i.get("n"))
        if k == "group":
            return "{" + ctl(i["w"], i.get("n")) + "".join(inl(x) for x in i["c"]) + "}"
        if k == "dest":
            return "{\\*" + ctl(i["w"]) + esc(i["s"]) + "}"
        if k == "pict":
            return "{" + ctl("pict") + i["s"] + "}"
        raise ValueError(k)

    out = ["{", ctl("rtf", 1), ctl("ansi"), ctl("deff", 0), "{", ctl("fonttbl")]
    out += ["{" + ctl("f", n) + esc(f) + ";}" for n, f in enumerate(d["fonts"])]
    out += ["}", "{", ctl("info"), "{", ctl("title"), esc(d["title"]), "}}"]
    for k in ("header", "footer"):
        if d.get(k):
            out += ["{", ctl(k), esc(d[k]), "}"]
    for p in d["paras"]:
        out += [ctl("pard"), ctl("plain")] + [inl(x) for x in p["c"]] + [ctl("par")] + ([ctl("page")] if p.get("pb") else [])
    out.append("}")
    return "".join(out)


RTF_FRAGS = ["{", "}", "{", "}", "\\", "\\\\", "\\{", "\\}", "\\par ", "\\par", "\\line ", "\\tab ", "\\page ", "\\sbkpage", "\\page1 ", "\\pard",
             "\\b ", "\\b0 ", "\\fs24 ", "\\f-1 ", "\\ul ", "\\ulnone ", "\\uc1 ", "\\u", "\\u8364?", "\\u8364 ", "\\u-10179?", "\\u-8704?",
             "\\u55357?", "\\u56832?", "\\u-5", "\\u65?x", "\\'e9", "\\'80", "\\'4", "\\' 4", "\\'-4", "\\'g1", "\\'", "\\~", "\\_", "\\-", "\\*",
             "{\\*\\foo ", "{\\fonttbl ", "{\\info ", "{\\pict ", "{\\header ", "{\\headerx ", "{\\footerf ", "{\\object ", "{\\stylesheet ",
             "{\\field{\\*\\fldinst X}{\\fldrslt ", "{\\b ", "\\cell ", "\\row ", "\\nestcell ", "\\lquote ", "\\rquote ", "\\bullet ", "\\emdash ",
             "\\enspace ", "\\ldblquote ", "\\endash", "\\emspace2 ", "\\qmspace", "\r", "\n", "\r\n", " ", "  ", "\t", "\\é", "é", "€", "😀", "\\1", "\\ ",
             "\\par9x", "\\par-", "\\par -", "\\ab-1-2 ", "\\u12٣?", "\\'٣1", ";", "?"]


def gen_rtf_soup(rng, tg):
    n = rng.randint(1, 14)
    parts = []
    for _ in range(n):
        parts.append(rng.choice(RTF_FRAGS) if rng.random() < 0.65 else tg.tok("m"))
    return "".join(parts)


# ----------------------------------------------------------------------------- correspondence
_MISMATCH = {}


def _cmp(ctx, broken, name, impl, model, case):
    if impl != model:
        _MISMATCH[name] = _MISMATCH.get(name, 0) + 1
        if _MISMATCH[name] <= 6:  # a few per obligation, so that every format that broke reaches the search
            broken.append(Broken("correspondence", name, f"impl={impl!r} model={model!r}"[:1500], case=case))
        return False
    return True


def correspondence(ctx):
    broken, violations = [], []
    rng = ctx.rng
    tg = TokGen(rng)
    _MISMATCH.clear()

    # ---- A. structured ODT / ODG documents, end to end
    for fmt, gen, n in (("odt", gen_odt_doc, ctx.n(120, 3000)), ("odg", gen_odg_doc, ctx.n(50, 1200))):
        docs = [gen(tg) for _ in range(n)]
        outs = ctx.drive([{"op": "c02odf." + fmt, "doc": d} for d in docs])
        for d, o in zip(docs, outs):
            if "drv_error" in o:
                broken.append(Broken("correspondence", "driver", o["drv_error"], case={"fmt": fmt, "doc": d}))
                continue
            styles, meta = (None, None)
            hf = []
            if fmt == "odt" and rng.random() < 0.5:
                styles, hf = hf_styles(tg)
                meta = meta_xml(tg.text("t", False))
            kind, text = real_odf(fmt, o["xml"], styles, meta)
            ctx.case((fmt, json.dumps(o["xml"], sort_keys=True)), nontrivial=bool(o["tokens"]))
            ctx.count(f"{fmt}/doc/" + ("tokens>0" if o["tokens"] else "empty"))
            ok = _cmp(ctx, broken, f"c02odf.{fmt}", (kind, text), ("ok", o["text"]), {"fmt": fmt, "doc": d, "hf": hf})
            # the spec's tokens as computed by Lean and by this module agree (ties the python oracle to the spec)
            if o["tokens"] != toks(py_body_texts(d)) or sorted(toks(o["excl"])) != sorted(toks(py_excl_texts(d))):
                broken.append(Broken("correspondence", f"c02odf.{fmt}.spec", f"lean tokens {o['tokens'][:6]} python {toks(py_body_texts(d))[:6]}", case={"fmt": fmt, "doc": d}))
            if ok and len(ctx.samples) < 2:
                ctx.sample({"fmt": fmt, "text": text[:120], "tokens": o["tokens"][:8]})

    # ---- B. ODP / ODS documents
    docs = [gen_odp_doc(tg) for _ in range(ctx.n(60, 1500))]
    outs = ctx.drive([{"op": "c02odf.odp", "slides": d} for d in docs])
    for d, o in zip(docs, outs):
        if "drv_error" in o:
            broken.append(Broken("correspondence", "driver", o["drv_error"], case={"fmt": "odp", "doc": d}))
            continue
        kind, text = real_odf("odp", o["xml"])
        ctx.case(("odp", json.dumps(o["xml"], sort_keys=True)), nontrivial=bool(o["text"]))
        ctx.count("odp/doc")
        _cmp(ctx, broken, "c02odf.odp", (kind, text), ("ok", o["text"]), {"fmt": "odp", "doc": d})
        # no theorem covers the ODP slide assembly: the property oracle itself runs on every document of every run
        if kind == "ok":
            exp, excl = py_odp_expected(d)
            dg = diagnose("odp", exp, text.split(), excl)
            if dg and not any(v.key == f"odp.{dg[0]}" for v in violations):
                violations.append(Violation(f"odp.{dg[0]}", f"ODP: {dg[1]}", {"fmt": "odp", "doc": d}))
    docs = [gen_ods_doc(tg) for _ in range(ctx.n(60, 1500))]
    outs = ctx.drive([{"op": "c02odf.ods", "sheets": d} for d in docs])
    for d, o in zip(docs, outs):
        if "drv_error" in o:
            broken.append(Broken("correspondence", "driver", o["drv_error"], case={"fmt": "ods", "doc": d}))
            continue
        kind, text = real_odf("ods", o["xml"])
        ctx.case(("ods", json.dumps(o["xml"], sort_keys=True)), nontrivial=bool(o.get("text")))
        ctx.count("ods/doc")
        _cmp(ctx, broken, "c02odf.ods", (kind, text), ("ok", o["text"]) if "text" in o else ("err", o.get("err")), {"fmt": "ods", "doc": d})
        if kind == "ok":  # no theorem covers the ODS sheet formatter: the oracle runs on every document of every run
            exp, excl = py_ods_expected(d)
            dg = diagnose("ods", exp, text.split(), excl)
            if dg and not any(v.key == f"ods.{dg[0]}" for v in violations):
                violations.append(Violation(f"ods.{dg[0]}", f"ODS: {dg[1]}", {"fmt": "ods", "doc": d}))
        if o["tokens"] != py_ods_expected(d)[0]:
            broken.append(Broken("correspondence", "c02odf.ods.spec", f"lean tokens {o['tokens'][:6]} python {py_ods_expected(d)[0][:6]}", case={"fmt": "ods", "doc": d}))

    # ---- C. malformed element trees through every ODF extractor
    reqs, cases = [], []
    for _ in range(ctx.n(150, 4000)):
        body = node(q("office", "text"), kids=[gen_tree(rng, tg, ODT_TAGS, 1) for _ in range(rng.randint(0, 4))], text=rnd_text(rng, tg, 0.2))
        reqs.append({"op": "c02odf.xml", "fmt": "odt", "tree": body}); cases.append(("odt", body, False))
    for _ in range(ctx.n(60, 1500)):
        body = node(q("office", "drawing"), kids=[gen_tree(rng, tg, ODT_TAGS, 2) for _ in range(rng.randint(0, 3))])
        reqs.append({"op": "c02odf.xml", "fmt": "odg", "tree": body}); cases.append(("odg", body, False))
    for _ in range(ctx.n(40, 1000)):
        body = node(q("office", "formula"), kids=[gen_tree(rng, tg, ODT_TAGS, 3) for _ in range(rng.randint(0, 2))], text=rnd_text(rng, tg, 0.3))
        whole = content_doc("odf", body)
        reqs.append({"op": "c02odf.xml", "fmt": "odf", "tree": whole}); cases.append(("odf", whole, True))
    for _ in range(ctx.n(80, 2000)):
        body = gen_odp_tree(rng, tg)
        reqs.append({"op": "c02odf.xml", "fmt": "odp", "tree": body}); cases.append(("odp", body, False))
    for _ in range(ctx.n(80, 2000)):
        body = gen_ods_tree(rng, tg)
        reqs.append({"op": "c02odf.xml", "fmt": "ods", "tree": body}); cases.append(("ods", body, False))
    outs = ctx.drive(reqs)
    for (fmt, tree, whole), o in zip(cases, outs):
        if "drv_error" in o:
            broken.append(Broken("correspondence", "driver", o["drv_error"], case={"fmt": fmt, "tree": tree}))
            continue
        if o.get("unmodelled"):
            ctx.count(f"{fmt}/tree/unmodelled")
            continue
        kind, text = real_odf(fmt, tree, whole=whole)
        model = ("ok", o["text"]) if "text" in o else ("err", o.get("err"))
        ctx.case((fmt, "tree", json.dumps(tree, sort_keys=True)), nontrivial=bool(o.get("text")))
        ctx.count(f"{fmt}/tree/" + model[0])
        _cmp(ctx, broken, f"c02odf.xml.{fmt}", (kind, text), model, {"fmt": fmt, "tree": tree, "whole": whole})

    # ---- D. RTF: rendered documents end to end + fragment soup through the real machine
    docs = [gen_rtf_doc(tg) for _ in range(ctx.n(120, 3000))]
    outs = ctx.drive([{"op": "c02odf.rtfdoc", "doc": d} for d in docs])
    for d, o in zip(docs, outs):
        if "drv_error" in o:
            broken.append(Broken("correspondence", "driver", o["drv_error"], case={"fmt": "rtf", "doc": d}))
            continue
        try:
            impl = codes(real_rtf_bytes(o["rtf"].encode("ascii")))
        except Exception as e:
            impl = "ERR:" + type(e).__name__
        ctx.case(("rtf", o["rtf"]), nontrivial=bool(o["tokens"]))
        ctx.count("rtf/doc")
        _cmp(ctx, broken, "c02odf.rtfdoc", impl, o["full"], {"fmt": "rtf", "doc": d})
        if o["tokens"] != py_rtf_expected(d)[0]:
            broken.append(Broken("correspondence", "c02odf.rtf.spec", f"lean tokens {o['tokens'][:6]} python {py_rtf_expected(d)[0][:6]}", case={"fmt": "rtf", "doc": d}))
    from sharepoint2text.parsing.extractors.ms_legacy.rtf_extractor import _RtfParser
    soups = [gen_rtf_soup(rng, tg) for _ in range(ctx.n(400, 12000))]
    soups += ["{\\rtf1 " + gen_rtf_soup(rng, tg) + "}" for _ in range(ctx.n(100, 3000))]
    outs = ctx.drive([{"op": "c02odf.rtf", "s": s} for s in soups])
    for s, o in zip(soups, outs):
        if "drv_error" in o:
            broken.append(Broken("correspondence", "driver", o["drv_error"], case={"fmt": "rtf", "soup": s}))
            continue
        p = _RtfParser(b"")
        try:
            impl = codes(p._strip_rtf_full_with_pages(s))
        except Exception as e:
            impl = "ERR:" + type(e).__name__
        ctx.case(("rtf-soup", s), nontrivial=True)
        ctx.count("rtf/soup")
        _cmp(ctx, broken, "c02odf.rtf", impl, o["res"], {"fmt": "rtf", "soup": s})

    # ---- E. PPT text cleaning, XLS sheet formatting, plain text, unit join
    from sharepoint2text.parsing.extractors.ms_legacy import ppt_extractor as PE, xls_extractor as XE
    from sharepoint2text.parsing.extractors import data_types as DT
    ppt_in = []
    for _ in range(ctx.n(200, 5000)):
        parts = []
        for _ in range(rng.randint(0, 8)):
            parts.append(rng.choice(["\r", "\n", "\x0b", "\x0c", "\t", " ", "  ", "\x00", "\x01", "\x1f", "*", "Click to edit ", "___PPT9", "Outline Level",
                                     "Second Outline Level", " ", " ", "\x85", "\x1c"]) if rng.random() < 0.5 else tg.tok("b"))
        ppt_in.append("".join(parts))
    outs = ctx.drive([{"op": "c02odf.ppt", "s": s} for s in ppt_in])
    for s, o in zip(ppt_in, outs):
        ctx.case(("ppt", s)); ctx.count("ppt/clean_text")
        _cmp(ctx, broken, "c02odf.ppt", PE._clean_text(s), o.get("text"), {"fmt": "ppt", "s": s})
    xls_in = []
    for _ in range(ctx.n(150, 4000)):
        ncol = rng.randint(0, 4)
        cell = lambda: rng.choice(["", "", tg.tok("b"), tg.text("b"), "1.5", "x" * rng.randint(0, 12)])  # noqa: E731
        h = [cell() for _ in range(ncol)] if rng.random() < 0.8 else []
        rows = [[cell() for _ in range(ncol if rng.random() < 0.8 else rng.randint(0, 5))] for _ in range(rng.randint(0, 4))]
        xls_in.append((h, rows))
    outs = ctx.drive([{"op": "c02odf.xls", "h": h, "rows": r} for h, r in xls_in])
    for (h, r), o in zip(xls_in, outs):
        ctx.case(("xls", repr((h, r)))); ctx.count("xls/format_sheet")
        try:
            impl = XE._format_sheet_as_text(list(h), [list(x) for x in r])
        except Exception as e:
            impl = "ERR:" + type(e).__name__
        _cmp(ctx, broken, "c02odf.xls", impl, o.get("text"), {"fmt": "xls", "h": h, "rows": r})
    plain_in = [rng.choice(["", " ", "\n\n", "\t ", " ", "　 ", "\x1c"]) + tg.text("b") + rng.choice(["\n", " \n\t", "", " ", "\x85"]) + rng.choice(["", tg.text("b")]) + rng.choice(["", "\n"])
                for _ in range(ctx.n(100, 2000))] + ["", " \n "]
    outs = ctx.drive([{"op": "c02odf.plain", "s": s} for s in plain_in])
    from sharepoint2text.parsing.extractors.plain_extractor import read_plain_text
    for s, o in zip(plain_in, outs):
        ctx.case(("plain", s)); ctx.count("plain")
        impl = DT.PlainTextContent(content=s).get_full_text()
        _cmp(ctx, broken, "c02odf.plain", impl, o.get("text"), {"fmt": "plain", "s": s})
        if len(s) > 40 and s.isascii() and "\x1c" not in s:  # end to end; charset detection (third party) is only trusted on longer pure-ASCII input
            try:
                e2e = next(read_plain_text(io.BytesIO(s.encode("ascii")))).get_full_text()
                if e2e != impl:
                    broken.append(Broken("correspondence", "c02odf.plain.e2e", f"read_plain_text -> {e2e!r}, PlainTextContent -> {impl!r}", case={"fmt": "plain", "s": s}))
            except Exception as e:
                broken.append(Broken("correspondence", "c02odf.plain.e2e", repr(e), case={"fmt": "plain", "s": s}))
    join_in = [[rng.choice(["", " ", "\n"]) + (tg.text("b") if rng.random() < 0.8 else "") + rng.choice(["", "\n", " "]) for _ in range(rng.randint(0, 4))]
               for _ in range(ctx.n(100, 2000))]
    outs = ctx.drive([{"op": "c02odf.join", "units": u} for u in join_in])
    for u, o in zip(join_in, outs):
        ctx.case(("join", repr(u))); ctx.count("join_unit_text")
        impl = DT.PdfContent(pages=[DT.PdfPage(text=t, images=[], tables=[]) for t in u]).get_full_text()
        _cmp(ctx, broken, "c02odf.join", impl, o.get("text"), {"fmt": "pdf-join", "units": u})
    ctx.coverage["mismatches"] = dict(_MISMATCH)
    return {"broken": broken, "violations": violations}


# ----------------------------------------------------------------------------- oracle: the property on the real code
def oracle_doc(ctx, fmt: str, d, rendered: dict, hf=None):
    """[Violation] for one abstract document (rendered = the driver's answer for it)"""
    if fmt in ("odt", "odg"):
        exp, excl = toks(py_body_texts(d)), toks(py_excl_texts(d))
        styles = None
        if hf:
            hdr, ftr = hf
            mp = node(q("style", "master-page"), [(q("style", "name"), "Standard")], kids=[
                node(q("style", "header"), kids=[node(q("text", "p"), text=hdr)]), node(q("style", "footer"), kids=[node(q("text", "p"), text=ftr)])])
            styles = serialize(node(q("office", "document-styles"), kids=[node(q("office", "master-styles"), kids=[mp])]))
            excl += toks(hf)
        kind, text = real_odf(fmt, rendered["xml"], styles)
    elif fmt == "odp":
        exp, excl = py_odp_expected(d)
        kind, text = real_odf("odp", rendered["xml"])
    elif fmt == "ods":
        exp, excl = py_ods_expected(d)
        kind, text = real_odf("ods", rendered["xml"])
    elif fmt == "rtf":
        exp, excl = py_rtf_expected(d)
        try:
            kind, text = "ok", real_rtf_bytes(rendered["rtf"].encode("ascii"))
            if text.split() == exp:  # second writer flavour: Latin-1 characters as \\'hh escapes
                text = real_rtf_bytes(py_render_rtf(d).encode("ascii"))
        except Exception as e:
            kind, text = "err", type(e).__name__
    else:
        return []
    if kind != "ok":
        return [Violation(f"{fmt}.extraction-fails", f"{fmt} extractor raised {text} on a well-formed generated document", {"fmt": fmt, "doc": d, "hf": hf})]
    dg = diagnose(fmt, exp, text.split(), excl)
    if dg is None:
        return []
    return [Violation(f"{fmt}.{dg[0]}", f"{fmt.upper()}: {dg[1]}", {"fmt": fmt, "doc": d, "hf": hf})]


_OPS = {"odt": ("c02odf.odt", "doc"), "odg": ("c02odf.odg", "doc"), "odp": ("c02odf.odp", "slides"), "ods": ("c02odf.ods", "sheets"), "rtf": ("c02odf.rtfdoc", "doc")}


def _render(ctx, fmt, docs):
    op, key = _OPS[fmt]
    return ctx.drive([{"op": op, key: d} for d in docs])


def oracle_strings(fmt, case):
    """the property on the string-level functions (PPT cleaning, XLS formatting, plain text, unit join)"""
    from sharepoint2text.parsing.extractors.ms_legacy import ppt_extractor as PE, xls_extractor as XE
    from sharepoint2text.parsing.extractors import data_types as DT
    out = []
    if fmt == "ppt":
        s = case["s"]
        # PPT text atoms: CR separates paragraphs, VT is a line break, FF/LF/TAB are whitespace; other C0 controls are not text
        src = re.sub(r"[\r\x0b\x0c\n\t]", " ", s)
        src = re.sub(r"[\x00-\x08\x0e-\x1f]", "", src)
        lines = [" ".join(l.split()) for l in re.split(r"[\r\x0b\x0c\n]", re.sub(r"[\x00-\x08\x0e-\x1f]", "", s))]
        keep = [l for l in lines if l and not l.startswith(("___PPT", "Click to edit")) and l != "*" and not l.endswith("Outline Level")]
        exp = toks(keep)
        dg = diagnose("ppt", exp, PE._clean_text(s).split(), [])
        if dg:
            out.append(Violation(f"ppt.{dg[0]}", f"PPT _clean_text({s!r}): {dg[1]}", {"fmt": "ppt", "s": s}))
    elif fmt == "xls":
        h, rows = case["h"], case["rows"]
        exp = toks((h if h else []) + [c for r in rows for c in r]) if (h or rows) else []
        try:
            got = XE._format_sheet_as_text(list(h), [list(r) for r in rows]).split()
        except Exception as e:
            return [Violation("xls.format-raises", f"_format_sheet_as_text raised {type(e).__name__}", {"fmt": "xls", "h": h, "rows": rows})]
        dg = diagnose("xls", exp, got, [])
        if dg:
            out.append(Violation(f"xls.{dg[0]}", f"XLS _format_sheet_as_text: {dg[1]}", {"fmt": "xls", "h": h, "rows": rows}))
    elif fmt == "plain":
        s = case["s"]
        dg = diagnose("plain", s.split(), DT.PlainTextContent(content=s).get_full_text().split(), [])
        if dg:
            out.append(Violation(f"plain.{dg[0]}", f"plain text {s!r}: {dg[1]}", {"fmt": "plain", "s": s}))
    elif fmt == "pdf-join":
        u = case["units"]
        got = DT.PdfContent(pages=[DT.PdfPage(text=t, images=[], tables=[]) for t in u]).get_full_text().split()
        dg = diagnose("pdf", toks(u), got, [])
        if dg:
            out.append(Violation(f"pdf.{dg[0]}", f"PDF page join {u!r}: {dg[1]}", {"fmt": "pdf-join", "units": u}))
    return out


def _ppt_cases(rng, tg, n):
    seps = ["\r", "\x0b", "\n", "\x0c", "\t", " "]
    return [{"s": "".join(tg.tok("b") + rng.choice(seps) for _ in range(rng.randint(2, 5))) + tg.tok("b")} for _ in range(n)]


def search(ctx, broken):
    rng = ctx.rng
    tg = TokGen(rng)
    found = []

    def add(vs):
        for v in vs:
            if v.key not in KNOWN_KEYS and not any(f.key == v.key for f in found):
                found.append(v)

    fmts_hit = set()
    # 1. the broken cases themselves
    for b in broken:
        c = b.case if isinstance(b.case, dict) else {}
        fmt = c.get("fmt")
        if fmt:
            fmts_hit.add(fmt)
        if fmt in _OPS and "doc" in c:
            o = _render(ctx, fmt, [c["doc"]])[0]
            if "drv_error" not in o:
                add(oracle_doc(ctx, fmt, c["doc"], o, c.get("hf")))
        elif fmt in ("ppt", "xls", "plain", "pdf-join"):
            add(oracle_strings(fmt, c))

    def explained(fmt):
        pre = {"pdf-join": "pdf", "odf": "odg"}.get(fmt, fmt) + "."
        return any(f.key.startswith(pre) for f in found)

    # 2. fresh inputs for every format that broke and is not explained yet (all formats when the breakage is not
    #    tied to one: a theorem / translation / build failure)
    doc_fmts = ["odt", "odg", "odp", "ods", "rtf"]
    str_fmts = ["ppt", "xls", "plain", "pdf-join"]
    targets = [f for f in doc_fmts + str_fmts if f in fmts_hit or (f == "odg" and "odf" in fmts_hit)]
    if not targets or any(not (isinstance(b.case, dict) and b.case.get("fmt")) for b in broken):
        # a theorem / table obligation / build step broke: it is not tied to one format, look everywhere
        targets = doc_fmts + str_fmts
    gens = {"odt": gen_odt_doc, "odg": gen_odg_doc, "odp": gen_odp_doc, "ods": gen_ods_doc, "rtf": gen_rtf_doc}
    for fmt in targets:
        if explained(fmt):
            continue
        if fmt in doc_fmts:
            for _ in range(ctx.n(8, 40)):
                docs = [gens[fmt](tg) for _ in range(50)]
                outs = _render(ctx, fmt, docs)
                for d, o in zip(docs, outs):
                    if "drv_error" in o:
                        continue
                    hf = [tg.text("h"), tg.text("h")] if fmt == "odt" else None
                    add(oracle_doc(ctx, fmt, d, o, hf))
                if explained(fmt):
                    break
        elif fmt == "ppt":
            for c in _ppt_cases(rng, tg, 400):
                add(oracle_strings("ppt", c))
        else:
            for _ in range(400):
                ncol = rng.randint(1, 4)
                if fmt == "xls":
                    add(oracle_strings("xls", {"h": [tg.tok("b") for _ in range(ncol)] if rng.random() < 0.8 else [],
                                               "rows": [[rng.choice(["", tg.text("b")]) for _ in range(ncol)] for _ in range(rng.randint(0, 3))]}))
                elif fmt == "plain":
                    add(oracle_strings("plain", {"s": rng.choice(["", " ", "\n"]) + tg.text("b") + "\n" + tg.text("b") + rng.choice(["", "\n"])}))
                else:
                    add(oracle_strings("pdf-join", {"units": [rng.choice(["", " "]) + tg.text("b") + rng.choice(["", "\n"]) for _ in range(rng.randint(1, 4))]}))
    return found


# ----------------------------------------------------------------------------- open known findings
def _odt_text(body_kids):
    body = node(q("office", "text"), kids=body_kids)
    return real_odf("odt", body)


def _strip_machine(s):
    from sharepoint2text.parsing.extractors.ms_legacy.rtf_extractor import _RtfParser
    return _RtfParser(b"")._strip_rtf_full_with_pages(s)


W_TEXTBOX = node(q("text", "p"), text="PRE1", kids=[node(q("draw", "frame"), tail="POST1", kids=[node(q("draw", "text-box"), kids=[
    node(q("text", "p"), text="BOX1"), node(q("text", "p"), text="BOX2")])])])
W_RTF_UL = "{\\rtf1\\ansi A1 \\ul B2\\ulnone  C3\\par}"
W_RTF_FALLBACK = "{\\rtf1\\ansi A1 \\u8364\\'80 B2 \\u8364 ? C3\\par}"
W_RTF_HEX = "{\\rtf1\\ansi\\ansicpg1252 don\\'92t A1\\'80\\par}"
W_RTF_DELETED = "{\\rtf1\\ansi A1 {\\deleted D1 }B2\\par}"
W_RTF_BRACE = "{\\rtf1\\ansi{\\header \\pard H1\\{x\\par}A1 B2\\} C3\\par}"
W_ODP_SHAPE = node(q("office", "presentation"), kids=[node(q("draw", "page"), kids=[
    node(q("draw", "frame"), kids=[node(q("draw", "text-box"), kids=[node(q("text", "p"), text="A1")])]),
    node(q("draw", "custom-shape"), kids=[node(q("text", "p"), text="SHAPE1")])])])
W_ODS_HROWS = node(q("office", "spreadsheet"), kids=[node(q("table", "table"), [(q("table", "name"), "S1")], kids=[
    node(q("table", "table-header-rows"), kids=[node(q("table", "table-row"), kids=[node(q("table", "table-cell"), kids=[node(q("text", "p"), text="HEAD1")])])]),
    node(q("table", "table-row"), kids=[node(q("table", "table-cell"), kids=[node(q("text", "p"), text="A1")])])])])


def known_witnesses(ctx):
    out, gone = [], []

    def rep(key, cond, what, replay):
        if cond:
            out.append(Violation(key, what, replay))
        else:
            gone.append(key)

    k, t = _odt_text([W_TEXTBOX])
    rep("odt.paragraph-anchored-textbox-merged", k == "ok" and t.split() != ["PRE1", "BOX1", "BOX2", "POST1"],
        f"ODT: a text box anchored inside a paragraph (text:p > draw:frame > draw:text-box > text:p) is flattened into the paragraph: {t!r} "
        "- the box paragraphs BOX1, BOX2 and the surrounding text PRE1/POST1 come out merged", {"witness": "odt-textbox"})
    r = real_rtf_bytes(W_RTF_UL.encode())
    rep("rtf.u-prefixed-control-word-leak", r.split() != ["A1", "B2", "C3"],
        f"RTF: control words beginning with 'u' that are not \\uN (\\ul, \\ulnone, \\uc1, \\up…) leak their tail as text: {W_RTF_UL!r} -> {r!r} "
        "(the library's own test pins 'c1' at the start of 2025.144.un.rtf)", {"witness": "rtf-ul"})
    r = real_rtf_bytes(W_RTF_FALLBACK.encode())
    rep("rtf.unicode-fallback-not-skipped", r.split() != ["A1", "€", "B2", "€", "C3"],
        f"RTF: the fallback representation after \\uN is only skipped when it is a bare '?': {W_RTF_FALLBACK!r} -> {r!r}", {"witness": "rtf-fallback"})
    r = real_rtf_bytes(W_RTF_HEX.encode())
    rep("rtf.hex-escape-not-codepage", "’" not in r or "€" not in r,
        f"RTF: \\'hh is read as Latin-1, not in the document code page: {W_RTF_HEX!r} -> {r!r} (U+0092 / U+0080 instead of ’ / €)", {"witness": "rtf-hex"})
    r = real_rtf_bytes(W_RTF_DELETED.encode())
    rep("rtf.tracked-deletion-leak", "D1" in r, f"RTF: text marked \\deleted (tracked deletion) appears in the full text: {W_RTF_DELETED!r} -> {r!r}", {"witness": "rtf-deleted"})
    r = real_rtf_bytes(W_RTF_BRACE.encode())
    rep("rtf.escaped-brace-breaks-destination-removal", r.split() != ["A1", "B2}", "C3"],
        f"RTF: escaped braces are taken for group delimiters by the destination-removal regexes: {W_RTF_BRACE!r} -> {r!r} (expected 'A1 B2}} C3')", {"witness": "rtf-brace"})
    k, t = real_odf("odp", W_ODP_SHAPE)
    rep("odp.shape-text-outside-frames-dropped", k == "ok" and "SHAPE1" not in t,
        f"ODP: only draw:frame children of draw:page are read; text of draw:custom-shape (and rect/ellipse/group) is dropped: got {t!r}", {"witness": "odp-shape"})
    k, t = real_odf("ods", W_ODS_HROWS)
    rep("ods.header-rows-dropped", k == "ok" and "HEAD1" not in t,
        f"ODS: rows inside table:table-header-rows (and row groups) are not read (findall('table:table-row') sees direct children only): got {t!r}", {"witness": "ods-hrows"})
    for g in gone:
        ctx.notes.append(f"known finding {g}: the committed witness no longer fails on this tree")
    return out


def replay(ctx, payload):
    rep = payload.get("replay", {})
    fmt = rep.get("fmt")
    if "witness" in rep:
        vs = [v for v in known_witnesses(ctx) if v.replay.get("witness") == rep["witness"]]
        return (not vs), "; ".join(v.what for v in vs) or "the witness no longer fails"
    if fmt in _OPS and "doc" in rep:
        o = _render(ctx, fmt, [rep["doc"]])[0]
        if "drv_error" in o:
            return False, "driver: " + o["drv_error"]
        vs = oracle_doc(ctx, fmt, rep["doc"], o, rep.get("hf"))
        return (not vs), "; ".join(v.what for v in vs) or "property holds on the recorded document"
    if fmt in ("ppt", "xls", "plain", "pdf-join"):
        vs = oracle_strings(fmt, rep)
        return (not vs), "; ".join(v.what for v in vs) or "property holds on the recorded input"
    return False, "replay names a broken obligation, not an input: " + payload.get("what", "")
