"""C04 — every result honours the common interface.

correspondence: the real accessors of data_types (get_dim/get_table of every table class, get_bytes of every image
class, FileMetadataInterface.populate_from_path, the RTF escape decoding + surrogate repair, the UTF-16 'replace'
codec, _get_page_for_position, the OOXML/ODF property readers) against S2T.Model.Iface on generated inputs; then the
property statement itself (props/c04_oracle.py — independent of the Lean model) on every result of every extractor
over fixtures x path forms, mutated-but-accepted fixtures, generated RTF / mail / HTML / text documents, documents
with unreadable pictures, and property-carrying OOXML/ODF/EPUB/HTML/RTF documents.
"""
from __future__ import annotations

import base64
import dataclasses
import io
import json
import os
import re
import resource
import subprocess
import sys
import tempfile
import types
import unicodedata
import zipfile
from pathlib import PurePosixPath

import corpus
from props import c04_docs as D
from props import c04_history as H
from props import c04_legacy as LG
from props import c04_oracle as O
from props import c04_values as V
from run import Broken, Violation

GEN = ["Iface", "PyDataTypes", "IfaceTotal"]
RULE = ("tables: empty / rectangular / ragged / with empty rows, per table class; images: payload sizes 0..4096 x "
        "consumed prefix, per image class; paths: None, relative, absolute, //, ///, dot segments, trailing slash, "
        "unicode, archive!/member, existing files / symlinks, over-long names, NUL; RTF escape texts: valid \\uN? / "
        "\\'hh token stream (surrogate-heavy) + malformed stream; UTF-16 unit lists; property XML trees; then every "
        "accessor of every object reachable from the results of all extractors over fixtures x path forms, "
        "mutations, generated documents; legacy .ppt / .xls hosts whose picture stream is a generated sequence of OfficeArt "
        "BLIP records (every type / instance, DIB of every bit depth, refused headers, truncated, duplicate, secondary UID); "
        "process histories (mkdir / write / rm / symlink / chdir interleaved with populate_from_path, extractor and read_file "
        "calls: same relative path under two working directories, path appearing / disappearing, re-targeted symlink, "
        "path-None-path, siblings, random walks), every call judged against the host as it is at that call; "
        "several images at once: per image class, lists of sources (fresh payloads, none, one object stored in several images) "
        "x read order x one stream closed, collected first and read afterwards, against the heap model; generated DOCX / PPTX / XLSX / "
        "ODT / ODP / ODS / ODG / EPUB / HTML documents in which one picture file is placed several times (same unit, other units) and "
        "every optional text-bearing element / attribute of picture frames, units and document properties is independently absent / "
        "present-but-empty / white space / text; values converted when the caller asks: the lexical space of a length as a file may "
        "spell it (digits of any script / hundreds of digits, dangling fraction, units the library converts or not, white space of all "
        "of \\s, junk) against the Lean scanner + unit dispatch (c04.length) and planted as svg:width / svg:height / img width / height "
        "into the generated documents. "
        "every generated package also with its XML parts re-serialised in each declared encoding (utf-8 / BOM / utf-16 LE,BE / iso-8859-1 / "
        "windows-1252 / iso-8859-15 / us-ascii with character references) x declaration form x lead-in; every result walked a second time in "
        "the opposite accessor order and its units a third time (operation sequences on one result); "
        "distinct = distinct (component, input) pairs; non-trivial = non-empty input")
ASSUMPTIONS = [
    "pathlib.PurePosixPath / os.path.exists / os.path.realpath are the stdlib's (modelled in S2T/Model/Iface.lean, tied here)",
    "CPython str/bytes codecs (utf-8 strict, utf-16-le replace/surrogatepass) — the model of utf-16 'replace' is tied here",
    "str.isdecimal / int() digit values are a parameter of the model (unicodedata.decimal supplied per case)",
    "third-party parsers (zipfile, ElementTree, olefile, openpyxl, pypdf, email) produce the objects the extractors read",
    "that no accessor raises and that fields hold their declared types is shown only on the results explored here",
    "io.BytesIO object semantics (tell / read / seek(0) / close, one position per object) — the heap model of S2T/Model/IfaceStreams.lean is tied here (c04.collect)",
    "xml.etree.ElementTree: `.text` of an element that is present but empty is None (the three states of S2T/Model/IfaceOptText.lean)",
]
ASSUMPTIONS += [
    "float() / math.isfinite / round of the running interpreter are the host of S2T/Model/IfaceLength.lean (finiteness and pixel count supplied per case)",
    "the guards recognised syntactically by tools/gen/iface_total.py (test of the container / match object on the path, earlier early-exit, try, default argument, "
    "math.isfinite early-exit) do protect the operation they are attached to",
]
TRUSTED = ["model of data_types accessors, PurePosixPath, RTF \\uN decoding in S2T/Model/Iface.lean",
           "tools/gen/iface.py (AST data-flow classification of the constructor call sites; origin of the payload object per site; "
           "form of every get_bytes(); guard classification of every `.text` read)"]

LIMIT_S = 15
MAX_REPLAY_BYTES = 700_000


# ----------------------------------------------------------------------------- helpers
class _MemLimit:
    """address-space cap while untrusted inputs are parsed in-process (a runaway allocation becomes MemoryError)"""

    def __init__(self, extra=4 << 30):
        self.extra = extra

    def __enter__(self):
        self.old = resource.getrlimit(resource.RLIMIT_AS)
        try:
            with open("/proc/self/statm") as fh:
                cur = int(fh.read().split()[0]) * os.sysconf("SC_PAGE_SIZE")
            resource.setrlimit(resource.RLIMIT_AS, (cur + self.extra, self.old[1]))
        except Exception:  # noqa: BLE001
            pass
        return self

    def __exit__(self, *a):
        try:
            resource.setrlimit(resource.RLIMIT_AS, self.old)
        except Exception:  # noqa: BLE001
            pass
        return False


def _b64(b: bytes) -> str:
    return base64.b64encode(b).decode("ascii")


def _dt():
    from sharepoint2text.parsing.extractors import data_types
    return data_types


def _classes(role_base):
    dt = _dt()
    out = []
    for name, c in sorted(vars(dt).items()):
        if isinstance(c, type) and c.__module__ == dt.__name__ and dataclasses.is_dataclass(c) \
                and not getattr(c, "_is_protocol", False) and role_base in {b.__name__ for b in c.__mro__}:
            out.append(c)
    return out


def _mk(cls, **kw):
    """instance with required fields filled"""
    req = {}
    for f in dataclasses.fields(cls):
        if f.default is dataclasses.MISSING and f.default_factory is dataclasses.MISSING:
            req[f.name] = 0 if "int" in str(f.type) else ""
    req.update(kw)
    return cls(**req)


# ----------------------------------------------------------------------------- A. tables
def _gen_tables(ctx):
    rng = ctx.rng
    tables = [[], [[]], [[], []], [[1]], [[1, 2], [3]], [[1], [2, 3, 4], []], [[], [1, 2]], [[1, 2, 3]] * 4]
    for _ in range(ctx.n(40, 600)):
        n = rng.choice((0, 1, 2, 3, 5, 9, 40))
        if rng.random() < 0.4:
            w = rng.randint(0, 7)
            tables.append([[rng.randint(0, 9) for _ in range(w)] for _ in range(n)])
        else:
            tables.append([[rng.randint(0, 9) for _ in range(rng.choice((0, 0, 1, 2, 3, 8, 30)))] for _ in range(n)])
    return tables


def _gen_xls(ctx):
    rng = ctx.rng
    keys = ["a", "b", "c", "", "ü", "a ", "0", "None"]
    out = [[], [{}], [{}, {"a": 1}], [{"a": 1, "b": 2}, {"b": 3}], [{"a": 1}, {"a": 2, "z": 9}]]
    for _ in range(ctx.n(30, 400)):
        n = rng.choice((1, 1, 2, 3, 6))
        rows = []
        for _ in range(n):
            ks = rng.sample(keys, rng.randint(0, len(keys)))
            rows.append({k: rng.randint(0, 99) for k in ks})
        out.append(rows)
    return out


def _check_tables(ctx, broken):
    table_classes = _classes("TableInterface")
    tables = _gen_tables(ctx)
    for cls in table_classes:
        name = cls.__name__
        if name == "XlsSheet":
            cases = _gen_xls(ctx)
            reqs = [{"op": "c04.xls", "data": [[[k, v] for k, v in row.items()] for row in data]} for data in cases]
            outs = ctx.drive(reqs)
            for data, o in zip(cases, outs):
                ctx.case(("xls", repr(data)), nontrivial=bool(data))
                ctx.count("tables/XlsSheet/" + ("empty" if not data else "data"))
                try:
                    sh = cls(data=[dict(r) for r in data])
                    t = sh.get_table()
                    d = sh.get_dim()
                    impl_t = [[({"k": c} if i == 0 else (None if c is None else {"v": c})) for c in row] for i, row in enumerate(t)]
                    impl = {"table": impl_t, "dim": {"rows": d.rows, "columns": d.columns}}
                except Exception as e:  # noqa: BLE001
                    impl = {"raised": type(e).__name__}
                if impl != o:
                    broken.append(Broken("correspondence", "c04.xls", f"impl={impl} model={o}"[:600], case={"component": "table", "cls": name, "data": data}))
                    break
            continue
        reqs = [{"op": "c04.dim", "rows": t} for t in tables]
        outs = ctx.drive(reqs)
        bad = 0
        for t, o in zip(tables, outs):
            ctx.case(("table", name, repr(t)), nontrivial=bool(t))
            ctx.count(f"tables/{name}/" + ("empty" if not t else "rect" if len({len(r) for r in t}) == 1 else "ragged"))
            try:
                obj = cls(data=[list(r) for r in t])
                d = obj.get_dim()
                same = obj.get_table() == t
                impl = {"rows": d.rows, "columns": d.columns}
            except Exception as e:  # noqa: BLE001
                impl, same = {"raised": type(e).__name__}, True
            if impl != o or not same:
                bad += 1
                if bad <= 2:
                    broken.append(Broken("correspondence", "c04.dim", f"{name}: impl={impl} table-is-data={same} model={o}", case={"component": "table", "cls": name, "data": t}))
    ctx.sample({"component": "table", "classes": [c.__name__ for c in table_classes], "cases_per_class": len(tables)})


# ----------------------------------------------------------------------------- B. images
def _image_instance(cls, payload):
    """what the constructor sites build: payload v / io.BytesIO(v) with size_bytes=len(v); nothing for None"""
    flds = {f.name: f for f in dataclasses.fields(cls)}
    pf = "data" if "data" in flds else "blob"
    kw = {}
    if payload is not None:
        kw[pf] = io.BytesIO(payload) if "BytesIO" in str(flds[pf].type) else payload
        if "size_bytes" in flds:
            kw["size_bytes"] = len(payload)
    return _mk(cls, **kw), ("stream" if "BytesIO" in str(flds[pf].type) else "bytes")


def _check_images(ctx, broken):
    rng = ctx.rng
    classes = _classes("ImageInterface")
    for cls in classes:
        name = cls.__name__
        cases = [(None, 0), (b"", 0), (b"x", 0), (b"x", 1), (b"abc", 2), (b"abc", 5)]
        for _ in range(ctx.n(12, 150)):
            n = rng.choice((0, 1, 2, 7, 64, 1000, 4096))
            cases.append((bytes(rng.randrange(256) for _ in range(n)), rng.choice((0, 1, n // 2, n, n + 3))))
        reqs, impls = [], []
        for payload, k in cases:
            im, kind = _image_instance(cls, payload)
            try:
                s1 = im.get_bytes()
                pos1 = s1.tell()
                data1 = s1.read()
                s1.seek(0)
                s1.read(k)  # the caller consumes k bytes of the stream it was given
                s2 = im.get_bytes()
                pos2 = s2.tell()
                data2 = s2.read()
                impl = {"len1": len(data1), "pos1": pos1, "pos2": pos2, "read": list(data1), "same": data2 == data1,
                        "size": getattr(im, "size_bytes", len(payload or b""))}
            except Exception as e:  # noqa: BLE001
                impl = {"raised": f"{type(e).__name__}: {e}"[:100]}
            reqs.append({"op": "c04.bytes", "kind": kind, "data": None if payload is None else list(payload), "consume": k})
            impls.append(impl)
        outs = ctx.drive(reqs)
        bad = 0
        for (payload, k), impl, o in zip(cases, impls, outs):
            ctx.case(("image", name, payload, k), nontrivial=bool(payload))
            ctx.count(f"images/{name}/" + ("none" if payload is None else "empty" if not payload else "data"))
            if impl != o:
                bad += 1
                if bad <= 2:
                    broken.append(Broken("correspondence", "c04.bytes", f"{name}: impl={str(impl)[:200]} model={str(o)[:200]}",
                                         case={"component": "image", "cls": name, "payload_b64": None if payload is None else _b64(payload), "consume": k}))
    ctx.sample({"component": "image", "classes": [c.__name__ for c in classes]})


_NUMBER_FIELDS = ("image_index", "image_number", "index", "unit_number", "unit_name", "unit_index", "slide_number", "page_number")


def _default_site_objects():
    """image objects as the constructor call sites of the package build them with respect to the number-like
    fields: fields a site does not pass stay at the dataclass default, the others are set to 1.
    (own AST scan of the package, independent of tools/gen/iface.py): [(class name, fields left default, instance)]"""
    import ast
    dt = _dt()
    classes = {c.__name__: c for c in _classes("ImageInterface")}
    out, seen = [], set()
    root = os.path.join(corpus.REPO, "sharepoint2text")
    for d, dirs, files in os.walk(root):
        dirs[:] = sorted(x for x in dirs if x not in ("tests", "__pycache__"))
        for fn in sorted(files):
            if not fn.endswith(".py"):
                continue
            try:
                with open(os.path.join(d, fn), encoding="utf-8") as fh:
                    tree = ast.parse(fh.read())
            except (OSError, SyntaxError):
                continue
            for n in ast.walk(tree):
                if not (isinstance(n, ast.Call) and isinstance(n.func, ast.Name) and n.func.id in classes):
                    continue
                if any(k.arg is None for k in n.keywords):
                    continue
                cls = classes[n.func.id]
                order = [f.name for f in dataclasses.fields(cls)]
                given = {k.arg for k in n.keywords} | set(order[: len(n.args)])
                left = tuple(f for f in order if f in _NUMBER_FIELDS and f not in given)
                if not left or (cls.__name__, left) in seen:
                    continue
                seen.add((cls.__name__, left))
                try:
                    im, _ = _image_instance(cls, b"abc")
                except Exception:  # noqa: BLE001
                    continue
                for f in order:
                    if f in _NUMBER_FIELDS and f not in left:
                        setattr(im, f, 1)
                out.append((cls.__name__, ",".join(left), im))
    return out


def _check_default_sites(ctx, violations):
    for cname, fld, im in _default_site_objects():
        w = O.Walk(None)
        w.image(cname, im)
        ctx.case(("default-site", cname, fld))
        ctx.count(f"images/{cname}/site-leaves-{fld}-default")
        for k, what in w.out:
            violations.append(Violation(k, f"{cname} as built by a constructor site that does not pass {fld}: {what}"[:400],
                                        {"kind": "image-default", "cls": cname, "field": fld}))



# ----------------------------------------------------------------------------- B2. several images at once (stream identity)
def _collect_case(cls, sources, order, close):
    """what the real classes do: images built like the constructor sites build them (`fresh`: own payload object;
    `cached`: ONE stream object per key stored in every image of that key — the defect class), get_bytes() of all
    collected first, optionally one stream closed, then read in `order`"""
    flds = {f.name: f for f in dataclasses.fields(cls)}
    pf = "data" if "data" in flds else "blob"
    is_stream = "BytesIO" in str(flds[pf].type)
    cache, ims = {}, []
    for s_ in sources:
        if s_["t"] == "none":
            ims.append(_mk(cls))
            continue
        v = bytes(s_["data"])
        if is_stream:
            if s_["t"] == "cached":
                if s_["key"] not in cache:
                    cache[s_["key"]] = io.BytesIO(v)
                obj = cache[s_["key"]]
                v = obj.getvalue()
            else:
                obj = io.BytesIO(v)
        else:
            obj = v
        kw = {pf: obj}
        if "size_bytes" in flds:
            kw["size_bytes"] = len(v)
        ims.append(_mk(cls, **kw))
    streams, raised = [], False
    for im in ims:
        try:
            streams.append(im.get_bytes())
        except ValueError:
            streams.append(None)
            raised = True
    if close is not None and close < len(streams) and streams[close] is not None:
        streams[close].close()
    reads = []
    for i in order:
        st = streams[i] if i < len(streams) else None
        if st is None:
            reads.append(None)
            continue
        try:
            pos = st.tell()
            reads.append({"pos": pos, "data": list(st.read())})
        except ValueError:
            reads.append(None)
    live = [id(x) for x in streams if x is not None]
    return {"reads": reads, "sizes": [getattr(im, "size_bytes", None) for im in ims], "raised": raised, "distinct": len(set(live)) == len(live)}


def _gen_collect_cases(ctx):
    rng = ctx.rng
    F = lambda *b: {"t": "fresh", "data": list(b)}   # noqa: E731
    C = lambda k, *b: {"t": "cached", "key": k, "data": list(b)}   # noqa: E731
    N = {"t": "none"}
    cases = [([F(1, 2, 3), F(4, 5)], [0, 1], None), ([F(1, 2, 3), F(4, 5)], [1, 0], None), ([F(1), N, F()], [2, 1, 0], None),
             ([F(1, 2), F(1, 2)], [0, 1], 0), ([C(1, 7, 8, 9), C(1, 7, 8, 9)], [0, 1], None), ([C(1, 7, 8, 9), C(1, 7, 8, 9)], [1], 0),
             ([C(1, 7), F(7), C(1, 7), C(2, 5, 5)], [3, 2, 1, 0], None), ([F(9)] * 5, [4, 0, 2, 1, 3, 0], 2)]
    for _ in range(ctx.n(12, 200)):
        n = rng.randint(1, 6)
        srcs = []
        for _ in range(n):
            r = rng.random()
            data = [rng.randrange(256) for _ in range(rng.choice((0, 1, 3, 9)))]
            srcs.append(N if r < 0.15 else C(rng.randint(1, 2), *data) if r < 0.4 else F(*data))
        # one object per key holds ONE content: the first source of a key decides
        first = {}
        for s_ in srcs:
            if s_["t"] == "cached":
                s_["data"] = first.setdefault(s_["key"], s_["data"])
        order = [rng.randrange(n) for _ in range(rng.randint(1, n + 2))] if rng.random() < 0.5 else rng.sample(range(n), n)
        cases.append((srcs, order, rng.choice([None, None, rng.randrange(n)])))
    return cases


def _check_collect(ctx, broken):
    classes = _classes("ImageInterface")
    cases = _gen_collect_cases(ctx)
    for cls in classes:
        name = cls.__name__
        flds = {f.name: f for f in dataclasses.fields(cls)}
        pf = "data" if "data" in flds else "blob"
        kind = "stream" if "BytesIO" in str(flds[pf].type) else "bytes"
        outs = ctx.drive([{"op": "c04.collect", "kind": kind, "sources": s_, "order": o, "close": c} for s_, o, c in cases])
        bad = 0
        for (srcs, order, close), o in zip(cases, outs):
            shared = kind == "stream" and any(x["t"] == "cached" for x in srcs)
            ctx.case(("collect", name, json.dumps(srcs), tuple(order), close), nontrivial=len(srcs) > 1)
            ctx.count(f"collect/{name}/" + ("shared-object" if shared else "own-objects") + ("/one-closed" if close is not None else ""))
            try:
                impl = _collect_case(cls, srcs, order, close)
            except Exception as e:  # noqa: BLE001
                impl = {"raised-in-harness": f"{type(e).__name__}: {e}"[:100]}
            if "sizes" in impl and "size_bytes" not in flds:
                impl["sizes"] = o.get("sizes")
            if impl != o:
                bad += 1
                if bad <= 2:
                    broken.append(Broken("correspondence", "c04.collect", f"{name}: sources={srcs} order={order} close={close}: impl={str(impl)[:250]} model={str(o)[:250]}",
                                         case={"component": "collect", "cls": name, "sources": srcs, "order": order, "close": close}))
    ctx.sample({"component": "collect", "sources": cases[6][0], "order": cases[6][1]})


def _collect_oracle(c):
    """the statement on image objects built from FRESH sources only (what the constructor sites build): every stream
    collected first and read afterwards is at 0 and delivers size_bytes bytes; the others survive one being closed"""
    cls = getattr(_dt(), c["cls"])
    srcs = [s_ if s_["t"] != "cached" else {"t": "fresh", "data": s_["data"]} for s_ in c["sources"]]
    msgs = []
    for close in (None, c.get("close")):
        r = _collect_case(cls, srcs, c["order"], close)
        for i, rd in zip(c["order"], r["reads"]):
            if close is not None and i == close:
                continue
            want = len(srcs[i].get("data", []))
            if rd is None:
                msgs.append(f"image {i}: get_bytes() / its stream raised although only the stream of image {close} was closed")
            elif rd["pos"] != 0 or len(rd["data"]) != want:
                # an index read twice is at its end the second time: only first reads count
                if c["order"].index(i) == list(zip(c["order"], r["reads"])).index((i, rd)):
                    msgs.append(f"image {i}: stream at position {rd['pos']} delivering {len(rd['data'])} of {want} bytes after the streams of all images were collected")
        if not r["distinct"]:
            msgs.append("two image objects built from separate payloads return the same stream object")
    return msgs


# ----------------------------------------------------------------------------- F6. generated container documents
_DOC_META_EXPECT = {
    "docx": {"title": "title", "creator": "author", "subject": "subject", "keywords": "keywords", "description": "comments"},
    "pptx": {"title": "title", "creator": "author", "subject": "subject", "keywords": "keywords", "description": "comments"},
    "xlsx": {"title": "title", "creator": "creator", "subject": "subject", "keywords": "keywords", "description": "description"},
    "odt": {f: f for f in D.META_FIELDS}, "odp": {f: f for f in D.META_FIELDS}, "ods": {f: f for f in D.META_FIELDS}, "odg": {f: f for f in D.META_FIELDS},
    "epub": {"title": "title", "creator": "creator", "description": "description"},
    "html": {"title": "title", "creator": "author", "description": "description", "keywords": "keywords"},
}


def _doc_findings(spec, path="g/doc"):
    """the statement on the document a spec describes: (status, [(key, what)], name, bytes)"""
    from sharepoint2text.parsing import router
    name, blob = D.build(spec)
    fn = router.get_extractor(name)
    p = None if path is None else path + "." + spec["fmt"]
    with _MemLimit():
        r = corpus.run_extractor(fn, blob, path=p, limit_s=LIMIT_S)
    if r[0] == "family":
        return "rejected", [], name, blob
    if r[0] == "hang":
        return "hang", [], name, blob
    if r[0] == "other":
        return "other:" + r[1], [(f"extract-raises:{fn.__name__}:generated", f"extractor raised {r[1]} (not an ExtractionError)")], name, blob
    found = []
    for res in r[1][:20]:
        found += O.walk(res, p)
    if r[1]:
        md = r[1][0].get_metadata()
        for f, attr in _DOC_META_EXPECT.get(spec["fmt"], {}).items():
            want = (spec.get("meta") or {}).get(f)
            if want and want.strip() == want and hasattr(md, attr) and getattr(md, attr) != want:
                found.append((f"property-changed:{type(md).__name__}.{attr}", f"stored document property {f} = {want!r} is reported as {getattr(md, attr)!r}"))
    return "ok", found, name, blob


def _doc_specs(ctx):
    rng = ctx.rng
    out = []
    for fmt in D.FORMATS:
        fixed = D.fixed_specs(fmt)
        if not ctx.thorough:     # the two placement documents always; a seed-dependent third of the one-at-a-time grid
            fixed = fixed[:2] + [s_ for i, s_ in enumerate(fixed[2:]) if (i + ctx.seed) % 3 == 0]
        out += fixed
        if fmt in D.VALUE_FORMATS:   # sizes as the file spells them: every lexical class, in every format that stores them
            forms = [f for f in V.LENGTH_FORMS if V.xml_safe(f)]
            out += D.value_specs(fmt, forms, per_doc=12 if ctx.thorough else 24)
        if fmt in D.ZIP_FORMATS:     # the same XML parts in each of their byte forms (encoding declared in the part)
            out += D.serialisation_specs(fmt, None if ctx.thorough else rng)
            if ctx.thorough:
                out += D.serialisation_specs(fmt, rng)
        for _ in range(ctx.n(12, 300)):
            out.append(D.random_spec(rng, fmt, _xml_length))
    return out


def _xml_length(rng):
    for _ in range(20):
        s_ = V.random_length(rng)
        if V.xml_safe(s_) and len(s_) < 2000:
            return s_
    return "2cm"


def _check_docs(ctx, violations):
    seen_keys = {v.key for v in violations}
    for spec in _doc_specs(ctx):
        st, found, name, blob = _doc_findings(spec)
        ctx.case(("doc", json.dumps(spec, sort_keys=True)))
        used = [p["part"] for u in spec["units"] for p in u["pics"]]
        ctx.count(f"results/generated-doc/{spec['fmt']}/{st.split(':')[0]}" + ("/picture-file-placed-several-times" if len(set(used)) < len(used) else ""))
        if spec.get("xml"):
            ctx.count(f"results/generated-doc/xml-parts-written-as/{spec['xml'].get('enc')}/{st.split(':')[0]}")
        for u in spec["units"]:
            for p in u["pics"]:
                for it in ("name", "title", "desc"):
                    v = p.get(it)
                    ctx.count(f"results/generated-doc/frame-{it}/" + ("absent" if v is None else "empty" if v == "" else "blank" if not v.strip() else "text"))
        for key, what in found:
            if key not in seen_keys:
                seen_keys.add(key)
                violations.append(Violation(key, f"generated {D.shape(spec)}: {what}"[:400], {"kind": "doc", "spec": spec}))
    ctx.sample({"component": "generated-doc", "spec": D.fixed_specs("odt")[0]})

# ----------------------------------------------------------------------------- C. paths
def _path_cases(ctx, tmpdir):
    rng = ctx.rng
    base = [None, "", ".", "..", "/", "//", "///", "a", "a.txt", ".hidden", ".hidden.txt", "x.", "..x", "a.b.c", "a.tar.gz",
            "dir/a.txt", "dir//a.txt", "dir/./a.txt", "dir/../a.txt", "dir/a.txt/", "dir/a.txt//", "./a.txt", "/abs/a.txt",
            "//net/share/a.txt", "///three/a.txt", "////four", "/nonexistent-c04/d/a.docx", "ü/ñ.TXT", "日本/文書.docx",
            "a b/c d.e f", "arch.zip!/m.txt", "arch.zip!/dir/m.tar.gz", "/abs/arch.7z!/in/../x.pdf", "o.zip!/i.zip!/x.y",
            "a!/", "!/a", "x\u0000y.txt", "a" * 300 + ".txt", "d/" + "b" * 300 + "/x.txt", "ü" * 200 + ".md",
            "a\\b.txt", "C:\\dir\\f.doc", "a.txt ", " a.txt", "a..txt", "a.", ".", "./", "../..", "a/..", "a/.", "a/./",
            "-", "~", "~/x.txt", "%41.txt", "a\nb.txt", "tmp", "/tmp", "/tmp/", "/proc/self", "/etc/hostname", "/dev/null"]
    # paths that exist on the host (files, dirs, symlinks; relative to cwd too)
    f = os.path.join(tmpdir, "real file.docx")
    with open(f, "wb") as fh:
        fh.write(b"x")
    os.mkdir(os.path.join(tmpdir, "sub.d"))
    os.symlink(f, os.path.join(tmpdir, "link.lnk"))
    os.symlink(os.path.join(tmpdir, "sub.d"), os.path.join(tmpdir, "dlink"))
    os.symlink(os.path.join(tmpdir, "missing"), os.path.join(tmpdir, "dangling.x"))
    base += [f, f + "/", os.path.join(tmpdir, "sub.d"), os.path.join(tmpdir, "sub.d", "new.txt"), os.path.join(tmpdir, "link.lnk"),
             os.path.join(tmpdir, "dlink", "in.txt"), os.path.join(tmpdir, "dangling.x"), os.path.join(tmpdir, ".", "sub.d", "..", "real file.docx"),
             os.path.join(tmpdir, "real file.docx!", "member.txt"), tmpdir + "//sub.d", os.path.relpath(f), os.path.relpath(tmpdir) + "/sub.d/q.w"]
    alphabet = ["/", "/", ".", ".", "a", "b", "ü", " ", "!", "!/", "..", "x.y", "//"]
    for _ in range(ctx.n(150, 3000)):
        base.append("".join(rng.choice(alphabet) for _ in range(rng.randint(0, 9))))
    return base


def _host(sp):
    try:
        return os.path.realpath(sp) if os.path.exists(sp) else None
    except (OSError, ValueError):
        return None


def _check_paths(ctx, broken):
    dt = _dt()
    with tempfile.TemporaryDirectory(prefix="s2t_c04_") as td:
        td = os.path.realpath(td)
        cases = _path_cases(ctx, td)
        reqs, impls = [], []
        for p in cases:
            if p is not None:
                try:
                    p.encode("utf-8")
                except UnicodeEncodeError:
                    continue
            m = dt.FileMetadataInterface()
            try:
                m.populate_from_path(p)
                impl = {"filename": m.filename, "file_extension": m.file_extension, "file_path": m.file_path, "folder_path": m.folder_path}
            except Exception as e:  # noqa: BLE001
                impl = {"raised": f"{type(e).__name__}: {e}"[:120]}
            if p is None:
                reqs.append({"op": "c04.path", "path": None, "host_file": None, "host_folder": None})
            else:
                pp = PurePosixPath(p)
                if "raised" not in impl:
                    impl["str"], impl["parent"] = str(pp), str(pp.parent)
                reqs.append({"op": "c04.path", "path": p, "host_file": _host(str(pp)), "host_folder": _host(str(pp.parent))})
            impls.append((p, impl))
        outs = ctx.drive(reqs)
        bad = 0
        for (p, impl), o in zip(impls, outs):
            ctx.case(("path", p), nontrivial=bool(p))
            kind = ("none" if p is None else "archive-member" if "!/" in p else "absolute" if p.startswith("/") else "relative")
            ctx.count(f"paths/{kind}/" + ("on-host" if p and _host(str(PurePosixPath(p))) else "not-on-host"))
            if impl != o:
                bad += 1
                if bad <= 4:
                    broken.append(Broken("correspondence", "c04.path", f"path={p!r}: impl={str(impl)[:300]} model={str(o)[:300]}", case={"component": "path", "path": p}))
        ctx.sample({"component": "path", "path": impls[7][0], "impl": impls[7][1], "model": outs[7]})


# ----------------------------------------------------------------------------- D. unicode
_WS_OR_SYNTAX = {0x20, 0x09, 0x0A, 0x0D, 0x0B, 0x0C, 0x5C, 0x7B, 0x7D}
_SURR = [0xD800, 0xD83D, 0xDBFF, 0xDC00, 0xDE00, 0xDFFF]


def _rand_unit(rng):
    r = rng.random()
    if r < 0.45:
        return rng.choice(_SURR + [rng.randint(0xD800, 0xDFFF)])
    if r < 0.6:
        return rng.choice([0x41, 0xE9, 0x20AC, 0xFFFD, 0xFFFF, 0xFEFF, 0x00, 0x7F, 0x85, 0xA0, 0x2028, 0xD7FF, 0xE000])
    return rng.randint(0, 0xFFFF)


def _escape_texts(ctx, valid=True):
    """(text, nonascii-digit table) — token stream of `\\uN?` / `\\'hh` / letters (no other RTF syntax)"""
    rng = ctx.rng
    out = []
    arabic = "٠١٢٣٤٥٦٧٨٩"
    for _ in range(ctx.n(150, 4000)):
        parts = ["x"]
        for _ in range(rng.randint(1, 10)):
            r = rng.random()
            if r < 0.6:
                u = _rand_unit(rng)
                while valid and u in _WS_OR_SYNTAX:
                    u = _rand_unit(rng)
                n = rng.choice([u, u - 65536, u + 65536 * rng.randint(1, 3)]) if valid else rng.choice([u, -u, u * 7, 10 ** rng.randint(5, 12)])
                digits = str(abs(n))
                if rng.random() < 0.1:
                    digits = "".join(arabic[int(d)] if rng.random() < 0.5 else d for d in digits)
                if rng.random() < 0.1:
                    digits = "0" * rng.randint(1, 3) + digits
                parts.append("\\u" + ("-" if n < 0 else "") + digits + rng.choice(["?", "?", "", "??"] if not valid else ["?", "?", "", "?"]))
                if parts[-1][-1].isdigit() or parts[-1][-1] in arabic:
                    parts.append(rng.choice(["y", "?", "z"]))
            elif r < 0.8:
                h = rng.randint(0x21, 0xFF)
                while h in _WS_OR_SYNTAX:
                    h = rng.randint(0x21, 0xFF)
                s = "%02x" % h
                parts.append("\\'" + (s.upper() if rng.random() < 0.3 else s))
            elif r < 0.9 or valid:
                parts.append(rng.choice(["a", "bc", "Q", "é", "😀", "1", "9?", "'", "u", "-"]))
            else:
                parts.append(rng.choice(["\\u", "\\u-", "\\u?", "\\'", "\\'g1", "\\'a", "\\", "\\u+5?", "\\U12?", "\\u 12?", "\\'+1", "{", "}", " ", "\\par "]))
        parts.append("x")
        text = "".join(parts)
        table = sorted({(ord(c), unicodedata.decimal(c)) for c in text if ord(c) > 127 and unicodedata.decimal(c, None) is not None})
        out.append((text, [list(t) for t in table]))
    return out


def _check_unicode(ctx, broken):
    rng = ctx.rng
    from sharepoint2text.parsing.extractors.ms_legacy import rtf_extractor as rtf
    # D1. the repair function itself
    comb = getattr(rtf, "_combine_surrogates", None)
    lists = [[], [0xD83D, 0xDE00], [0xD83D], [0xDE00], [0xDE00, 0xD83D], [0xD83D, 0xD83D, 0xDE00], [0x41, 0xD83D, 0x42, 0xDE00], [0xD800, 0xDFFF, 0xDBFF, 0xDC00]]
    for _ in range(ctx.n(150, 5000)):
        lists.append([rng.choice(_SURR + [0x41, 0x10000, 0x10FFFF, 0xFFFD, 0xE9]) if rng.random() < 0.8 else rng.randint(0, 0x10FFFF) for _ in range(rng.randint(0, 9))])
    outs = ctx.drive([{"op": "c04.combine", "cps": l} for l in lists])
    if comb is None:
        broken.append(Broken("correspondence", "c04.combine", "rtf_extractor._combine_surrogates does not exist: the \\uN surrogate repair the model describes is not in the source",
                             case={"component": "rtf-missing-repair"}))
    else:
        bad = 0
        for l, o in zip(lists, outs):
            ctx.case(("combine", tuple(l)), nontrivial=bool(l))
            ctx.count("unicode/combine/" + ("has-surrogate" if any(0xD800 <= c <= 0xDFFF for c in l) else "clean"))
            try:
                impl = [ord(c) for c in comb("".join(chr(c) for c in l))]
            except Exception as e:  # noqa: BLE001
                impl = f"raised {type(e).__name__}"
            if impl != o.get("cps"):
                bad += 1
                if bad <= 2:
                    broken.append(Broken("correspondence", "c04.combine", f"cps={l}: impl={impl} model={o.get('cps')}", case={"component": "combine", "cps": l}))
    # D2. utf-16-le 'replace' (legacy PPT/DOC text decoding; the codec the repair uses)
    ucases = [([], False), ([0xD83D], True), ([0xDE00, 0x41], False)]
    for _ in range(ctx.n(100, 3000)):
        ucases.append(([_rand_unit(rng) for _ in range(rng.randint(0, 8))], rng.random() < 0.3))
    outs = ctx.drive([{"op": "c04.utf16", "units": u, "odd": odd} for u, odd in ucases])
    bad = 0
    for (u, odd), o in zip(ucases, outs):
        ctx.case(("utf16", tuple(u), odd), nontrivial=bool(u))
        ctx.count("unicode/utf16-replace")
        b = b"".join(x.to_bytes(2, "little") for x in u) + (b"\x41" if odd else b"")
        impl = [ord(c) for c in b.decode("utf-16-le", errors="replace")]
        if impl != o.get("cps"):
            bad += 1
            if bad <= 2:
                broken.append(Broken("correspondence", "c04.utf16", f"units={u} odd={odd}: impl={impl} model={o.get('cps')}", case={"component": "utf16", "units": u, "odd": odd}))
    # D3. the escape passes: _strip_rtf_simple and the full reader on the valid token stream (exact), malformed stream (encodable)
    valid = _escape_texts(ctx, True)
    outs = ctx.drive([{"op": "c04.escapes", "cps": [ord(c) for c in t], "digits": tab, "fixed": True} for t, tab in valid])
    bad = 0
    for (t, tab), o in zip(valid, outs):
        ctx.case(("escapes", t))
        ctx.count("unicode/rtf-escapes/valid")
        want = "".join(chr(c) for c in o.get("cps", []))
        try:
            got_simple = rtf._RtfParser(b"")._strip_rtf_simple(t)
        except Exception as e:  # noqa: BLE001
            got_simple = f"<raised {type(e).__name__}>"
        doc = ("{\\rtf1 " + t + "}").encode("utf-8")
        r = corpus.run_extractor(rtf.read_rtf, doc, path=None, limit_s=LIMIT_S)
        got_full = r[1][0].get_full_text() if r[0] == "ok" and r[1] else f"<{r[0]}>"
        if got_simple != want or got_full != want:
            bad += 1
            if bad <= 3:
                broken.append(Broken("correspondence", "c04.escapes", f"text={t!r}: _strip_rtf_simple={got_simple!r} read_rtf.get_full_text={got_full!r} model={want!r}"[:700],
                                     case={"component": "rtf", "data_b64": _b64(doc), "name": "x.rtf"}))
    for t, tab in _escape_texts(ctx, False)[: ctx.n(80, 1500)]:
        ctx.case(("escapes-malformed", t))
        ctx.count("unicode/rtf-escapes/malformed")
        try:
            got = rtf._RtfParser(b"")._strip_rtf_simple(t)
            ok = O.utf8_ok(got)
        except Exception as e:  # noqa: BLE001
            ok, got = False, f"<raised {type(e).__name__}>"
        if not ok:
            bad += 1
            if bad <= 3:
                broken.append(Broken("correspondence", "c04.escapes-malformed", f"_strip_rtf_simple({t!r}) -> {got!r} is not encodable", case={"component": "rtf", "data_b64": _b64(("{\\rtf1 " + t + "}").encode("utf-8")), "name": "x.rtf"}))
    # D4. _get_page_for_position
    pcases = [(rng.randint(0, 60), sorted(rng.randint(0, 60) for _ in range(rng.randint(0, 6)))) for _ in range(ctx.n(40, 500))]
    pcases += [(5, [9, 1, 2]), (0, []), (3, [3, 3, 3])]
    outs = ctx.drive([{"op": "c04.page", "pos": p, "breaks": b} for p, b in pcases])
    for (p, b), o in zip(pcases, outs):
        ctx.case(("page", p, tuple(b)))
        ctx.count("numbers/rtf-page")
        impl = rtf._get_page_for_position(p, b)
        if impl != o.get("page"):
            broken.append(Broken("correspondence", "c04.page", f"pos={p} breaks={b}: impl={impl} model={o.get('page')}", case={"component": "page"}))
            break


# ----------------------------------------------------------------------------- E. property readers
_VALUES = ["Title", " A  title ", "ünï cödé 日本", "a&b <c> \"q\" 'z'", "x\ty\nz", "\u00a0nbsp\u00a0", "😀 astral", "0", "None", " ", "", None]


def _rand_value(rng):
    if rng.random() < 0.6:
        return rng.choice(_VALUES)
    return "".join(rng.choice("ab Z.,-_é日😀\t&<") for _ in range(rng.randint(1, 12)))


def _check_readers(ctx, broken):
    rng = ctx.rng
    import xml.etree.ElementTree as ET
    from sharepoint2text.parsing.extractors.ms_modern import docx_extractor as dx, pptx_extractor as px
    from sharepoint2text.parsing.extractors.open_office import _shared as odf
    DC, CP = "{http://purl.org/dc/elements/1.1/}", "{http://schemas.openxmlformats.org/package/2006/metadata/core-properties}"
    core = [("title", DC + "title"), ("author", DC + "creator"), ("subject", DC + "subject"), ("keywords", CP + "keywords"), ("comments", DC + "description")]
    odf_ns = {"office": "urn:oasis:names:tc:opendocument:xmlns:office:1.0", "dc": "http://purl.org/dc/elements/1.1/", "meta": "urn:oasis:names:tc:opendocument:xmlns:meta:1.0"}
    odf_rows = [("title", "dc:title"), ("description", "dc:description"), ("subject", "dc:subject"), ("creator", "dc:creator"), ("keywords", "meta:keyword")]

    def clark(tag):
        pfx, local = tag.split(":")
        return "{%s}%s" % (odf_ns[pfx], local)

    n = ctx.n(40, 600)
    for fam, rows, reader in (("docx", core, "dx"), ("pptx", core, "px"), ("odf", [(f, clark(t)) for f, t in odf_rows], "odf")):
        reqs, exp = [], []
        for _ in range(n):
            children = []
            pool = [t for _, t in rows] + [DC + "other", CP + "category"]
            for _ in range(rng.randint(0, 8)):
                children.append((rng.choice(pool), _rand_value(rng)))
            if fam == "odf":
                root = ET.Element("{%s}document-meta" % odf_ns["office"])
                holder = ET.SubElement(root, "{%s}meta" % odf_ns["office"])
            else:
                root = holder = ET.Element(CP + "coreProperties")
            for t, v in children:
                ET.SubElement(holder, t).text = v
            try:
                if reader == "dx":
                    md = dx._extract_metadata_from_context(types.SimpleNamespace(_core_root=root))
                elif reader == "px":
                    md = px._extract_metadata_from_context(types.SimpleNamespace(_core_root=root))
                else:
                    md = odf.extract_odf_metadata(root, odf_ns)
                got = {f: getattr(md, f) for f, _ in rows}
            except Exception as e:  # noqa: BLE001
                got = {"raised": f"{type(e).__name__}: {e}"[:100]}
            for f, t in rows:
                reqs.append({"op": "c04.readfield", "children": [[a, b] for a, b in children], "tag": t, "default": ""})
                exp.append((fam, f, t, children, got.get(f, got)))
        outs = ctx.drive(reqs)
        bad = 0
        for (fam_, f, t, children, got), o in zip(exp, outs):
            ctx.case(("reader", fam_, f, repr(children)), nontrivial=bool(children))
            ctx.count(f"readers/{fam_}/" + ("present" if any(a == t and b for a, b in children) else "absent"))
            if got != o.get("value"):
                bad += 1
                if bad <= 2:
                    broken.append(Broken("correspondence", "c04.readfield", f"{fam_}.{f} children={children}: impl={got!r} model={o.get('value')!r}"[:500],
                                         case={"component": "reader", "family": fam_, "field": f}))


# ----------------------------------------------------------------------------- F. the statement on real results
PATH_FORMS = ["none", "relative", "absolute-missing", "unicode", "archive-member", "existing", "long-name"]


def _path_for(form, name, tmpdir, data):
    base = os.path.basename(name)
    if form == "none":
        return None
    if form == "relative":
        return "dir/sub/" + base
    if form == "absolute-missing":
        return "/nonexistent-c04/x/" + base
    if form == "unicode":
        return "ü日/ñ " + base
    if form == "archive-member":
        return "outer.zip!/in dir/" + base
    if form == "long-name":
        stem, dot, ext = base.rpartition(".")
        return "n" * 280 + dot + ext
    p = os.path.join(tmpdir, base)
    with open(p, "wb") as fh:
        fh.write(data)
    return p


def _extract_and_walk(fn, data, path, check_path=True):
    """-> (status, [(key, what)]) ; status in ok | rejected | hang | other:<cls>"""
    with _MemLimit():
        r = corpus.run_extractor(fn, data, path=path, limit_s=LIMIT_S)
    if r[0] == "family":
        return "rejected", []
    if r[0] == "hang":
        return "hang", []
    if r[0] == "other":
        return "other:" + r[1], []
    found = []
    for res in r[1][:50]:
        found += O.walk(res, path, check_path=check_path)
    return "ok", found


def _is_container(fn):
    return fn.__name__ in ("read_archive", "read_mbox_format_mail") or "mbox" in fn.__name__ or "archive" in fn.__name__


def _violation(key, what, name, data, path, extra=None):
    rep = {"kind": "extract", "name": name, "path": path}
    if len(data) <= MAX_REPLAY_BYTES:
        rep["data_b64"] = _b64(data)
    else:
        rep["fixture"] = name
    if extra:
        rep.update(extra)
    return Violation(key, f"{name} (path={path!r}): {what}"[:400], rep)


def _corrupt_picture_docs(fixtures):
    """zip-based fixtures re-packed with one picture member whose bytes no longer match its CRC (reading it raises)"""
    out = []
    for rel, data in fixtures:
        if not corpus.is_zip(data) or len(data) > 3_000_000:
            continue
        try:
            zin = zipfile.ZipFile(io.BytesIO(data))
            pics = [i for i in zin.infolist() if re.search(r"(media|Pictures)/[^/]+\.(png|jpe?g|gif|bmp|emf|wmf|svg)$", i.filename, re.I) and i.file_size > 16]
            if not pics:
                continue
            victim = pics[0].filename
            buf = io.BytesIO()
            with zipfile.ZipFile(buf, "w") as zout:
                for i in zin.infolist():
                    zout.writestr(zipfile.ZipInfo(i.filename), zin.read(i), zipfile.ZIP_STORED if i.filename == victim else zipfile.ZIP_DEFLATED)
            blob = bytearray(buf.getvalue())
            payload = zin.read(victim)
            at = bytes(blob).find(payload)
            if at < 0:
                continue
            blob[at + len(payload) // 2] ^= 0xFF
            out.append((rel + "#bad-picture", bytes(blob)))
        except Exception:  # noqa: BLE001
            continue
    return out


def _generated_docs(ctx):
    """(name, bytes) — documents built here that stress the text / unicode clauses"""
    rng = ctx.rng
    docs = [
        ("w1.rtf", b"{\\rtf1 \\u-10179?\\u-8704?}"),
        ("w2.rtf", b"{\\rtf1 \\u55357?x}"),
        ("w3.rtf", b"{\\rtf1{\\info{\\title \\u55357?t}}{\\header \\u55357?h} {\\footnote \\u56832?f} \\trowd \\u55357?c\\cell\\row x\\page \\u-10179?\\u-8704? \\u56832?}"),
        ("w4.rtf", b"{\\rtf1\\ansi \\u-10179?\\par\\u-8704? \\'ed\\'a0\\'80}"),
        ("m1.eml", b"Subject: caf\xe9 \xff\nFrom: a\xe9@b.c\nTo: x@y.z\n\nbody \xe9\n"),
        ("m2.eml", b"Subject: =?utf-8?b?7aCA?= x\nFrom: =?utf-16-le?b?ANg=?= <a@b.c>\nContent-Type: text/plain; charset=utf-8\n\nbody \xed\xa0\x80\n"),
        ("h1.html", b"<html><head><title>t&#xD800;</title><meta name=author content='a&#xDFFF;'></head><body>&#xD83D;&#xDE00; &#x110000; &#55357; x<img alt='&#xD800;' src=a.png><table><tr><td>1</td></tr><tr><td>2</td><td>3</td></tr></table></body></html>"),
        ("h2.html", b"\xff\xfe<\x00p\x00>\x00\x00\xd8<\x00/\x00p\x00>\x00"),
        ("t1.txt", b"\xed\xa0\x80 \xff\xfe"), ("t2.txt", b"\xff\xfe\x00\xd8a\x00"), ("t3.txt", b"+2AA-"), ("t4.json", b'{"a": "\\ud800"}'),
        ("t5.csv", b"a,b\n\xff\xfe\x00\xd8,1\n"), ("t6.md", b""), ("t7.txt", b"\x00\x00\xfe\xff\x00\x00\xd8\x00"),
    ]
    for i, d in enumerate(corpus.rtf_token_docs(rng, ctx.n(60, 1500))):
        docs.append((f"g{i}.rtf", d))
    for i in range(ctx.n(30, 600)):
        t, _ = rng.choice(_escape_texts_cache(ctx))
        wrap = rng.choice(["{\\rtf1 %s}", "{\\rtf1{\\info{\\title %s}{\\author %s}}%s\\page %s}", "{\\rtf1{\\header %s}\\trowd %s\\cell %s\\cell\\row{\\footnote %s}}",
                           "{\\rtf1 {\\field{\\fldinst HYPERLINK \"u\"}{\\fldrslt %s}} %s}"])
        docs.append((f"e{i}.rtf", (wrap.replace("%s", t)).encode("utf-8")))
    return docs


_ESC_CACHE = {}


def _escape_texts_cache(ctx):
    if id(ctx) not in _ESC_CACHE:
        _ESC_CACHE.clear()
        _ESC_CACHE[id(ctx)] = _escape_texts(ctx, True)[:200] + _escape_texts(ctx, False)[:100]
    return _ESC_CACHE[id(ctx)]


def _property_docs(ctx, fixtures):
    """documents with known document properties: (name, bytes, {reported field: expected value}) — the stored text
    must come out unchanged"""
    rng = ctx.rng
    from xml.sax.saxutils import escape
    out = []
    fx = dict(fixtures)

    def vals(outer_ws=False):
        pool = ["The Title", "ünï cödé 日本", "a&b <c> \"q\"", "two  spaces", "😀 astral", "x;y, z", "Ünïcode ÀÉ"]
        v = {k: rng.choice(pool) + " " + k for k in ("title", "creator", "subject", "keywords", "description")}
        if outer_ws:  # the XML readers are the identity on the element text: surrounding white space is part of the stored value
            for k in v:
                v[k] = rng.choice(["", " ", "  ", "\t"]) + v[k] + rng.choice(["", " ", "\n"])
        return v

    def repack(data, member, text):
        zin = zipfile.ZipFile(io.BytesIO(data))
        buf = io.BytesIO()
        with zipfile.ZipFile(buf, "w", zipfile.ZIP_DEFLATED) as zout:
            seen = False
            for i in zin.infolist():
                if i.filename == member:
                    zout.writestr(i.filename, text)
                    seen = True
                elif i.filename == "mimetype":
                    zout.writestr(zipfile.ZipInfo("mimetype"), zin.read(i), zipfile.ZIP_STORED)
                else:
                    zout.writestr(i.filename, zin.read(i))
            if not seen:
                return None
        return buf.getvalue()

    for rel, data in fixtures:
        ext = rel.rsplit(".", 1)[-1].lower()
        if "password" in rel or len(data) > 2_000_000:
            continue
        v = vals(outer_ws=ext in ("docx", "pptx", "odt", "ods", "odp", "odg", "odf"))
        if ext in ("docx", "pptx", "xlsx"):
            core = ('<?xml version="1.0" encoding="UTF-8" standalone="yes"?><cp:coreProperties xmlns:cp="http://schemas.openxmlformats.org/package/2006/metadata/core-properties" '
                    'xmlns:dc="http://purl.org/dc/elements/1.1/" xmlns:dcterms="http://purl.org/dc/terms/" xmlns:xsi="http://www.w3.org/2001/XMLSchema-instance">'
                    f'<dc:title>{escape(v["title"])}</dc:title><dc:subject>{escape(v["subject"])}</dc:subject><dc:creator>{escape(v["creator"])}</dc:creator>'
                    f'<cp:keywords>{escape(v["keywords"])}</cp:keywords><dc:description>{escape(v["description"])}</dc:description></cp:coreProperties>')
            try:
                b = repack(data, "docProps/core.xml", core)
            except Exception:  # noqa: BLE001
                b = None
            if b:
                if ext == "xlsx":
                    exp = {"title": v["title"], "creator": v["creator"], "subject": v["subject"], "keywords": v["keywords"], "description": v["description"]}
                else:
                    exp = {"title": v["title"], "author": v["creator"], "subject": v["subject"], "keywords": v["keywords"], "comments": v["description"]}
                out.append((rel, b, exp))
        elif ext in ("odt", "ods", "odp", "odg", "odf"):
            meta = ('<?xml version="1.0" encoding="UTF-8"?><office:document-meta xmlns:office="urn:oasis:names:tc:opendocument:xmlns:office:1.0" '
                    'xmlns:dc="http://purl.org/dc/elements/1.1/" xmlns:meta="urn:oasis:names:tc:opendocument:xmlns:meta:1.0" office:version="1.2"><office:meta>'
                    f'<dc:title>{escape(v["title"])}</dc:title><dc:description>{escape(v["description"])}</dc:description><dc:subject>{escape(v["subject"])}</dc:subject>'
                    f'<dc:creator>{escape(v["creator"])}</dc:creator><meta:keyword>{escape(v["keywords"])}</meta:keyword></office:meta></office:document-meta>')
            try:
                b = repack(data, "meta.xml", meta)
            except Exception:  # noqa: BLE001
                b = None
            if b:
                out.append((rel, b, {"title": v["title"], "creator": v["creator"], "subject": v["subject"], "keywords": v["keywords"], "description": v["description"]}))
    # HTML head and RTF \info
    for i in range(ctx.n(4, 40)):
        v = vals()
        html = (f"<html><head><title>{escape(v['title'])}</title><meta name=\"author\" content=\"{escape(v['creator'], {chr(34): '&quot;'})}\">"
                f"<meta name=\"description\" content=\"{escape(v['description'], {chr(34): '&quot;'})}\"><meta name=\"keywords\" content=\"{escape(v['keywords'], {chr(34): '&quot;'})}\"></head><body><p>b</p></body></html>")
        out.append((f"p{i}.html", html.encode("utf-8"), {"title": v["title"], "author": v["creator"], "description": v["description"], "keywords": v["keywords"]}))
        a = {k: "".join(c for c in s if ord(c) < 128 and c not in "\\{}") for k, s in v.items()}
        rtfdoc = "{\\rtf1\\ansi{\\info{\\title %s}{\\subject %s}{\\author %s}{\\keywords %s}{\\doccomm %s}}body}" % (a["title"], a["subject"], a["creator"], a["keywords"], a["description"])
        out.append((f"p{i}.rtf", rtfdoc.encode("ascii"), {"title": a["title"].strip(), "subject": a["subject"].strip(), "author": a["creator"].strip(), "keywords": a["keywords"].strip()}))
    return out


def _check_results(ctx, violations, broken):
    """the property statement on real results: fixtures x path forms, unreadable pictures, generated documents,
    mutated-but-accepted fixtures, property-carrying documents"""
    from sharepoint2text.parsing import router
    rng = ctx.rng
    fixtures = corpus.fixtures()
    seen_keys = set()

    def report(found, name, data, path, extra=None):
        for key, what in found:
            if key not in seen_keys:
                seen_keys.add(key)
                violations.append(_violation(key, what, name, data, path, extra))

    with tempfile.TemporaryDirectory(prefix="s2t_c04r_") as td:
        td = os.path.realpath(td)
        # F1. fixtures x path forms (every form on every fixture in the thorough tier; two per fixture in quick)
        for rel, data in fixtures:
            try:
                fn = router.get_extractor(rel)
            except Exception:  # noqa: BLE001
                continue
            forms = PATH_FORMS if ctx.thorough or len(data) < 30_000 else ["none"] + rng.sample(PATH_FORMS[1:], 2)
            for form in forms:
                path = _path_for(form, rel, td, data)
                st, found = _extract_and_walk(fn, data, path, check_path=not _is_container(fn))
                ctx.case(("fixture", rel, form))
                ctx.count(f"results/fixture/{form}/{st.split(':')[0]}")
                if st.startswith("other") and "password" not in rel:
                    report([(f"extract-raises:{fn.__name__}:{form}", f"extractor raised {st[6:]} (not an ExtractionError) for path form {form}")], rel, data, path)
                elif st == "rejected" and form != "none" and "password" not in rel:
                    # the same bytes are accepted without a path: the path argument made the extraction fail
                    st0, _ = _extract_and_walk(fn, data, None, check_path=False)
                    if st0 == "ok":
                        report([(f"path-rejected:{form}", f"extraction fails only because of the path argument (form {form}); metadata cannot be derived from it")], rel, data, path)
                report(found, rel, data, path)
        # F2. pictures that cannot be read
        for name, blob in _corrupt_picture_docs(fixtures):
            fn = router.get_extractor(name.split("#")[0])
            st, found = _extract_and_walk(fn, blob, "d/" + os.path.basename(name.split("#")[0]))
            ctx.case(("bad-picture", name))
            ctx.count(f"results/bad-picture/{st.split(':')[0]}")
            report(found, name.split("#")[0], blob, "d/" + os.path.basename(name.split("#")[0]))
        # F3. generated documents
        for name, blob in _generated_docs(ctx):
            fn = router.get_extractor(name)
            path = rng.choice([None, "g/" + name])
            st, found = _extract_and_walk(fn, blob, path)
            ctx.case(("generated", name, blob))
            ctx.count(f"results/generated/{name.rsplit('.', 1)[-1]}/{st.split(':')[0]}")
            report(found, name, blob, path)
        # F4. mutated-but-accepted fixtures
        small = [f for f in fixtures if len(f[1]) < 100_000]
        per = ctx.n(3, 40)
        for rel, data in fixtures:
            if len(data) > 400_000 or "password" in rel:
                continue
            try:
                fn = router.get_extractor(rel)
            except Exception:  # noqa: BLE001
                continue
            for kind, mb in corpus.mutations(rng, rel, data, small, per):
                form = rng.choice(PATH_FORMS[:5])
                path = _path_for(form, rel, td, mb)
                st, found = _extract_and_walk(fn, mb, path, check_path=not _is_container(fn))
                ctx.case(("mutation", rel, kind, mb[:64], len(mb)))
                ctx.count(f"results/mutated/{kind}/{st.split(':')[0]}")
                report(found, rel, mb, path, {"mutation": kind})
        # F5. document properties come out unchanged
        for name, blob, exp in _property_docs(ctx, fixtures):
            fn = router.get_extractor(name)
            with _MemLimit():
                r = corpus.run_extractor(fn, blob, path="p/" + os.path.basename(name), limit_s=LIMIT_S)
            ctx.case(("properties", name, repr(sorted(exp.items()))))
            ctx.count(f"results/properties/{name.rsplit('.', 1)[-1]}/{r[0]}")
            if r[0] != "ok" or not r[1]:
                continue
            md = r[1][0].get_metadata()
            for f, want in exp.items():
                if not hasattr(md, f):  # the metadata class has no such field (e.g. XlsxMetadata.subject): nothing is reported, nothing changed
                    ctx.count(f"results/properties/not-reported/{type(md).__name__}.{f}")
                    continue
                got = getattr(md, f)
                if got != want:
                    key = f"property-changed:{type(md).__name__}.{f}"
                    if key not in seen_keys:
                        seen_keys.add(key)
                        violations.append(_violation(key, f"stored document property {f} = {want!r} is reported as {got!r}", name, blob, "p/" + os.path.basename(name), {"expect": {f: want}}))
            report(O.walk(r[1][0], "p/" + os.path.basename(name)), name, blob, "p/" + os.path.basename(name))


# ----------------------------------------------------------------------------- G. pictures of legacy PPT / XLS streams
def _blip_doc_findings(container, recs):
    """the statement on the document built from `recs`: (status, [(key, what)], blob)"""
    from sharepoint2text.parsing import router
    build, name = LG.BUILDERS[container]
    blob = build(recs)
    if blob is None:
        return "nofit", [], None
    fn = router.get_extractor(name)
    st, found = _extract_and_walk(fn, blob, "d/" + name)
    return st, found, blob


def _blip_violation(key, what, container, recs):
    shape = ", ".join(f"{t:#06x}/{inst:#05x}:{len(d)}B" for t, inst, d in recs[:8])
    return Violation(key, f"{container} host with BLIP records [{shape}]: {what}"[:400],
                     {"kind": "blip", "container": container, "records": LG.to_json(recs)})


def _check_blips(ctx, broken, violations):
    """model of the BLIP loop vs. the PPT / XLS picture extractors on generated record sequences; the statement
    (oracle) on every result"""
    from sharepoint2text.parsing import router
    rng = ctx.rng
    seen_keys = {v.key for v in violations}
    for container, (build, name) in LG.BUILDERS.items():
        modelled = container in LG.MODELLED
        if modelled:
            seqs = [f(rng) for f in LG.FIXED_SEQUENCES]
            for _ in range(ctx.n(10, 150)):
                seqs.append(LG.gen_records(rng, rng.randint(1, 7), for_xls=(container == "xls")))
            outs = ctx.drive([LG.model_request(sq) for sq in seqs])
        else:   # DOC: raw DIB / PNG bytes in the WordDocument stream (scan heuristics: no model, the statement only)
            seqs = [[(LG.DIB, 0x7A8, LG.dib(2, 2, 24))], [(LG.DIB, 0x7A8, LG.dib(3, 2, bpp)) for bpp in (1, 4, 8, 16, 24, 32)] + [(LG.PNG, 0x6E0, LG.png())]]
            for _ in range(ctx.n(8, 120)):
                seqs.append(LG.gen_doc_items(rng, rng.randint(1, 6)))
            outs = [None] * len(seqs)
        fn = router.get_extractor(name)
        bad = 0
        for recs, o in zip(seqs, outs):
            blob = build(recs)
            if blob is None:
                ctx.count(f"blips/{container}/host-missing-or-no-fit")
                continue
            ctx.case(("blip", container, tuple(recs)), nontrivial=bool(recs))
            with _MemLimit():
                r = corpus.run_extractor(fn, blob, path="d/" + name, limit_s=LIMIT_S)
            ctx.count(f"blips/{container}/records", len(recs))
            if not modelled:
                if r[0] == "ok" and r[1]:
                    for im in r[1][0].iterate_images():
                        ctx.count(f"blips/{container}/stored/{im.get_content_type()}")
                model = impl = None
            else:
                model = [(m["index"], m["ct"], bytes(m["payload"]), m["size"]) for m in o.get("images", [])]
                for _, ct, _, _ in model:
                    ctx.count(f"blips/{container}/stored/{ct}")
                ctx.count(f"blips/{container}/skipped-or-duplicate", len(recs) - len(model))
                if r[0] != "ok" or not r[1]:
                    impl = f"<{r[0]}>"
                else:
                    impl = LG.stored_images(r[1][0])
                    if container == "xls":
                        impl = impl[: len(model)] if len(impl) >= len(model) else impl   # the host's own later pictures follow
            if impl != model:
                bad += 1
                if bad <= 2:
                    def short(l):
                        return l if isinstance(l, str) else [(a, b, len(c) if c is not None else None, d) for a, b, c, d in l]
                    broken.append(Broken("correspondence", "c04.blips", f"{container}: impl={short(impl)} model={short(model)}"[:600],
                                         case={"component": "blip", "container": container, "records": LG.to_json(recs)}))
            if r[0] == "ok":
                found = []
                for res in r[1][:5]:
                    found += O.walk(res, "d/" + name)
                for key, what in found:
                    if key not in seen_keys:
                        seen_keys.add(key)
                        violations.append(_blip_violation(key, what, container, recs))
            elif r[0] == "other":
                key = f"extract-raises:{fn.__name__}:blip"
                if key not in seen_keys:
                    seen_keys.add(key)
                    violations.append(_blip_violation(key, f"extractor raised {r[1]} (not an ExtractionError)", container, recs))
    ctx.sample({"component": "blip", "containers": sorted(LG.BUILDERS), "example": [[hex(t), hex(i), len(d)] for t, i, d in LG.FIXED_SEQUENCES[1](rng)]})


# ----------------------------------------------------------------------------- H. process histories
def _history_findings(ops):
    steps = H.execute(ops)
    out = []
    for s_ in steps:
        for k, w in s_["findings"]:
            out.append((k, f"step {s_['i']} {s_['op']}({s_['spec']!r}): {w}"))
    return steps, out


def _confirm_history(ops):
    """does the history fail when replayed alone in a fresh process? (a history of this run may have been helped by
    what earlier cases left in the process — the replay file must stand on its own)"""
    payload = {"property": "C04", "replay": {"kind": "history", "ops": ops}}
    fd, tmp = tempfile.mkstemp(prefix="s2t_c04_confirm_", suffix=".json")
    try:
        with os.fdopen(fd, "w") as fh:
            json.dump(payload, fh)
        runpy = os.path.join(os.path.dirname(os.path.dirname(os.path.abspath(__file__))), "run.py")
        p = subprocess.run([sys.executable, runpy, "C04", "--replay", tmp], capture_output=True, text=True, timeout=120,
                           env=dict(os.environ, S2T_REPO=corpus.REPO))
        return "REPLAY-FAILS" in p.stdout
    except Exception:  # noqa: BLE001
        return False
    finally:
        try:
            os.unlink(tmp)
        except OSError:
            pass


def _gen_histories(ctx):
    rng = ctx.rng
    out, k = [], 0
    exts = ("txt", "html", "csv") if ctx.thorough else ("txt", "html")
    for kind in H.CALLS:
        for ext in exts:
            k += 1
            for label, ops in H.scenarios(f"h{ctx.seed}x{k}_", kind, ext):
                out.append((f"{label}/{kind}/{ext}", ops))
    for j in range(ctx.n(40, 1500)):
        out.append(("random-walk", H.random_history(rng, f"r{ctx.seed}x{j}_", n_ops=rng.choice((8, 14, 24)))))
    return out


def _check_histories(ctx, broken, violations):
    """(1) populate_from_path over histories against the model of a history (each call answered from the host's
    answers AT THAT CALL); (2) the statement on every result of every call of the history"""
    hist = _gen_histories(ctx)
    reqs, metas, candidates = [], [], {}
    for label, ops in hist:
        steps, found = _history_findings(ops)
        ctx.case(("history", json.dumps(ops)))
        ctx.count("histories/" + label.split("/")[0])
        for s_ in steps:
            ctx.count(f"histories/calls/{s_['op']}/" + ("none" if s_["path"] is None else "on-host" if s_["host_file"] else "folder-on-host" if s_["host_folder"] else "not-on-host"))
        calls = [s_ for s_ in steps if s_["op"] == "meta"]
        if calls:
            root = steps[0]["root"]
            reqs.append({"op": "c04.pathseq", "calls": [{"path": c["path"], "host_file": c["host_file"], "host_folder": c["host_folder"]} for c in calls]})
            metas.append((label, ops, calls, root))
        for key, what in found:
            candidates.setdefault("history:" + key, []).append((label, ops, what))
    outs = ctx.drive(reqs)
    bad = 0
    for (label, ops, calls, root), o in zip(metas, outs):
        res = o.get("results", [])
        for c, m in zip(calls, res):
            if c["fields"] != m:
                bad += 1
                if bad <= 3:
                    broken.append(Broken("correspondence", "c04.pathseq",
                                         f"history {label}, step {c['i']} populate_from_path({c['spec']!r}): impl={c['fields']} model={m}".replace(root, "$ROOT")[:600],
                                         case={"component": "history", "ops": ops}))
                break
    known = {v.key for v in violations}
    for key, cands in candidates.items():
        if key in known:
            continue
        chosen = None
        cands.sort(key=lambda c: ("/meta/" in c[0], c[0] == "random-walk"))   # prefer a fixed scenario through a real extractor
        for label, ops, what in cands[:6]:
            if _confirm_history(ops):
                chosen = (label, ops, what, True)
                break
        if chosen is None:
            label, ops, what = cands[0]
            chosen = (label, ops, what + " [seen inside this run only: not reproduced by this history alone in a fresh process]", False)
        label, ops, what, _ = chosen
        violations.append(Violation(key, f"history {label} ({len(ops)} operations in one process): {what}"[:400], {"kind": "history", "label": label, "ops": ops}))
    ctx.sample({"component": "history", "label": hist[0][0], "ops": hist[0][1]})


# ----------------------------------------------------------------------------- entry points
def correspondence(ctx):
    broken, violations = [], []
    _check_tables(ctx, broken)
    _check_images(ctx, broken)
    _check_collect(ctx, broken)
    _check_paths(ctx, broken)
    _check_unicode(ctx, broken)
    _check_readers(ctx, broken)
    V.check_lengths(ctx, broken)
    _check_results(ctx, violations, broken)
    _check_docs(ctx, violations)
    _check_default_sites(ctx, violations)
    _check_blips(ctx, broken, violations)
    _check_histories(ctx, broken, violations)
    ctx.coverage["oracle_findings"] = len(violations)
    _FOUND[:] = [v.key for v in violations]
    return {"broken": broken, "violations": violations}


_FOUND: list = []   # keys of the concrete violations the correspondence's own oracles produced in this run


def _direct_oracle(ctx, b):
    """the statement on the object a broken component case describes (no extractor involved)"""
    c = b.case or {}
    dt = _dt()
    comp = c.get("component")
    if comp == "table":
        cls = getattr(dt, c["cls"])
        data = c["data"]
        obj = cls(data=[dict(r) for r in data]) if c["cls"] == "XlsSheet" else cls(data=[list(r) for r in data])
        w = O.Walk(None)
        w.table(c["cls"], obj)
        return [Violation(k, f"{c['cls']}(data={data!r}): {what}"[:400], {"kind": "table", "cls": c["cls"], "data": data}) for k, what in w.out]
    if comp == "image":
        cls = getattr(dt, c["cls"])
        payload = None if c["payload_b64"] is None else base64.b64decode(c["payload_b64"])
        im, _ = _image_instance(cls, payload)
        w = O.Walk(None)
        # numbers are not the point of this case
        for fld in ("image_index", "image_number", "index"):
            if hasattr(im, fld):
                setattr(im, fld, 1)
        w.image(c["cls"], im)
        return [Violation(k, f"{c['cls']} built like the constructor sites do ({len(payload or b'')} bytes): {what}"[:400],
                          {"kind": "image", "cls": c["cls"], "payload_b64": c["payload_b64"]}) for k, what in w.out]
    if comp == "collect":
        msgs = _collect_oracle(c)
        return [Violation(f"bytes-collected:{c['cls']}", f"{c['cls']} objects built like the constructor sites do, get_bytes() of all collected first: {m}"[:400],
                          {"kind": "collect", "cls": c["cls"], "sources": c["sources"], "order": c["order"], "close": c.get("close")}) for m in msgs[:1]]
    if comp == "path":
        return _path_oracle(c.get("path"))
    if comp == "length":
        return _length_oracle(c.get("s"))
    if comp == "blip":
        recs = LG.from_json(c["records"])
        st, found, _ = _blip_doc_findings(c["container"], recs)
        return [_blip_violation(k, what, c["container"], recs) for k, what in found]
    if comp == "history":
        _, found = _history_findings(c["ops"])
        return [Violation("history:" + k, f"history ({len(c['ops'])} operations in one process): {what}"[:400], {"kind": "history", "ops": c["ops"]})
                for k, what in found[:1]]
    return []


def _length_findings(s_):
    """the statement on an ODF picture object holding the stored size string (no extractor involved)"""
    im = _dt().OpenDocumentImage(href="Pictures/a.png", name="a", content_type="image/png", data=io.BytesIO(b"\x89PNG"), size_bytes=4,
                                 width=s_, height=s_, image_index=1)
    w = O.Walk(None)
    w.image("OpenDocumentImage(width=%r)" % (s_ if s_ is None or len(s_) < 40 else s_[:16] + "…"), im)
    return w.out


def _length_oracle(s_):
    """a stored size string the model and the code disagree on: judged on the results of the real extractors for
    generated documents carrying it, then on the image object itself"""
    out = []
    if s_ is not None and V.xml_safe(s_):
        for fmt in ("odg", "odt", "ods", "odp"):
            spec = V.doc_spec_for(s_, fmt)
            st, found, name, blob = _doc_findings(spec)
            out += [Violation(k, f"generated {D.shape(spec)} whose picture frame is {('svg:width=' + repr(s_))[:80]}: {what}"[:400], {"kind": "doc", "spec": spec})
                    for k, what in found[:1]]
            if out:
                return out
    return [Violation(k, what[:400], {"kind": "length", "s": s_}) for k, what in _length_findings(s_)[:1]]


def _path_oracle(p):
    from sharepoint2text.parsing.extractors.plain_extractor import read_plain_text
    st, found = _extract_and_walk(read_plain_text, b"hello", p)
    if st != "ok":
        return [Violation("path-rejected:plain", f"read_plain_text(b'hello', path={p!r}) fails ({st}) only because of the path argument", {"kind": "path", "path": p})]
    return [Violation(k, f"read_plain_text(b'hello', path={p!r}): {what}"[:400], {"kind": "path", "path": p}) for k, what in found]


def search(ctx, broken):
    out = []
    if _FOUND:   # the oracles run by `correspondence` already produced concrete failing inputs (run.py reports them)
        return out
    _check_default_sites(ctx, out)
    if out:
        return out
    for b in broken:
        try:
            out += _direct_oracle(ctx, b)
        except Exception:  # noqa: BLE001
            continue
        c = b.case or {}
        if c.get("component") == "rtf" and c.get("data_b64"):
            from sharepoint2text.parsing.extractors.ms_legacy.rtf_extractor import read_rtf
            blob = base64.b64decode(c["data_b64"])
            st, found = _extract_and_walk(read_rtf, blob, None)
            out += [_violation(k, what, "x.rtf", blob, None) for k, what in found]
        if out:
            return out
    # path probes and the regression witnesses
    for p in ["a" * 300 + ".txt", "x\u0000y.txt", "", "/", "a.zip!/b.txt", "ü/ñ.TXT"]:
        out += _path_oracle(p)
        if out:
            return out
    violations = []
    _check_docs(ctx, violations)
    if violations:
        return violations
    _check_blips(ctx, [], violations)
    if violations:
        return violations
    _check_histories(ctx, [], violations)
    if violations:
        return violations
    _check_results(ctx, violations, [])
    return violations


def replay(ctx, payload):
    rep = payload.get("replay", {})
    kind = rep.get("kind")
    dt = _dt()
    if kind == "extract":
        from sharepoint2text.parsing import router
        name = rep["name"]
        if "data_b64" in rep:
            data = base64.b64decode(rep["data_b64"])
        else:
            data = dict(corpus.fixtures()).get(rep.get("fixture"))
            if data is None:
                return False, "fixture not found: " + str(rep.get("fixture"))
        fn = router.get_extractor(name)
        path = rep.get("path")
        st, found = _extract_and_walk(fn, data, path, check_path=not _is_container(fn))
        msgs = [w for _, w in found]
        if st == "rejected" and path is not None and _extract_and_walk(fn, data, None, check_path=False)[0] == "ok":
            msgs.append("extraction fails only because of the path argument")
        if st.startswith("other"):
            msgs.append("extractor raised " + st[6:])
        if st == "ok" and rep.get("expect"):
            with _MemLimit():
                r = corpus.run_extractor(fn, data, path=path, limit_s=LIMIT_S)
            md = r[1][0].get_metadata()
            for f, want in rep["expect"].items():
                if getattr(md, f, None) != want:
                    msgs.append(f"property {f}: stored {want!r}, reported {getattr(md, f, None)!r}")
        return (not msgs), "; ".join(msgs)[:600] or f"property holds on the recorded input ({st})"
    if kind == "doc":
        st, found, name, _ = _doc_findings(rep["spec"])
        msgs = [w for _, w in found]
        return (not msgs), "; ".join(msgs)[:600] or f"every result of the generated {rep['spec']['fmt']} document honours the interface ({st})"
    if kind == "collect":
        msgs = _collect_oracle(rep)
        return (not msgs), "; ".join(msgs)[:600] or "every stream collected first and read afterwards is at 0 and delivers size_bytes bytes"
    if kind == "table":
        cls = getattr(dt, rep["cls"])
        obj = cls(data=[dict(r) for r in rep["data"]]) if rep["cls"] == "XlsSheet" else cls(data=[list(r) for r in rep["data"]])
        w = O.Walk(None)
        w.table(rep["cls"], obj)
        return (not w.out), "; ".join(x for _, x in w.out) or "get_dim() is the shape of get_table()"
    if kind == "image":
        cls = getattr(dt, rep["cls"])
        payload_b = None if rep["payload_b64"] is None else base64.b64decode(rep["payload_b64"])
        im, _ = _image_instance(cls, payload_b)
        for fld in ("image_index", "image_number", "index"):
            if hasattr(im, fld):
                setattr(im, fld, 1)
        w = O.Walk(None)
        w.image(rep["cls"], im)
        return (not w.out), "; ".join(x for _, x in w.out) or "get_bytes() honours the interface"
    if kind == "image-default":
        msgs = []
        for cname, fld, im in _default_site_objects():
            if cname == rep.get("cls") and fld == rep.get("field"):
                w = O.Walk(None)
                w.image(cname, im)
                msgs += [x for _, x in w.out]
        return (not msgs), "; ".join(msgs) or "numbers reported by the default-built image are positive / None"
    if kind == "blip":
        recs = LG.from_json(rep["records"])
        st, found, _ = _blip_doc_findings(rep["container"], recs)
        if st == "nofit":
            return False, "the host fixture is missing or the records do not fit into it"
        msgs = [w for _, w in found] + (["extractor raised " + st[6:]] if st.startswith("other") else [])
        return (not msgs), "; ".join(msgs)[:600] or f"every picture of the {rep['container']} document honours the interface ({st})"
    if kind == "history":
        _, found = _history_findings(rep["ops"])
        return (not found), "; ".join(w for _, w in found)[:600] or "every call of the history reports metadata derived from its own path argument"
    if kind == "length":
        found = _length_findings(rep.get("s"))
        return (not found), "; ".join(w for _, w in found)[:600] or "every accessor of the image holding the stored size returns"
    if kind == "path":
        vs = _path_oracle(rep.get("path"))
        return (not vs), "; ".join(v.what for v in vs) or "metadata derived from the path as pathlib defines it"
    return False, "replay names a broken obligation, not an input: " + payload.get("what", "")
