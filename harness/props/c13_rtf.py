"""C13, RTF part (imported by c13.py): correspondence of S2T.Model.TablesRtf with the real `_RtfParser` methods
(`_extract_tables`, `_extract_table_cells`, `_strip_rtf_simple`) and the property oracle for written RTF documents.

correspondence
  * structured stream: abstract documents (paragraphs + tables) written by the LEAN renderer (`c13.rtf.render`, and
    `c13.rtf.renderl` for tables written with a ROW LAYOUT: every slot between the table tokens of a row - behind
    \\trowd, between / behind the \\cellxN, around the paragraphs of a cell, between them, behind \\cell, a group around the
    row, behind \\row - filled independently with one of the separators the format allows: nothing, a space, LF, CR LF,
    braces, further control words; harness/builders/c13r.py);
    the text must be byte-identical to what the Python reference writer produces; the real `_extract_tables` on that
    text vs. the model; where the hypotheses of the theorems hold (plain cells, separated tables) vs. the Lean spec;
    the same text through the real `read_rtf` / `iterate_tables()`;
  * token stream: random sequences over the RTF token language (control words with / without parameters and
    delimiters, `\\uN?` incl. surrogates and malformed ones, `\\'hh`, special characters, groups, ignorable
    destinations, white space of every kind, hex runs around the limit, `\\cell` / `\\row` / `\\trowd` look-alikes)
    and written documents with a few tokens inserted / removed / duplicated: every layer (`_strip_rtf_simple`,
    `_extract_table_cells`, `_extract_tables`) real vs. model.
oracle: the property statement on the real `read_rtf` against the written tables (Python only, no Lean).
"""
from __future__ import annotations

import io
import json
import re

from run import Broken, Violation
from builders import c13b, c13r

RAW_GAP, TEXT_GAP, HEX_RUN = 100, 20, 64     # the documented heuristics (open finding rtf.adjacent-tables-merged)

WORDS = ["a", "b", "xy", "Zeta", "1", "2.5", "x-y", "0", "%s", "'", "ä", "€", "日本", "Ünï", "é́", "&", "<x>", '"q"', "ı", "K", "deadbeef", "𝔘"]
LONG = ("between the tables there is a paragraph that is clearly longer than one hundred and twenty characters, "
        "so that the row grouping heuristic sees a break here.")


def _mod():
    import importlib
    return importlib.import_module("sharepoint2text.parsing.extractors.ms_legacy.rtf_extractor")


def _parser():
    return _mod()._RtfParser(b"")


def real_tables(text: str):
    p = _parser()
    p._extract_tables(text)
    return [t.data for t in p.tables]


# ----------------------------------------------------------------------------- generators
def gen_para(rng, plain=True):
    """a normalised paragraph: words separated by single spaces"""
    n = rng.choice([1, 1, 1, 2, 3])
    ws = [rng.choice(WORDS if plain else WORDS + ["\\", "{", "}", "C:\\temp", "a{b}"]) for _ in range(n)]
    return " ".join(ws)


def gen_table(rng, ragged=True):
    r, c = rng.randint(1, 4), rng.randint(1, 4)
    rows = []
    for _ in range(r):
        n = c if not ragged or rng.random() < 0.8 else rng.randint(1, 4)
        rows.append([[gen_para(rng) for _ in range(rng.choice([0, 1, 1, 1, 2, 3]))] for _ in range(n)])
    return rows


def gap_lengths(paras, behind_row="\n", before_trowd=""):
    """(characters of RTF, characters of text) between the last \\row of a table and the next \\trowd when the
    normalised paragraphs `paras` stand between them (independent of the Lean model); `behind_row` = what the layout of
    the last row puts behind its \\row, `before_trowd` = what the layout of the next row puts in front of its \\trowd"""
    raw = len(behind_row) + len(before_trowd) + sum(len("\\pard ") + len(c13b._rtf_esc(p)) + len("\\par\n") for p in paras)
    text = sum(len(p) for p in paras) + max(0, len(paras) - 1)
    return raw, text


def separating_paras(rng):
    """paragraphs that make the heuristic see a break, often just above its two limits"""
    k = rng.random()
    if k < 0.35:
        return [LONG]
    if k < 0.55:   # text length exactly TEXT_GAP + 1, raw length well above the limit (non-ASCII is long when written)
        return ["ä" * (TEXT_GAP + 1)]
    if k < 0.8:    # raw length exactly RAW_GAP + 1 with one ASCII paragraph: 1 + 6 + n + 5 = 101
        return ["x" * (RAW_GAP + 1 - 12)]
    ps = [gen_para(rng) for _ in range(rng.randint(1, 3))]
    while not (gap_lengths(ps)[0] > RAW_GAP and gap_lengths(ps)[1] > TEXT_GAP):
        ps.append(gen_para(rng) + " " + "w" * rng.randint(5, 40))
    return ps


def is_table(b):
    return b[0] in ("t", "tl")


def layouts_of(b):
    """the row layouts of a table block (defaults filled in)"""
    if b[0] == "tl":
        return [c13r.norm(L) for L in b[2]]
    return [dict(c13r.DEFAULT) for _ in b[1]]


def behind_row(L):
    return c13r.row_close(L) + L["row_end"]


def with_layouts(rng, case, p=0.65):
    """the same document, its tables written with row layouts"""
    out = []
    for b in case["blocks"]:
        if b[0] == "t" and rng.random() < p:
            out.append(["tl", b[1], c13r.gen_layouts(rng, len(b[1]))])
        else:
            out.append(b)
    return {"blocks": out}


def gen_rtf_case(rng, adjacent=False, layouts=True):
    """blocks = ["p", text] | ["t", rows] | ["tl", rows, layouts]; adjacent=True: shapes of the open findings are allowed"""
    c = _gen_rtf_case(rng, adjacent)
    if not layouts:
        return c
    c = with_layouts(rng, c)
    if not adjacent:
        # a layout may take a character or two from the text between two tables: keep it above the limits of the heuristic
        for _ in range(3):
            if "rtf.adjacent-tables-merged" not in classify(c["blocks"]):
                break
            for i, b in enumerate(c["blocks"]):
                if b[0] == "p" and i > 0 and is_table(c["blocks"][i - 1]):
                    b[1] = b[1] + " www"
    return c


def _gen_rtf_case(rng, adjacent=False):
    blocks = [["p", gen_para(rng)] for _ in range(rng.choice([0, 1, 1, 2]))]
    n = rng.randint(1, 3)
    for i in range(n):
        blocks.append(["t", gen_table(rng)])
        if adjacent:
            k = rng.random()
            between = [] if k < 0.25 else ["x"] if k < 0.5 else ["w" * rng.choice([RAW_GAP - 12, 19, 20, 21, 60])] if k < 0.8 else separating_paras(rng)
        else:
            between = separating_paras(rng) if i < n - 1 else [gen_para(rng) for _ in range(rng.choice([0, 1, 2]))]
        blocks += [["p", p] for p in between]
    if adjacent and rng.random() < 0.4:
        t = rng.choice([b for b in blocks if b[0] == "t"])
        cell = rng.choice(rng.choice(t[1]))
        k = rng.random()
        cell.append("0123456789abcdefABCDEF"[rng.randint(0, 5):] * 4 if k < 0.3 else gen_para(rng, plain=False) if k < 0.6
                    else rng.choice([" a", "a ", "a  b", "", "a\tb"]))
    return {"blocks": blocks}


def truth_of(blocks):
    out = []
    for b in blocks:
        if is_table(b):
            w = max(len(r) for r in b[1])
            out.append([["\n".join(c) for c in r] + [""] * (w - len(r)) for r in b[1]])
    return out


def _normalised(p):
    return p != "" and p == " ".join(p.split(" ")) and p.strip() == p and not any(ch.isspace() and ch != " " for ch in p) and "" not in p.split(" ")


def classify(blocks):
    """mechanisms of the open findings present in a written document -> set of keys (Python only)"""
    keys = set()
    between, seen, last_sep = None, False, "\n"
    for b in blocks:
        if is_table(b):
            lays = layouts_of(b)
            if seen and between is not None:
                raw, text = gap_lengths(between, last_sep, lays[0]["row_open"] if lays else "")
                if not (raw > RAW_GAP and text > TEXT_GAP):
                    keys.add("rtf.adjacent-tables-merged")
            seen, between = True, []
            if lays:
                last_sep = behind_row(lays[-1])
            for row in b[1]:
                for cell in row:
                    for p in cell:
                        if re.search(r"[0-9a-fA-F]{%d,}" % HEX_RUN, p):
                            keys.add("rtf.cell-hex-run-dropped")
                        if any(ch in p for ch in "\\{}"):
                            keys.add("rtf.cell-backslash-brace-mangled")
                        if not _normalised(p) and not (p == "" and len(cell) == 1):
                            keys.add("rtf.cell-whitespace-collapsed")
        elif between is not None:
            between.append(b[1])
            if any(ch in b[1] for ch in "\\{}") or not _normalised(b[1]):
                keys.add("rtf.adjacent-tables-merged")   # the text length between the tables is not what gap_lengths computes
    return keys


def layout_region(blocks):
    """'default' (the layout of C13_rtf_partial) | 'row-end' (only what stands behind \\row varies: the documents of
    C13_rtf_layout_partial, tied by C13_rtf_layout_tie) | 'all-slots' (correspondence + oracle only)"""
    region = "default"
    for b in blocks:
        if b[0] == "tl":
            for L in layouts_of(b):
                if any(L[k] != c13r.DEFAULT[k] for k in c13r.KEYS if k != "row_end"):
                    return "all-slots"
                if L["row_end"] != c13r.DEFAULT["row_end"]:
                    region = "row-end"
    return region


def hypotheses_hold(blocks, bmp_only=True):
    """the region where the property is expected of the current code (no mechanism of an open finding): plain cells,
    plain text, at least one row / cell, separated tables - whatever the row layouts; bmp_only: the region of the Lean
    theorems (characters inside the BMP)"""
    if classify(blocks):
        return False
    for b in blocks:
        if is_table(b):
            if not b[1] or any(not r for r in b[1]):
                return False
            if bmp_only and any(ord(ch) > 0xFFFF for r in b[1] for c in r for p in c for ch in p):
                return False
        elif any(ch in b[1] for ch in "\\{}") or (bmp_only and any(ord(ch) > 0xFFFF for ch in b[1])):
            return False
    return any(is_table(b) for b in blocks)


# ----------------------------------------------------------------------------- token stream
TOK = ["\\trowd", "\\row", "\\cell", "\\cellx100", "\\cellx-5", "\\pard", "\\intbl", "\\par", "\\line", "\\tab", "\\nestcell",
       "\\nestrow", "\\u228?", "\\u-10179?", "\\u-8704?", "\\u55357", "\\u56832?", "\\u65?", "\\u-", "\\u", "\\u12x", "\\'e4", "\\'4",
       "\\'zz", "\\~", "\\_", "\\-", "\\{", "\\}", "\\\\", "{", "}", "{\\*", "{\\pict", "{\\OBJECT", "{\\Pict 0a0b}", " ", "  ", "\n",
       "\t", "\x0c", "\x0b", "\r", "\x1f", "\x85", "\xa0", "\u2003", "a", "b c", "Zeta", "1", "-5", "x", "?", ";", "\\b", "\\b0", "\\fs24",
       "\\lquote", "\\emdash", "\\bullet", "\\enspace", "ä", "ı", "K", "ſ", "_", "0123456789abcdefABCDEF" * 3,
       "0123456789abcdef" * 4, "f" * 63, "\n\n\n", "\n\n", "\\rowx", "\\trowdy", "\\cell5", "\\row_", "\\rowä", "\\row€",
       "\\page", "\\'", "\\ROW", "\\Cell", "\\pARD", "\\par\\par", "\\cell\\row", " \n ", "\\*"]


def rand_tokens(rng, n):
    return "".join(rng.choice(TOK) for _ in range(n))


def rowish(rng):
    """token soup biased towards rows"""
    out = []
    for _ in range(rng.randint(1, 5)):
        out.append(rng.choice(["\\trowd", "\\trowd", "\\trowd\\cellx100", ""]))
        for _ in range(rng.randint(0, 4)):
            out.append(rand_tokens(rng, rng.randint(0, 4)))
            out.append(rng.choice(["\\cell", "\\cell ", "\\cell", "\\nestcell"]))
        out.append(rng.choice(["\\row", "\\row\n", "\\row", "", "\\nestrow"]))
        k = rng.random()
        out.append("" if k < 0.3 else "w" * rng.choice([5, 19, 20, 21, 22, 30]) + " " * rng.choice([0, 60, 99, 100, 101]) if k < 0.7
                   else rand_tokens(rng, rng.randint(0, 12)) if k < 0.85 else "\\pard " + "x" * rng.choice([88, 89, 90, 120]) + "\\par\n")
    return "".join(out)


def mutate_text(rng, text):
    toks = re.findall(r"\\[a-z]+-?\d*\s?|\\.|[^\\]", text, re.S)
    for _ in range(rng.randint(1, 3)):
        if not toks:
            break
        i = rng.randrange(len(toks))
        k = rng.random()
        if k < 0.3:
            del toks[i]
        elif k < 0.6:
            toks.insert(i, rng.choice(TOK))
        elif k < 0.8:
            toks.insert(i, toks[i])
        else:
            j = rng.randrange(len(toks))
            toks[i], toks[j] = toks[j], toks[i]
    return "".join(toks)


# ----------------------------------------------------------------------------- correspondence
def corr(ctx, read_tables):
    """read_tables(bytes) -> [{'table','dim'}] | 'ERR…' (c13._read('rtf', …))"""
    rng = ctx.rng
    broken = []
    n_bad = 0

    def bad(name, detail, case):
        nonlocal n_bad
        n_bad += 1
        if n_bad <= 10:
            broken.append(Broken("correspondence", name, detail[:1500], case=case))

    # ---- written documents
    cases = [gen_rtf_case(rng, adjacent=(i % 3 == 0)) for i in range(ctx.n(90, 1500))]
    cases += [{"blocks": b} for b in lattice_blocks()]
    outs = ctx.drive([{"op": "c13.rtf.renderl" if any(b[0] == "tl" for b in c["blocks"]) else "c13.rtf.render", "blocks": c["blocks"]}
                      for c in cases])
    treqs, items = [], []
    for c, o in zip(cases, outs):
        if "drv_error" in o:
            bad("driver:c13.rtf.render", o["drv_error"], {"fmt": "rtf", "blocks": c["blocks"]})
            continue
        treqs.append({"op": "c13.rtf.tables", "text": o["text"]})
        items.append((c, o))
    touts = ctx.drive(treqs)
    for (c, o), t in zip(items, touts):
        blocks = c["blocks"]
        case = {"fmt": "rtf", "blocks": blocks}
        hyp = hypotheses_hold(blocks)
        ctx.case(("rtf", json.dumps(blocks)))
        ctx.count("rtf/lean-rendered/" + (("theorem-region" if layout_region(blocks) != "all-slots" else "layout-region") if hyp else "outside")
                  + "/layout:" + layout_region(blocks))
        py = c13r.rtf_text(blocks)
        if o["text"] != py:
            bad("c13.rtf.render:text", f"Lean writer {o['text']!r} != reference writer {py!r}", case)
            continue
        if o["spec"] != truth_of(blocks):
            bad("spec:rtf", f"Lean spec {o['spec']!r} != python ground truth {truth_of(blocks)!r}", case)
        real = real_tables(o["text"])
        if real != t.get("tables"):
            bad("c13.rtf.tables:written", f"impl={real!r} model={t.get('tables')!r}", case)
        res = read_tables(py.encode("ascii"))
        got = res if isinstance(res, str) else [x["table"] for x in res]
        if got != real:
            bad("read_rtf:rtf", f"iterate_tables()={got!r} _extract_tables={real!r}", case)
        if hypotheses_hold(blocks, bmp_only=False) and real != o["spec"]:
            bad("render-read:rtf", f"impl={real!r} spec={o['spec']!r}", case)
    if items:
        ctx.sample({"fmt": "rtf", "blocks": items[0][0]["blocks"], "impl": real_tables(items[0][1]["text"]), "spec": items[0][1]["spec"]})

    # ---- token stream, every layer
    texts = []
    for i in range(ctx.n(500, 8000)):
        k = i % 5
        if k == 0:
            texts.append(rand_tokens(rng, rng.randint(0, 30)))
        elif k in (1, 2):
            texts.append(rowish(rng))
        elif k == 3:
            texts.append(mutate_text(rng, c13r.rtf_text(gen_rtf_case(rng, adjacent=True)["blocks"])))
        else:
            texts.append(rand_tokens(rng, rng.randint(0, 8)) + rowish(rng) + rand_tokens(rng, rng.randint(0, 8)))
    p = _parser()
    layers = [("c13.rtf.strip", "text", p._strip_rtf_simple), ("c13.rtf.cells", "cells", p._extract_table_cells),
              ("c13.rtf.tables", "tables", real_tables)]
    for op, key, fn in layers:
        outs = ctx.drive([{"op": op, "text": t} for t in texts])
        for t, o in zip(texts, outs):
            try:
                real = fn(t)
            except Exception as e:  # noqa: BLE001
                real = f"ERR:{type(e).__name__}"
            if op == "c13.rtf.tables":
                ctx.case(("rtftext", t), nontrivial=bool(real))
                ctx.count("rtf/token-stream/" + ("tables" if real else "none"))
            if o.get(key) != real:
                bad(op, f"text={t!r} impl={real!r} model={o.get(key, o)!r}", {"fmt": "rtftext", "text": t})
    return broken


# ----------------------------------------------------------------------------- layout lattice
LATTICE_ROWS = [[["Name"], ["Qty"], ["Price", "net"]], [["apple"], ["3"], ["1.50"]], [["pear"], [], ["0.80"]], [["plum"], ["7"]]]


def lattice_pairs():
    """the fixed table written once per PAIR of slots off the default (failing-input search only)"""
    out = []
    ks = c13r.KEYS
    for i, k1 in enumerate(ks):
        for k2 in ks[i + 1:]:
            for v1 in c13r.SLOTS[k1]:
                for v2 in c13r.SLOTS[k2]:
                    if v1 != c13r.DEFAULT[k1] and v2 != c13r.DEFAULT[k2]:
                        out.append([["p", "Intro"], ["tl", LATTICE_ROWS, [{k1: v1, k2: v2} for _ in LATTICE_ROWS]], ["p", "After"]])
    return out


def lattice_blocks():
    """a fixed 4-row table (ragged, an empty and a two-paragraph cell) written once per (slot, option) with only that
    slot off the default, once fully compact, once with every row its own separator behind \\row: the deterministic
    part of the stream and the first inputs of the failing-input search"""
    out = []
    for k in c13r.KEYS:
        for v in c13r.SLOTS[k]:
            if v != c13r.DEFAULT[k]:
                out.append([["p", "Intro"], ["tl", LATTICE_ROWS, [{k: v} for _ in LATTICE_ROWS]], ["p", "After"]])
    compact = {"defs_close": "", "cell_end": "\\cell", "row_end": "", "par": "\\par\\pard\\intbl "}
    out.append([["p", "Intro"], ["tl", LATTICE_ROWS, [compact for _ in LATTICE_ROWS]], ["p", "After"]])
    out.append([["tl", LATTICE_ROWS, [{"row_end": v} for v in c13r.SLOTS["row_end"]]]])
    out.append([["tl", LATTICE_ROWS, [{"row_end": "", "row_open": "{"} for _ in LATTICE_ROWS]], ["p", LONG], ["tl", LATTICE_ROWS[:2], [{"row_end": ""}, {"row_end": " "}]]])
    return out


# ----------------------------------------------------------------------------- oracle
def oracle(case, read_tables, check_tables):
    """check_tables = c13._check_tables; -> [Violation]"""
    if "raw" in case:   # a literal RTF text with the tables it holds
        vs = check_tables("rtf", read_tables(case["raw"].encode("ascii")), case["truth"], case)
        for v in vs:
            if v.key == "rtf.tables-differ" and case.get("mechanism"):
                v.key = case["mechanism"]
        return vs
    blocks = case["blocks"]
    vs = check_tables("rtf", read_tables(c13r.rtf_doc(blocks)), truth_of(blocks), case)
    keys = sorted(classify(blocks))
    for v in vs:
        if v.key == "rtf.tables-differ" and keys:
            v.key = keys[0]
    return vs


NESTED_RAW = ("{\\rtf1\\ansi \\trowd\\cellx100\\cellx200 \\pard\\intbl A\\par \\pard\\intbl\\itap2 x\\nestcell y\\nestcell "
              "{\\*\\nesttableprops\\trowd\\cellx50\\cellx100\\nestrow}{\\nonesttables\\par}\\pard\\intbl A2\\cell \\pard\\intbl B\\cell \\row\n}")

WITNESSES = {
    "rtf.adjacent-tables-merged": ("rtf", {"blocks": [["p", "before"], ["t", [[["a"], ["b"]], [["c"], ["d"]]]], ["p", "between"],
                                                        ["t", [[["e"]], [["f"]]]], ["p", "after"]]}),
    "rtf.nested-table-flattened": ("rtf", {"raw": NESTED_RAW, "mechanism": "rtf.nested-table-flattened",
                                           "truth": [[["A\nx\ny\nA2", "B"]], [["x", "y"]]]}),
    "rtf.cell-hex-run-dropped": ("rtf", {"blocks": [["t", [[["0123456789abcdef" * 4]]]]]}),
    "rtf.cell-backslash-brace-mangled": ("rtf", {"blocks": [["t", [[["C:\\temp"], ["a{b}"]]]]]}),
    "rtf.cell-whitespace-collapsed": ("rtf", {"blocks": [["t", [[["a  b"], ["x", " y"]]]]]}),
}
