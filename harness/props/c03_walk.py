"""C03, part "Walk": the property on EVERY walk over a result, not only on the first complete one.

`iterate_units()` is a generator: callers peek at the first unit and drop it, break out of a loop, run two walks at
the same time, call get_full_text() before / between / after walks, copy the result and walk the copy.  The statement
"iterate_units() yields exactly one unit per page / slide / sheet …, numbers strictly increasing, full text = trimmed
newline-join of the unit texts" is about each of these calls.  This module judges it on the real objects:

    walk case = {"src": <how to build a FRESH result>, "ops": [operation, …]}

    ops:  ["peek", k]        start a walk, take k units, drop the generator (it is closed)
          ["hold", k]        start a walk, take k units, keep the suspended generator alive until the end of the case
          ["interleave", k]  walk A takes k units; walk B runs completely; walk A runs to its end — both are judged
          ["full"]           a complete walk — judged
          ["text"]           get_full_text() — judged
          ["units"]          a complete walk touching every accessor of every unit twice — judged
          ["copy"]           continue on copy.deepcopy(result)

The expected value of every judged walk is what ONE complete walk over a pristine result of the same source gives
(that single walk is itself judged against the source by the other oracles of C03: seq_doc_check, check_object …),
and for token workbooks (`seq_doc`) additionally the source itself: sheet k's token in unit k.
Independent of the Lean model (`Props/C03_Walk.lean` proves the schedule-independence for a result without walk state
and ties "no method keeps state on the object" to the current source).
"""
from __future__ import annotations

import copy
import dataclasses
import io

SYSTEMATIC = [
    [["peek", 1], ["full"], ["text"]],
    [["hold", 1], ["full"], ["text"]],
    [["interleave", 1]],
    [["peek", 0], ["full"]],
    [["text"], ["full"], ["text"]],
    [["full"], ["full"], ["units"]],
    [["peek", 2], ["text"], ["interleave", 2]],
    [["hold", 1], ["copy"], ["full"], ["text"]],
    [["text"], ["peek", 1], ["copy"], ["text"], ["full"]],
    [["units"], ["peek", 1], ["full"]],
]


def fresh(src):
    from props import c03
    if "req" in src:
        return c03.make(src["req"])
    if "seq_doc" in src:
        d = src["seq_doc"]
        kind, items = d["kind"], d["items"]
        if kind == "xlsx":
            from sharepoint2text.parsing.extractors.ms_modern.xlsx_extractor import read_xlsx
            return next(read_xlsx(c03.build_xlsx(items)))
        if kind == "ods":
            from sharepoint2text.parsing.extractors.open_office.ods_extractor import read_ods
            return next(read_ods(c03.build_odf("ods", items)))
        from sharepoint2text.parsing.extractors.open_office.odp_extractor import read_odp
        return next(read_odp(c03.build_odf("odp", items)))
    if "fixture" in src:
        for path, obj in c03.fixtures():
            if path == src["fixture"]:
                return copy.deepcopy(obj)
        raise KeyError(src["fixture"])
    raise KeyError("unknown walk source")


def _kw(src):
    return {"include_image_captions": True} if src.get("req", {}).get("captions") else {}


def _meta(md):
    try:
        d = dataclasses.asdict(md) if dataclasses.is_dataclass(md) else dict(vars(md))
    except Exception:  # noqa: BLE001
        d = {"repr": repr(md)}
    return repr(sorted((k, repr(v)) for k, v in d.items()))


def snap(u, twice=False):
    s = (u.get_metadata().unit_number, u.get_text(), len(u.get_images()), len(u.get_tables()), _meta(u.get_metadata()))
    if twice:
        s2 = (u.get_metadata().unit_number, u.get_text(), len(u.get_images()), len(u.get_tables()), _meta(u.get_metadata()))
        if s2 != s:
            return ("unit-changes-between-accesses", s, s2)
    return s


def _short(us):
    return [(u[0], u[1][:30]) if isinstance(u, tuple) and len(u) == 5 else u for u in us]


def check(d):
    """-> [(key, what)]"""
    src, ops = d["src"], d["ops"]
    fmt = src["req"]["fmt"] if "req" in src else (src["seq_doc"]["kind"] if "seq_doc" in src else src["fixture"].rsplit(".", 1)[-1].lower())
    kw = _kw(src)
    try:
        pristine = fresh(src)
        ref = [snap(u) for u in pristine.iterate_units(**kw)]
        ref_full = fresh(src).get_full_text(**kw)          # asked of a result nobody walked before
    except Exception:  # noqa: BLE001 — a source that cannot be read / walked at all is the business of the other oracles
        return []
    if "seq_doc" in src:       # the source itself: sheet / page k's token is in unit k (so a wrong FIRST walk does not become the yardstick)
        items = src["seq_doc"]["items"]
        if [r[0] for r in ref] != list(range(1, len(items) + 1)) or any((it["text"] or "\0") not in r[1] and it["text"] for it, r in zip(items, ref)):
            return []          # judged (with its own key) by seq_doc_check
    obj = fresh(src)
    held = []
    done = []

    def bad(i, op, what, got, want):
        return [(f"{fmt}.walk-depends-on-earlier-walks",
                 f"{fmt} result with {len(ref)} units, operations {done + [op]}: {what} gave {_short(got) if isinstance(got, list) else repr(got)[:160]}, "
                 f"a pristine result gives {_short(want) if isinstance(want, list) else repr(want)[:160]}")]
    try:
        for i, op in enumerate(list(ops) + [["full"], ["text"]]):
            k = op[0]
            if k in ("peek", "hold"):
                it = obj.iterate_units(**kw)
                got = []
                for _ in range(op[1]):
                    try:
                        got.append(snap(next(it)))
                    except StopIteration:
                        break
                if got != ref[:op[1]]:
                    return bad(i, op, f"the first {op[1]} units of a new walk", got, ref[:op[1]])
                if k == "hold":
                    held.append(it)
                else:
                    it.close()
                    del it
            elif k == "interleave":
                a = obj.iterate_units(**kw)
                got_a = []
                for _ in range(op[1]):
                    try:
                        got_a.append(snap(next(a)))
                    except StopIteration:
                        break
                got_b = [snap(u) for u in obj.iterate_units(**kw)]
                got_a += [snap(u) for u in a]
                if got_b != ref:
                    return bad(i, op, f"the complete inner walk (started after the outer walk took {op[1]} units)", got_b, ref)
                if got_a != ref:
                    return bad(i, op, "the outer walk (resumed after the inner walk ended)", got_a, ref)
            elif k in ("full", "units"):
                got = [snap(u, twice=(k == "units")) for u in obj.iterate_units(**kw)]
                if got != ref:
                    return bad(i, op, "a complete walk", got, ref)
            elif k == "text":
                got = obj.get_full_text(**kw)
                if got != ref_full:
                    return bad(i, op, "get_full_text()", got, ref_full)
            elif k == "copy":
                obj = copy.deepcopy(obj)
            done.append(op)
    except Exception as e:  # noqa: BLE001
        return [(f"{fmt}.walk-raises", f"{fmt} result with {len(ref)} units, operations {done + [op]}: {type(e).__name__}: {str(e)[:120]}")]
    finally:
        for it in held:
            it.close()
    return []


def shrink(d):
    ops = list(d["ops"])
    changed = True
    while changed:
        changed = False
        for i in range(len(ops)):
            cand = ops[:i] + ops[i + 1:]
            if check({"src": d["src"], "ops": cand}):
                ops, changed = cand, True
                break
    out = {"src": d["src"], "ops": ops}
    if "seq_doc" in d["src"]:          # fewer sheets, as long as it still fails
        items = list(d["src"]["seq_doc"]["items"])
        while len(items) > 2:
            cand = {"src": {"seq_doc": dict(d["src"]["seq_doc"], items=items[:-1])}, "ops": ops}
            if not check(cand):
                break
            items = items[:-1]
        out = {"src": {"seq_doc": dict(d["src"]["seq_doc"], items=items)}, "ops": ops}
    return out


def gen_ops(rng, n_units):
    out = []
    for _ in range(rng.randint(1, 4)):
        k = rng.choice(["peek", "hold", "interleave", "full", "text", "units", "copy", "peek", "interleave"])
        out.append([k, rng.randint(0, max(1, n_units))] if k in ("peek", "hold", "interleave") else [k])
    return out


def sources(rng, per_fmt=1):
    """fresh-result recipes: every one of the 17 result classes (generated objects with as many units as the generator gives),
    token workbooks / decks read by the real extractors, multi-unit fixtures"""
    from props import c03
    out = []
    for fmt in c03.FORMATS:
        for _ in range(per_fmt):
            best, best_n = None, -1
            for _ in range(12):
                r = c03.gen_req(rng, fmt, False)
                if c03._has_surrogate(r) or not c03._all_str(r):
                    continue
                try:
                    n = sum(1 for _ in c03.make(r).iterate_units())
                except Exception:  # noqa: BLE001
                    continue
                if n > best_n:
                    best, best_n = r, n
                if n >= 3:
                    break
            if best is not None:
                out.append({"req": best})
    for kind in ("xlsx", "ods", "odp"):
        for _ in range(per_fmt):
            d = c03.gen_seq_doc(rng)
            for _ in range(60):
                if d["kind"] == kind and len(d["items"]) >= 3:
                    break
                d = c03.gen_seq_doc(rng)
            if d["kind"] == kind:
                out.append({"seq_doc": d})
    return out


_FIX_MULTI = None


def fixture_sources(cap=6):
    """a few fixtures with more than one unit (one per format), chosen once per process"""
    global _FIX_MULTI
    if _FIX_MULTI is None:
        from props import c03
        seen, _FIX_MULTI = set(), []
        for path, obj in c03.fixtures():
            ext = path.rsplit(".", 1)[-1].lower()
            if ext in seen:
                continue
            try:
                n = sum(1 for _ in obj.iterate_units())
            except Exception:  # noqa: BLE001
                continue
            if 2 <= n <= 60:
                seen.add(ext)
                _FIX_MULTI.append({"fixture": path})
    return _FIX_MULTI[:cap]


def e2e(rng, n):
    """[(key, what, replay)] — the systematic schedules on every kind of result on every run, then n random ones"""
    out = []
    srcs = sources(rng)
    seen = set()

    def run(src, ops):
        d = {"src": src, "ops": ops}
        for key, what in check(d):
            if key in seen:
                return
            seen.add(key)
            s = shrink(d)
            r = check(s) or [(key, what)]
            out.append((r[0][0], r[0][1], {"walk": s}))
    for src in srcs + fixture_sources():
        for ops in SYSTEMATIC:
            run(src, ops)
    for _ in range(n * 4):
        src = rng.choice(srcs)
        run(src, gen_ops(rng, 4))
    return out
