"""C02 (part 'sheets') — main-text fidelity of the slide / sheet assemblers: ODP, ODS, XLSX; plus HTML pages with
REMOVED elements between visible tokens.

Correspondence: abstract decks / spreadsheets / workbooks / pages are generated here (all randomness from ctx.rng) and
sent to the Lean driver, which renders them with the renderer the theorems of Props/C02_Sheets.lean are about
(S2T.Spec.C02SheetsDoc) and answers with the rendered document, the model's full text and the spec's tokens.  The
harness packages the rendered document into a real container (ODF zip, XLSX zip, HTML bytes), runs the REAL extractor
end to end (read_odp / read_ods / read_xlsx / read_epub / read_html) and compares get_full_text() with the model's text.  A second
stream feeds arbitrary element trees (hostile attribute values, annotations and paragraphs anywhere) to the ODP / ODS
models and extractors.

Oracle (every document of every run, and the search): the property statement itself on the real code - the
whitespace-separated tokens of get_full_text() must equal the document's visible tokens computed HERE from the abstract
document (not from the Lean model): same multiplicity, same order, nothing merged, nothing excluded leaking, nothing
invented.  Failing documents are shrunk before they are reported.
"""
from __future__ import annotations

import copy
import io
import json

from run import Broken, Violation
from builders.c02_odf_zip import node, q
from builders import c02_sheets_build as XB
from props.c02_odf import (TokGen, diagnose, gen_inls, gen_odp_tree, gen_ods_tree, py_excl_inl, py_visible, real_odf, toks)

GEN = ["C02Sheets", "HtmlSkip", "Ooxml", "Tables", "PyOdsSheet", "PyXlsxSheet"]
RULE = ("ODP decks = 1-3 slides of 0-4 frames at random positions in a random unit (text boxes holding title / body / other "
        "styled paragraphs, outline lists and sections in nesting, block and inline comments; tables; images), shapes with "
        "text outside frames, speaker notes; ODS = sheets of rows / cells with row / column repeats on both sides of the "
        "caps (empty runs 101..200 columns, 150..1000 rows), string cells with 1-2 paragraphs, typed cells (float, currency, "
        "percentage, date, time, boolean; empty value attribute = fallback), cell comments, header rows; XLSX = workbooks of "
        "1-3 sheets, grids with strings (inner whitespace, blank), integers, floats, booleans, empty cells, trailing empty "
        "rows / columns; EPUB = books of 1-3 chapters (title, 1-4 blocks, inline elements in nesting, <br/>, removed elements with "
        "text / nested same-name / other elements inside) rendered to XHTML and to the handler calls; HTML = pages of p / div / h2 blocks whose inline content has a REMOVED element (script, style, "
        "noscript, iframe, object, embed, applet; hidden text plain or wrapped) after an earlier sibling element and "
        "followed by bare text; plus malformed ODP / ODS element trees with hostile attributes.  distinct = distinct "
        "(format, rendered input); non-trivial = the document carries at least one visible token")
ASSUMPTIONS = [
    "zipfile / defusedxml / ElementTree / openpyxl / html.parser deliver what was written (the models start at the element tree, "
    "the openpyxl row tuples, resp. are not involved for HTML: that stream is judged by the token oracle only)",
    "_iter_text_paragraphs / _iter_cell_paragraphs: the `covered` set is modelled as a flag handed from a parent to its children "
    "(the set is only tested for the visited element; iter() is a pre-order walk)",
    "ODP frame order: the model compares exact rationals, the code binary floats; generated positions are integers in one unit per slide",
    "ODS: typed cells are judged by the documented rule 'typed value when available, else text content' (the paragraph text of a typed "
    "cell with a value is not expected in the output); office:value strings that float() maps to +-inf are never generated; "
    "int() is modelled for ASCII digits only",
    "EPUB: html.parser makes the handler calls the Lean renderer lists for the rendered XHTML (compared per chapter in every run); "
    "chapters contain no tables (cells are reported through chapter.tables; nested tables are the open finding)",
    "XLSX: the cell values are what openpyxl returns for inline strings / numbers / booleans written by the Lean renderer; datetime / "
    "timedelta cells and formulas (C19) are not generated; str(float) is a parameter (floats are generated with short exact decimals)",
]
TRUSTED = ["harness/builders/c02_odf_zip.py (ODF package writer), harness/builders/c02_sheets_build.py (XLSX package around the Lean-rendered sheet XML)",
           "S2T/Spec/C02SheetsDoc.lean renderers (used both by the theorems and, through the driver, by this correspondence)"]

KNOWN_KEYS = {"odp.shape-text-outside-frames-dropped", "ods.header-rows-dropped", "xlsx.unnamed-header-invented"}

TITLE_STYLES = ["Title", "TitleText", "Sub_Title1"]
BODY_STYLES = ["BodyText", "Body", "Text_20_Body"]
OTHER_STYLES = ["P1", "", "Standard", "Outline1"]


# ----------------------------------------------------------------------------- ODP decks
def gen_para(tg, cls="b"):
    rng = tg.rng
    role = rng.choice(["title", "body", "other", "other"])
    if rng.random() < 0.07:
        c = [] if rng.random() < 0.5 else [{"k": "sp", "n": 2}]
    else:
        c = gen_inls(tg, cls, 1, notes=False, maxn=3)
    return {"k": "p", "role": role, "v": rng.randint(0, 11), "c": c}


def gen_tbs(tg, depth, maxn=3):
    rng = tg.rng
    out = []
    for _ in range(rng.randint(1, maxn)):
        r = rng.random()
        if r < 0.68 or depth >= 2:
            out.append(gen_para(tg))
        elif r < 0.80:
            items = [{"k": "g", "t": "item", "c": gen_tbs(tg, depth + 1, 2)} for _ in range(rng.randint(1, 2))]
            out.append({"k": "g", "t": "list", "c": items})
        elif r < 0.88:
            out.append({"k": "g", "t": "section", "c": gen_tbs(tg, depth + 1, 2)})
        else:
            out.append({"k": "ann", "cr": tg.tok("r", False), "c": gen_inls(tg, "a", 1, False, False, 2)})
    return out


def gen_odp_deck(tg):
    rng = tg.rng
    slides = []
    for _ in range(rng.randint(1, 3)):
        frames = []
        for _ in range(rng.randint(0, 4)):
            y, x = rng.choice([0, 1, 2, 3, 5, 8, 12, 100]), rng.choice([0, 1, 2, 4, 30])
            r = rng.random()
            if r < 0.76:
                frames.append({"y": y, "x": x, "k": "tb", "c": gen_tbs(tg, 0)})
            elif r < 0.9:
                rows = [[[gen_inls(tg, "c", 1, False, False, 2) for _ in range(rng.randint(1, 2))] for _ in range(rng.randint(1, 2))]
                        for _ in range(rng.randint(1, 2))]
                frames.append({"y": y, "x": x, "k": "table", "rows": rows})
            else:
                frames.append({"y": y, "x": x, "k": "img", "h": "Pictures/none%d.png" % rng.randint(0, 9)})
        shapes = []
        if rng.random() < 0.12:
            shapes = [[gen_para(tg, "g") for _ in range(rng.randint(1, 2))] for _ in range(rng.randint(1, 2))]
        notes = [{"c": gen_inls(tg, "s", 1, False, False, 2)} for _ in range(rng.randint(0, 2))]
        slides.append({"unit": rng.choice(["cm", "cm", "in", "mm", "pt", "pc", "px"]), "frames": frames, "shapes": shapes, "notes": notes})
    return slides


def _tb_paras(items):
    out = []
    for it in items:
        if it["k"] == "p":
            out.append(it)
        elif it["k"] == "g":
            out += _tb_paras(it["c"])
    return out


def _tb_excl(items):
    out = []
    for it in items:
        if it["k"] == "p":
            out += py_excl_inl(it["c"])
        elif it["k"] == "g":
            out += _tb_excl(it["c"])
        else:
            out += [it["cr"], py_visible(it["c"])] + py_excl_inl(it["c"])
    return out


def py_odp_expected(slides):
    """(tokens of the frames' text in documented order, tokens of the shapes outside frames per slide appended, excluded tokens)"""
    exp, full, excl = [], [], []
    for s in slides:
        frames = sorted(s["frames"], key=lambda f: (f["y"], f["x"]))  # stable
        title, body, other = None, [], []
        for f in frames:
            if f["k"] == "table":
                excl += [py_visible(p) for r in f["rows"] for c in r for p in c]
            if f["k"] != "tb":
                continue
            excl += _tb_excl(f["c"])
            for p in _tb_paras(f["c"]):
                t = py_visible(p["c"])
                if not t.strip():
                    continue
                if p["role"] == "title" and title is None:
                    title = t
                elif p["role"] == "body":
                    body.append(t)
                else:
                    other.append(t)
        st = toks(([title] if title is not None else []) + body + other)
        exp += st
        full += st + toks([py_visible(p["c"]) for sh in s["shapes"] for p in sh])
        excl += [py_visible(n["c"]) for n in s["notes"]]
    return exp, full, toks(excl)


# ----------------------------------------------------------------------------- ODS spreadsheets
_TYPED = [("float", ["1.5", "2", "-3", "0.10", "1e3", "nan", ""]), ("currency", ["12.5", ""]), ("percentage", ["0.25", ""]),
          ("date", ["2024-01-02", "2024-01-02T10:00:00", ""]), ("time", ["PT1H", ""]), ("boolean", ["true", "false", ""])]


def gen_ods_row(tg, cls="b"):
    rng = tg.rng
    cells = []
    for _ in range(rng.randint(0, 4)):
        empty = rng.random() < 0.25
        paras = [] if empty else [{"c": gen_inls(tg, cls, 1, notes=False, maxn=2)} for _ in range(rng.choice([1, 1, 1, 2]))]
        rep = rng.choice([1, 1, 1, 2, 3]) if not empty else rng.choice([1, 2, 5, 100, 101, 120, 200])
        if not empty and rng.random() < 0.04:   # a VALUE repeated beyond the cap of empty runs (must be expanded)
            rep = rng.choice([100, 101, 120])
        cell = {"rep": rep, "paras": paras}
        if not empty and rng.random() < 0.22:
            kind, vals = rng.choice(_TYPED)
            cell["typed"] = [kind, rng.choice(vals)]
            cell["paras"] = [{"c": [{"k": "t", "s": tg.text("v")}]}]
        if rng.random() < 0.15:
            cell["com"] = gen_inls(tg, "c", 1, False, False, 2)
        cells.append(cell)
    allempty = all(not c["paras"] for c in cells)
    rrep = rng.choice([1, 1, 1, 2, 3]) if not allempty else rng.choice([1, 2, 100, 101, 150, 1000])
    if not allempty and rng.random() < 0.03 and all(c["rep"] < 100 for c in cells):   # a row of values repeated beyond the row cap
        rrep = rng.choice([101, 150])
    return {"rep": rrep, "cells": cells}


def gen_ods_sheets(tg):
    rng = tg.rng
    sheets = []
    for _ in range(rng.randint(1, 3)):
        rows = [gen_ods_row(tg) for _ in range(rng.randint(0, 4))]
        hrows = [gen_ods_row(tg, "h")] if rng.random() < 0.1 else []
        for r in hrows:
            r["rep"] = min(r["rep"], 3)
        sheets.append({"name": rng.choice(["", "Sheet", "Tab ", "Täb"]) + tg.tok("k", False), "hrows": hrows, "rows": rows})
    return sheets


def _cell_shown(c):
    t = c.get("typed")
    if t and t[1]:
        return t[1]
    return "\n".join(py_visible(p["c"]) for p in c["paras"])


def py_ods_expected(sheets):
    exp, full, excl = [], [], []

    def row_toks(r):
        row = []
        for c in r["cells"]:
            row += _cell_shown(c).split() * c["rep"]
            t = c.get("typed")
            if t and t[1]:
                excl.extend(py_visible(p["c"]) for p in c["paras"])
            for p in c["paras"]:
                excl.extend(py_excl_inl(p["c"]))
            if "com" in c:
                excl.append(py_visible(c["com"]))
        return row * r["rep"]

    for s in sheets:
        name = s["name"].split()
        body = [t for r in s["rows"] for t in row_toks(r)]
        head = [t for r in s.get("hrows", []) for t in row_toks(r)]
        exp += name + body
        full += name + head + body
    return exp, full, toks(excl)


# ----------------------------------------------------------------------------- HTML pages with removed elements
def gen_html_page(tg):
    rng = tg.rng
    blocks = []

    def rm():
        return {"k": "rm", "tag": rng.randint(0, 20), "hid": tg.tok("z", False) + " " + tg.tok("z", False), "wrap": rng.random() < 0.4}

    def inl(depth):
        r = rng.random()
        if r < 0.45 or depth >= 2:
            return {"k": "t", "s": rng.choice(["", " ", ""]) + tg.text("b", extra=False) + rng.choice(["", " ", ""])}
        if r < 0.75:
            return {"k": "el", "tag": rng.randint(0, 9), "c": [inl(depth + 1) for _ in range(rng.randint(1, 2))]}
        return rm()

    for _ in range(rng.randint(1, 4)):
        c = []
        if rng.random() < 0.85:  # the pattern the seeded change reorders: sibling element, (text), removed element, bare text
            c.append({"k": "el", "tag": rng.randint(0, 9), "c": [{"k": "t", "s": tg.tok("b", False)}]})
            if rng.random() < 0.5:
                c.append({"k": "t", "s": " " + tg.tok("b", False) + " "})
            c.append(rm())
            c.append({"k": "t", "s": rng.choice([" ", ""]) + tg.tok("b", False) + rng.choice([" ", ""])})
        c += [inl(0) for _ in range(rng.randint(0, 3))]
        if rng.random() < 0.3:
            c.insert(0, inl(0))
        blocks.append({"tag": rng.choice([0, 0, 1, 2]), "c": c})
    return blocks


def _hvis(c):
    out = []
    for i in c:
        if i["k"] == "t":
            out.append(i["s"])
        elif i["k"] == "el":
            out.append(_hvis(i["c"]))
    return "".join(out)


def _hhidden(c):
    out = []
    for i in c:
        if i["k"] == "rm":
            out.append((i["tag"], i["hid"]))
        elif i["k"] == "el":
            out += _hhidden(i["c"])
    return out


def py_html_expected(blocks, remove=None, void=()):
    """(visible tokens, hidden tokens); with `remove` / `void` (the driver's REMOVE_TAGS order) the hidden text of void
    elements, which is never written, is left out"""
    hid = [(t, h) for b in blocks for t, h in _hhidden(b["c"])]
    if remove:
        hid = [(t, h) for t, h in hid if remove[t % len(remove)] not in void]
    return [t for b in blocks for t in _hvis(b["c"]).split()], toks([h for _, h in hid])


def real_html(html: str):
    from props.c02_odf import _quiet
    _quiet()
    from sharepoint2text.parsing.extractors.html_extractor import read_html
    try:
        return "ok", next(read_html(io.BytesIO(html.encode("utf-8")))).get_full_text()
    except Exception as e:
        return "err", type(e).__name__


# ----------------------------------------------------------------------------- EPUB chapters
def _remove_tags():
    from sharepoint2text.parsing.extractors import epub_extractor as EE
    return sorted(EE.REMOVE_TAGS), set(EE._VOID_TAGS)


def gen_epub_book(tg):
    rng = tg.rng
    remove, void = _remove_tags()

    def rm():
        t = rng.randint(0, 20)
        tag = remove[t % len(remove)]
        hid = []
        if tag not in void:
            for _ in range(rng.randint(0, 3)):
                r = rng.random()
                if r < 0.6 or tag in ("script", "style"):   # CDATA content: text only
                    hid.append({"k": "t", "s": tg.tok("z", False) + " " + tg.tok("z", False)})
                elif r < 0.8:
                    hid.append({"k": "same", "s": tg.tok("z", False)})
                else:
                    hid.append({"k": "other", "tag": rng.randint(0, 9), "s": tg.tok("z", False)})
        return {"k": "rm", "tag": t, "hid": hid}

    def inl(depth):
        r = rng.random()
        if r < 0.5 or depth >= 2:
            return {"k": "t", "s": rng.choice(["", " ", ""]) + tg.text("b", extra=False) + rng.choice(["", " ", ""])}
        if r < 0.72:
            return {"k": "el", "tag": rng.randint(0, 9), "c": [inl(depth + 1) for _ in range(rng.randint(1, 2))]}
        if r < 0.82:
            return {"k": "br"}
        return rm()

    chapters = []
    for _ in range(rng.randint(1, 3)):
        blocks = [{"tag": rng.randint(0, 11), "c": [inl(0) for _ in range(rng.randint(1, 4))]} for _ in range(rng.randint(1, 4))]
        chapters.append({"title": tg.tok("t", False), "blocks": blocks})
    return chapters


def _evis(c):
    out = []
    for i in c:
        if i["k"] == "t":
            out.append(i["s"])
        elif i["k"] == "el":
            out.append(_evis(i["c"]))
        elif i["k"] == "br":
            out.append("\n")
    return "".join(out)


def _ehidden(c):
    out = []
    for i in c:
        if i["k"] == "rm":
            out += [h["s"] for h in i["hid"]]
        elif i["k"] == "el":
            out += _ehidden(i["c"])
    return out


def py_epub_expected(chapters):
    exp = [t for ch in chapters for b in ch["blocks"] for t in _evis(b["c"]).split()]
    hidden = toks([h for ch in chapters for b in ch["blocks"] for h in _ehidden(b["c"])] + [ch["title"] for ch in chapters])
    return exp, hidden


def real_epub(xhtmls):
    from props.c02_odf import _quiet
    _quiet()
    from builders.c02_ooxml_build import epub_package
    from sharepoint2text.parsing.extractors.epub_extractor import read_epub
    try:
        return "ok", next(read_epub(io.BytesIO(epub_package(list(xhtmls), "Book9")))).get_full_text()
    except Exception as e:
        cause = getattr(e, "__cause__", None)
        return "err", type(cause).__name__ if cause is not None else type(e).__name__


def parser_events(xhtml: str):
    """the handler calls html.parser.HTMLParser makes on the chapter document (adjacent data merged, the html / head / body
    wrapper tags dropped): what the Lean rendering to events assumes"""
    from html.parser import HTMLParser
    evs = []

    class P(HTMLParser):
        def handle_starttag(self, tag, attrs): evs.append(["start", tag])
        def handle_endtag(self, tag): evs.append(["end", tag])
        def handle_startendtag(self, tag, attrs): evs.append(["startend", tag])
        def handle_data(self, d): evs.append(["data", d])

    p = P(convert_charrefs=True)
    p.feed('<html xmlns="http://www.w3.org/1999/xhtml">' + xhtml + "</html>")
    p.close()
    return _norm_events(evs)


def _norm_events(evs):
    out = []
    for e in evs:
        if e[0] in ("start", "end") and e[1] in ("html", "head", "body"):
            continue
        if e[0] == "data" and out and out[-1][0] == "data":
            out[-1] = ["data", out[-1][1] + e[1]]
        elif e[0] == "data" and e[1] == "":
            continue
        else:
            out.append(list(e))
    return out


# ----------------------------------------------------------------------------- XLSX workbooks
def gen_xlsx_book(tg):
    rng = tg.rng
    sheets = []
    for si in range(rng.randint(1, 3)):
        ncol = rng.randint(1, 5)
        rows = []
        for ri in range(rng.randint(0, 5)):
            row = []
            for ci in range(ncol):
                r = rng.random()
                if r < 0.22 and not (ri == 0 and rng.random() < 0.7):
                    row.append(None)
                elif r < 0.62:
                    row.append({"s": tg.text("b", extra=False).strip() if rng.random() < 0.8 else " " + tg.tok("b", False) + "  " + tg.tok("b", False)})
                elif r < 0.68:
                    row.append({"s": rng.choice([" ", "  "])})
                elif r < 0.82:
                    row.append({"i": rng.choice([0, 1, 7, 42, -3, 1000000, 2024])})
                elif r < 0.92:
                    fv = rng.choice(["1.5", "2.25", "0.5", "-3.75", "2.0", "100.0"])
                    row.append({"f": fv, "w": int(float(fv)) if float(fv) == int(float(fv)) else None})
                else:
                    row.append({"b": rng.random() < 0.5})
            rows.append(row)
        if rng.random() < 0.2:
            rows.append([None] * ncol)
        if rng.random() < 0.15 and rows:
            rows = [r + [None] for r in rows]
        sheets.append({"name": rng.choice(["Sheet", "Tab ", "Data"]) + tg.tok("k", False), "rows": rows})
    return sheets


def _xdisp(c, header=False):
    if c is None:
        return ""
    if "s" in c:
        return c["s"]
    if "i" in c:
        return str(c["i"])
    if "b" in c:
        return "True" if c["b"] else "False"
    f = float(c["f"])
    if header:
        return str(f)
    return str(int(f)) if f == int(f) else str(f)


def py_xlsx_expected(sheets):
    """(property tokens: sheet name + cell display texts row-major, does the first used row have an empty cell in the used width)"""
    exp, unnamed = [], False
    for s in sheets:
        exp += s["name"].split()
        rows = s["rows"]

        def nonempty(c):
            return c is not None and not ("s" in c and not c["s"].strip())
        while rows and not any(nonempty(c) for c in rows[-1]):
            rows = rows[:-1]
        if not rows:
            continue
        width = max((max([i + 1 for i, c in enumerate(r) if nonempty(c)], default=0) for r in rows), default=0)
        first = rows[0][:width] + [None] * (width - len(rows[0][:width]))
        if any(not nonempty(c) for c in first):
            unnamed = True
        for ri, r in enumerate(rows):
            for c in r:
                exp += _xdisp(c, header=(ri == 0)).split()
    return exp, unnamed


def real_xlsx(sheet_xmls, names):
    from props.c02_odf import _quiet
    _quiet()
    from sharepoint2text.parsing.extractors.ms_modern.xlsx_extractor import read_xlsx
    data = XB.xlsx_package(sheet_xmls, names)
    try:
        return "ok", next(read_xlsx(io.BytesIO(data))).get_full_text()
    except Exception as e:
        cause = getattr(e, "__cause__", None)
        return "err", type(cause).__name__ if cause is not None else type(e).__name__


# ----------------------------------------------------------------------------- the oracle (property on the real code)
_OPS = {"odp": ("c02sheets.odp", "slides"), "ods": ("c02sheets.ods", "sheets"), "html": ("c02sheets.html", "blocks"),
        "xlsx": ("c02sheets.xlsx", "sheets"), "epub": ("c02sheets.epub", "chapters")}


def _render(ctx, fmt, docs):
    op, key = _OPS[fmt]
    return ctx.drive([{"op": op, key: d} for d in docs])


def _real(fmt, o):
    if fmt in ("odp", "ods"):
        return real_odf(fmt, o["xml"])
    if fmt == "html":
        return real_html(o["html"])
    if fmt == "epub":
        return real_epub(o["xhtml"])
    return real_xlsx(o["sheet_xml"], o["names"])


def judge(fmt, d, kind, text):
    """the property on one document: [] or [(key, message)]"""
    if kind != "ok":
        return [(f"{fmt}.extraction-fails", f"{fmt} extractor raised {text} on a well-formed generated document")]
    got = text.split()
    if fmt == "odp":
        exp, full, excl = py_odp_expected(d)
        if got == full:
            return []
        if got == exp:
            lost = [t for t in full if t not in exp]
            return [("odp.shape-text-outside-frames-dropped",
                     f"ODP: text of a shape outside a frame (draw:custom-shape child of draw:page) is missing from get_full_text(): {lost[:3]}")]
        dg = diagnose("odp", exp, got, excl + [t for t in full if t not in exp])
    elif fmt == "ods":
        exp, full, excl = py_ods_expected(d)
        if got == full:
            return []
        if got == exp:
            lost = [t for t in full if t not in exp]
            return [("ods.header-rows-dropped", f"ODS: rows inside table:table-header-rows are missing from get_full_text(): {lost[:3]}")]
        dg = diagnose("ods", exp, got, excl + [t for t in full if t not in exp])
    elif fmt == "html":
        exp, hidden = py_html_expected(d)
        dg = diagnose("html", exp, got, hidden)
    elif fmt == "epub":
        exp, hidden = py_epub_expected(d)
        dg = diagnose("epub", exp, got, hidden)
    else:
        exp, unnamed = py_xlsx_expected(d)
        if got == exp:
            return []
        if unnamed and "Unnamed:" in got:
            # remove the invented 'Unnamed: i' pairs and see whether anything else is wrong
            rest, i = [], 0
            while i < len(got):
                if got[i] == "Unnamed:" and i + 1 < len(got) and got[i + 1].isdigit():
                    i += 2
                    continue
                rest.append(got[i]); i += 1
            if rest == exp:
                return [("xlsx.unnamed-header-invented", "xlsx: 'Unnamed: i' printed for an empty first-row cell: text that is neither in the "
                         f"source nor documented decoration — output {text[:80]!r}")]
        dg = diagnose("xlsx", exp, got, [])
    if dg is None:
        return []
    return [(f"{fmt}.{dg[0]}", f"{fmt.upper()}: {dg[1]}")]


def oracle_doc(ctx, fmt, d):
    o = _render(ctx, fmt, [d])[0]
    if "drv_error" in o:
        return []
    kind, text = _real(fmt, o)
    return judge(fmt, d, kind, text)


# ----------------------------------------------------------------------------- shrinking
def _paths(x, pre=()):
    """paths to every list element of a JSON document"""
    if isinstance(x, list):
        for i, v in enumerate(x):
            yield pre + (i,)
            yield from _paths(v, pre + (i,))
    elif isinstance(x, dict):
        for k, v in x.items():
            yield from _paths(v, pre + (k,))


def _without(doc, path):
    d = copy.deepcopy(doc)
    cur = d
    for p in path[:-1]:
        cur = cur[p]
    del cur[path[-1]]
    return d


def shrink(ctx, fmt, doc, key, budget=160):
    """greedy deletion of list elements while the same finding key persists"""
    cur = doc
    progress = True
    while progress and budget > 0:
        progress = False
        for path in sorted(_paths(cur), key=lambda p: (len(p), p)):
            if budget <= 0:
                break
            try:
                cand = _without(cur, path)
            except Exception:
                continue
            budget -= 1
            try:
                res = oracle_doc(ctx, fmt, cand)
            except Exception:
                continue
            if any(k == key for k, _ in res):
                cur, progress = cand, True
                break
    return cur


def _violation(ctx, fmt, d, key, msg, budget):
    """shrink the failing document (known findings keep theirs) and word the message for the shrunk one"""
    dd = d
    if key not in KNOWN_KEYS:
        dd = shrink(ctx, fmt, d, key, budget=budget)
        for k, m in oracle_doc(ctx, fmt, dd):
            if k == key:
                msg = m
    return Violation(key, msg, {"part": PART, "fmt": fmt, "doc": dd})


PART = "c02_sheets"

# ----------------------------------------------------------------------------- correspondence
_MISMATCH = {}


def _cmp(broken, name, impl, model, case):
    if impl != model:
        _MISMATCH[name] = _MISMATCH.get(name, 0) + 1
        if _MISMATCH[name] <= 5:
            broken.append(Broken("correspondence", name, f"impl={impl!r} model={model!r}"[:1500], case=case))
        return False
    return True


def _doc_stream(ctx, fmt, gen, n, tg, broken, violations):
    docs = [gen(tg) for _ in range(n)]
    outs = _render(ctx, fmt, docs)
    for d, o in zip(docs, outs):
        if "drv_error" in o:
            broken.append(Broken("correspondence", "driver", o["drv_error"], case={"fmt": fmt, "doc": d}))
            continue
        kind, text = _real(fmt, o)
        fp = o.get("xml") or o.get("html") or o.get("sheet_xml") or o.get("xhtml")
        ctx.case((fmt, json.dumps(fp, sort_keys=True)), nontrivial=bool(o.get("tokens")))
        ctx.count(f"sheets/{fmt}/doc/" + ("tokens>0" if o.get("tokens") else "empty"))
        if fmt != "html":  # model text vs implementation text (exact)
            model = ("ok", o["text"]) if "text" in o else ("err", o.get("err"))
            ok = _cmp(broken, f"c02sheets.{fmt}", (kind, text), model, {"fmt": fmt, "doc": d})
            if ok and len(ctx.samples) < 5 and o.get("tokens"):
                ctx.sample({"fmt": fmt, "text": text[:100], "tokens": o["tokens"][:8]})
        # the spec's tokens as computed by Lean and by this module agree (ties the python oracle to the spec)
        if fmt == "odp":
            exp, full, excl = py_odp_expected(d)
            spec_ok = o["tokens"] == exp and o["full"] == full and sorted(toks(o["excl"] + o["tables"])) == sorted(excl)
        elif fmt == "ods":
            exp, full, excl = py_ods_expected(d)
            spec_ok = o["tokens"] == exp and o["full"] == full
        elif fmt == "html":
            exp, hidden = py_html_expected(d, o["remove"], o["void"])
            spec_ok = o["tokens"] == exp and sorted(toks(o["hidden"])) == sorted(hidden)
        elif fmt == "epub":
            exp, hidden = py_epub_expected(d)
            spec_ok = o["tokens"] == exp and sorted(toks(o["hidden"]) + toks([c["title"] for c in d])) == sorted(hidden)
            # the handler calls the Lean rendering assumes are the calls html.parser makes on the rendered XHTML, and the
            # model's chapter text is what the real _XhtmlTextExtractor returns for it
            from sharepoint2text.parsing.extractors.epub_extractor import _XhtmlTextExtractor
            for xh, evs, mt in zip(o["xhtml"], o["evs"], o["texts"]):
                if parser_events(xh) != _norm_events(evs):
                    broken.append(Broken("correspondence", "c02sheets.epub.events", f"HTMLParser calls {parser_events(xh)[:12]} model {_norm_events(evs)[:12]}", case={"fmt": fmt, "doc": d}))
                px = _XhtmlTextExtractor()
                px.feed('<html xmlns="http://www.w3.org/1999/xhtml">' + xh + "</html>")
                _cmp(broken, "c02sheets.epub.chapter", px.get_text(), mt, {"fmt": fmt, "doc": d})
        else:
            exp, unnamed = py_xlsx_expected(d)
            spec_ok = o["grid"] == exp
        if not spec_ok:
            broken.append(Broken("correspondence", f"c02sheets.{fmt}.spec", f"lean tokens {o['tokens'][:8]} python {exp[:8]}", case={"fmt": fmt, "doc": d}))
        # the property oracle on every document of every run
        for key, msg in judge(fmt, d, kind, text):
            if not any(v.key == key for v in violations):
                violations.append(_violation(ctx, fmt, d, key, msg, 60))


def correspondence(ctx):
    broken, violations = [], []
    rng = ctx.rng
    tg = TokGen(rng)
    _MISMATCH.clear()
    _doc_stream(ctx, "odp", gen_odp_deck, ctx.n(70, 2500), tg, broken, violations)
    _doc_stream(ctx, "ods", gen_ods_sheets, ctx.n(70, 2500), tg, broken, violations)
    _doc_stream(ctx, "xlsx", gen_xlsx_book, ctx.n(40, 1200), tg, broken, violations)
    _doc_stream(ctx, "html", gen_html_page, ctx.n(80, 2500), tg, broken, violations)
    _doc_stream(ctx, "epub", gen_epub_book, ctx.n(50, 1500), tg, broken, violations)

    # malformed element trees through the ODP / ODS models and the real extractors
    reqs, cases = [], []
    for _ in range(ctx.n(60, 2000)):
        body = gen_odp_tree(rng, tg)
        reqs.append({"op": "c02sheets.xml", "fmt": "odp", "tree": body}); cases.append(("odp", body))
    for _ in range(ctx.n(60, 2000)):
        body = gen_ods_tree(rng, tg)
        reqs.append({"op": "c02sheets.xml", "fmt": "ods", "tree": body}); cases.append(("ods", body))
    outs = ctx.drive(reqs)
    for (fmt, tree), o in zip(cases, outs):
        if "drv_error" in o:
            broken.append(Broken("correspondence", "driver", o["drv_error"], case={"fmt": fmt, "tree": tree}))
            continue
        kind, text = real_odf(fmt, tree)
        model = ("ok", o["text"]) if "text" in o else ("err", o.get("err"))
        ctx.case((fmt, "tree", json.dumps(tree, sort_keys=True)), nontrivial=bool(o.get("text")))
        ctx.count(f"sheets/{fmt}/tree/" + model[0])
        _cmp(broken, f"c02sheets.xml.{fmt}", (kind, text), model, {"fmt": fmt, "tree": tree})
    # the covered-set walk against the real generator on arbitrary trees (and against the pruned recursion)
    from builders.c02_odf_zip import to_etree
    from sharepoint2text.parsing.extractors.open_office import odp_extractor as OP
    trees = [gen_odp_tree(rng, tg) for _ in range(ctx.n(40, 1200))]
    outs = ctx.drive([{"op": "c02sheets.xml", "fmt": "odp-walk", "tree": t} for t in trees])
    for t, o in zip(trees, outs):
        if "drv_error" in o:
            broken.append(Broken("correspondence", "driver", o["drv_error"], case={"fmt": "odp-walk", "tree": t}))
            continue
        impl = [OP._get_text_recursive(p) for p in OP._iter_text_paragraphs(to_etree(t))]
        ctx.case(("odp-walk", json.dumps(t, sort_keys=True)), nontrivial=bool(impl))
        ctx.count("sheets/odp/walk")
        _cmp(broken, "c02sheets.odp.walk", impl, o["paras"], {"fmt": "odp-walk", "tree": t})
        if o["paras"] != o["pruned"]:
            broken.append(Broken("correspondence", "c02sheets.odp.walk.pruned", "covered walk differs from the pruned recursion", case={"fmt": "odp-walk", "tree": t}))
    ctx.coverage["sheets_mismatches"] = dict(_MISMATCH)
    return {"broken": broken, "violations": violations}


# ----------------------------------------------------------------------------- search
_GENS = {"odp": gen_odp_deck, "ods": gen_ods_sheets, "html": gen_html_page, "xlsx": gen_xlsx_book, "epub": gen_epub_book}


def search(ctx, broken):
    rng = ctx.rng
    tg = TokGen(rng)
    found = []

    def add(fmt, d, res):
        for key, msg in res:
            if key not in KNOWN_KEYS and not any(f.key == key for f in found):
                found.append(_violation(ctx, fmt, d, key, msg, 160))

    fmts_hit = set()
    for b in broken:
        c = b.case if isinstance(b.case, dict) else {}
        fmt = c.get("fmt")
        if fmt == "odp-walk":
            fmt = "odp"
        if fmt:
            fmts_hit.add(fmt)
        if fmt in _OPS and "doc" in c:
            add(fmt, c["doc"], oracle_doc(ctx, fmt, c["doc"]))
    targets = [f for f in _GENS if f in fmts_hit]
    if not targets or any(not (isinstance(b.case, dict) and b.case.get("fmt")) for b in broken):
        targets = list(_GENS)  # a theorem / table obligation / build step broke: look everywhere
    for fmt in targets:
        if any(f.key.startswith(fmt + ".") for f in found):
            continue
        for _ in range(ctx.n(6, 40)):
            docs = [_GENS[fmt](tg) for _ in range(40)]
            outs = _render(ctx, fmt, docs)
            for d, o in zip(docs, outs):
                if "drv_error" in o:
                    continue
                kind, text = _real(fmt, o)
                add(fmt, d, judge(fmt, d, kind, text))
            if any(f.key.startswith(fmt + ".") for f in found):
                break
    return found


# ----------------------------------------------------------------------------- open known findings (witnesses = the Lean counterexamples)
def _p(role, s):
    return {"k": "p", "role": role, "v": 0, "c": [{"k": "t", "s": s}]}


W_ODP_SHAPE = [{"unit": "cm", "frames": [{"y": 1, "x": 1, "k": "tb", "c": [_p("other", "A1")]}], "shapes": [[_p("other", "SHAPE1")]], "notes": []}]
_cs = lambda s: {"rep": 1, "paras": [{"c": [{"k": "t", "s": s}]}]}  # noqa: E731
W_ODS_HEADER = [{"name": "S1", "hrows": [{"rep": 1, "cells": [_cs("HEAD1")]}], "rows": [{"rep": 1, "cells": [_cs("A1")]}]}]
W_XLSX_UNNAMED = [{"name": "S", "rows": [[{"s": "a"}, None, {"s": "b"}], [{"s": "c"}, {"s": "d"}, {"s": "e"}]]}]


def known_witnesses(ctx):
    out = []
    for fmt, key, w in (("odp", "odp.shape-text-outside-frames-dropped", W_ODP_SHAPE), ("ods", "ods.header-rows-dropped", W_ODS_HEADER),
                        ("xlsx", "xlsx.unnamed-header-invented", W_XLSX_UNNAMED)):
        res = oracle_doc(ctx, fmt, w)
        hit = [m for k, m in res if k == key]
        if hit:
            out.append(Violation(key, hit[0], {"part": PART, "fmt": fmt, "doc": w}))
        else:
            ctx.notes.append(f"known finding {key}: the committed witness (Lean counterexample deck) no longer fails on this tree: {res}")
    return out


def replay(ctx, payload):
    rep = payload.get("replay", {})
    if rep.get("part") not in (None, PART):
        return False, "not a replay of part 'sheets'"
    fmt = rep.get("fmt")
    if fmt in _OPS and "doc" in rep:
        res = oracle_doc(ctx, fmt, rep["doc"])
        return (not res), "; ".join(m for _, m in res) or "property holds on the recorded document"
    if fmt in ("odp", "ods", "odp-walk") and "tree" in rep:
        return False, "model / implementation disagreement on a malformed tree (no property verdict): " + json.dumps(rep["tree"])[:300]
    return False, "unrecognised replay"
