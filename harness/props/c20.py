"""C20 — built-in AES (pdf/_pypdf_aes_fallback.py) equals FIPS-197 AES in ECB/CBC.

correspondence: the real module functions (tables' users, round functions, key schedule, block functions, ECB/CBC
drivers, PKCS#7 helpers, the CryptAES class patched into pypdf, the round-key cache, the import-time GF helpers)
against the Lean model S2T.Aes run by the driver, on the same generated inputs.

search / replay: an oracle of the property statement itself on the real code, independent of the Lean model:
an AES written here from FIPS-197 (GF(2^8) by polynomial reduction, S-box from inverse+affine, matrix MixColumns),
FIPS-197 / SP 800-38A known answers, inversion, wrapper layout, ValueError on wrong lengths.
"""
from __future__ import annotations

import importlib

from run import Broken, Violation

GEN = ["Aes", "PyAes", "AesState"]
RULE = ("structured stream: key length in {16,24,32} x message of 0..8 blocks x random / all-zero / all-0xFF / "
        "single-bit / FIPS and SP 800-38A vectors, through ECB and CBC both directions, every round function on "
        "random states, key schedule, block functions, CryptAES encrypt+decrypt for every message length 0..64 "
        "(0..200 thorough) with the IV the code drew, round-key cache histories, all 256 x 6 products of the GF "
        "helpers; malformed stream: key lengths 0..40 outside {16,24,32}, IV lengths != 16, unaligned data, random "
        "and crafted CryptAES.decrypt inputs (bad padding, short, unaligned), PKCS#7 corner cases. "
        "distinct = distinct (operation, input) pairs; non-trivial = input exercises at least one AES block or a "
        "rejection path")
ASSUMPTIONS = [
    "CPython semantics of int ^ & << >>, list/bytes slicing, bytes(), memoryview, OrderedDict (modelled, not verified)",
    "inputs are `bytes` as annotated (a bytearray key is unhashable and is rejected with TypeError by the cache lookup; out of scope)",
    "secrets.token_bytes(16) returns 16 bytes; the model takes the IV as a parameter (freshness = unpredictability is not a functional property; the oracle only checks that two calls draw different IVs)",
    "pypdf runs on its fallback crypto provider in this sandbox, so patch_pypdf_fallback_aes() installs the built-in AES (checked each run)",
    "table index never leaves 0..255: proved for the model (Block-closure theorems); Python would raise IndexError, which the correspondence would show as a disagreement",
]
TRUSTED = [
    "S2T/Spec/Fips197.lean: transcription of FIPS-197 / SP 800-38A, validated in the kernel on Appendix A, B, C.1-C.3 and F.1.1-F.2.6",
    "S2T/Model/Aes.lean: hand model of _pypdf_aes_fallback.py, tied by this correspondence",
]

MOD = "sharepoint2text.parsing.extractors.pdf._pypdf_aes_fallback"
RULE += ("; concurrent use (props/c20_threads.py): forced two-thread schedules — thread A paused at every call event / "
         "a strided sample of all line events / one event of its operation while thread B completes (or overlaps with) "
         "an ECB / CBC / CryptAES / block operation under the same or another key, round-key cache empty or primed; "
         "every result of both threads and of a repetition afterwards against the model and the single-threaded run")
ASSUMPTIONS.append("threads are preempted at source-line boundaries at the finest (sys.settrace); two threads; the pause "
                   "points are deferred while a lock of the module is held")


def _A():
    return importlib.import_module(MOD)


# ------------------------------------------------------------------------------------------------ reference AES
# written from FIPS-197, shares nothing with the module under test nor with the Lean model
def _gmul(a: int, b: int) -> int:
    p = 0
    for i in range(8):
        if (b >> i) & 1:
            p ^= a << i
    for k in range(14, 7, -1):
        if (p >> k) & 1:
            p ^= 0x11B << (k - 8)
    return p


def _ginv(a: int) -> int:
    if a == 0:
        return 0
    for b in range(1, 256):
        if _gmul(a, b) == 1:
            return b
    raise AssertionError


def _rotl8(x, n):
    return ((x << n) | (x >> (8 - n))) & 0xFF


_REF = {}


def _ref_tables():
    if not _REF:
        sb = []
        for a in range(256):
            b = _ginv(a)
            sb.append(b ^ _rotl8(b, 1) ^ _rotl8(b, 2) ^ _rotl8(b, 3) ^ _rotl8(b, 4) ^ 0x63)
        isb = [0] * 256
        for i, v in enumerate(sb):
            isb[v] = i
        _REF["sb"], _REF["isb"] = sb, isb
        _REF["mul"] = {c: [_gmul(x, c) for x in range(256)] for c in (2, 3, 9, 11, 13, 14)}
    return _REF


_M = [[2, 3, 1, 1], [1, 2, 3, 1], [1, 1, 2, 3], [3, 1, 1, 2]]
_IM = [[14, 11, 13, 9], [9, 14, 11, 13], [13, 9, 14, 11], [11, 13, 9, 14]]


def _ref_keyexp(key: bytes):
    sb = _ref_tables()["sb"]
    nk = len(key) // 4
    nr = nk + 6
    w = [list(key[4 * i:4 * i + 4]) for i in range(nk)]
    rc = 1
    for i in range(nk, 4 * (nr + 1)):
        t = list(w[i - 1])
        if i % nk == 0:
            t = t[1:] + t[:1]
            t = [sb[x] for x in t]
            t[0] ^= rc
            rc = _gmul(rc, 2)
        elif nk > 6 and i % nk == 4:
            t = [sb[x] for x in t]
        w.append([x ^ y for x, y in zip(w[i - nk], t)])
    return w, nr


def _mc(s, M):
    o = [0] * 16
    for c in range(4):
        for r in range(4):
            v = 0
            for k in range(4):
                v ^= _gmul(s[k + 4 * c], M[r][k])
            o[r + 4 * c] = v
    return o


def _ark(s, w, r):
    return [s[i] ^ w[4 * r + i // 4][i % 4] for i in range(16)]


def ref_enc(key: bytes, blk: bytes) -> bytes:
    sb = _ref_tables()["sb"]
    w, nr = _ref_keyexp(key)
    s = _ark(list(blk), w, 0)
    for r in range(1, nr + 1):
        s = [sb[x] for x in s]
        s = [s[(i % 4) + 4 * (((i // 4) + (i % 4)) % 4)] for i in range(16)]
        if r < nr:
            s = _mc(s, _M)
        s = _ark(s, w, r)
    return bytes(s)


def ref_dec(key: bytes, blk: bytes) -> bytes:
    isb = _ref_tables()["isb"]
    w, nr = _ref_keyexp(key)
    s = _ark(list(blk), w, nr)
    for r in range(nr - 1, -1, -1):
        s = [s[(i % 4) + 4 * (((i // 4) - (i % 4)) % 4)] for i in range(16)]
        s = [isb[x] for x in s]
        s = _ark(s, w, r)
        if r > 0:
            s = _mc(s, _IM)
    return bytes(s)


def ref_ecb(enc: bool, k: bytes, d: bytes) -> bytes:
    f = ref_enc if enc else ref_dec
    return b"".join(f(k, d[i:i + 16]) for i in range(0, len(d), 16))


def ref_cbc(enc: bool, k: bytes, iv: bytes, d: bytes) -> bytes:
    o, p = [], iv
    for i in range(0, len(d), 16):
        c = d[i:i + 16]
        if enc:
            p = ref_enc(k, bytes(x ^ y for x, y in zip(c, p)))
            o.append(p)
        else:
            o.append(bytes(x ^ y for x, y in zip(ref_dec(k, c), p)))
            p = c
    return b"".join(o)


def ref_pad(m: bytes) -> bytes:
    p = 16 - len(m) % 16
    return m + bytes([p]) * p


# ------------------------------------------------------------------------------------------------ known answers
_H = bytes.fromhex
_PT = _H("6bc1bee22e409f96e93d7e117393172aae2d8a571e03ac9c9eb76fac45af8e5130c81c46a35ce411e5fbc1191a0a52eff69f2445df4f9b17ad2b417be66c3710")
_K = {128: _H("2b7e151628aed2a6abf7158809cf4f3c"), 192: _H("8e73b0f7da0e6452c810f32b809079e562f8ead2522c6b7b"),
      256: _H("603deb1015ca71be2b73aef0857d77811f352c073b6108d72d9810a30914dff4")}
_IV = _H("000102030405060708090a0b0c0d0e0f")
_ECB = {128: "3ad77bb40d7a3660a89ecaf32466ef97f5d3d58503b9699de785895a96fdbaaf43b1cd7f598ece23881b00e3ed0306887b0c785e27e8ad3f8223207104725dd4",
        192: "bd334f1d6e45f25ff712a214571fa5cc974104846d0ad3ad7734ecb3ecee4eefef7afd2270e2e60adce0ba2face6444e9a4b41ba738d6c72fb16691603c18e0e",
        256: "f3eed1bdb5d2a03c064b5a7e3db181f8591ccb10d410ed26dc5ba74a31362870b6ed21b99ca6f4f9f153e7b1beafed1d23304b7a39f9f3ff067d8d8f9e24ecc7"}
_CBC = {128: "7649abac8119b246cee98e9b12e9197d5086cb9b507219ee95db113a917678b273bed6b8e3c1743b7116e69e222295163ff1caa1681fac09120eca307586e1a7",
        192: "4f021db243bc633d7178183a9fa071e8b4d9ada9ad7dedf4e5e738763f69145a571b242012fb7ae07fa9baac3df102e008b0e27988598881d920a9e64f5615cd",
        256: "f58c4c04d6e5f1ba779eabfb5f7bfbd69cfc4e967edb808d679f777bc6702c7d39f23369a9d9bacfa530e26304231461b2eb05e2c39be9fcda6c19078c6a9d1b"}
_FIPS_C = [(bytes(range(16)), "69c4e0d86a7b0430d8cdb78070b4c55a"), (bytes(range(24)), "dda97ca4864cdfe06eaf70a0ec0d7191"),
           (bytes(range(32)), "8ea2b7ca516745bfeafc49904b496089")]
_FIPS_PT = _H("00112233445566778899aabbccddeeff")


def _kats():
    """[(kind, enc, key, iv, data, expected, name)]"""
    out = []
    for k, ct in _FIPS_C:
        out.append(("ecb", True, k, b"", _FIPS_PT, _H(ct), f"FIPS-197 C AES-{len(k) * 8} cipher"))
        out.append(("ecb", False, k, b"", _H(ct), _FIPS_PT, f"FIPS-197 C AES-{len(k) * 8} inverse cipher"))
    out.append(("ecb", True, _K[128], b"", _H("3243f6a8885a308d313198a2e0370734"), _H("3925841d02dc09fbdc118597196a0b32"), "FIPS-197 Appendix B"))
    for bits in (128, 192, 256):
        out.append(("ecb", True, _K[bits], b"", _PT, _H(_ECB[bits]), f"SP 800-38A ECB-AES{bits}.Encrypt"))
        out.append(("ecb", False, _K[bits], b"", _H(_ECB[bits]), _PT, f"SP 800-38A ECB-AES{bits}.Decrypt"))
        out.append(("cbc", True, _K[bits], _IV, _PT, _H(_CBC[bits]), f"SP 800-38A CBC-AES{bits}.Encrypt"))
        out.append(("cbc", False, _K[bits], _IV, _H(_CBC[bits]), _PT, f"SP 800-38A CBC-AES{bits}.Decrypt"))
    return out


# ------------------------------------------------------------------------------------------------ implementation adaptor
def _call(f, *a):
    """canonical outcome of a real call: {"ok": [ints]} | {"err": exception class name}"""
    try:
        r = f(*a)
    except Exception as e:  # noqa: BLE001 - the class name is the observation
        return {"err": type(e).__name__}
    if isinstance(r, (bytes, bytearray, memoryview, list, tuple)):
        return {"ok": [int(x) for x in bytes(r)] if not isinstance(r, (list, tuple)) else [int(x) for x in r]}
    return {"err": f"RETURNED:{type(r).__name__}"}


def _crypt_cls():
    """the CryptAES class pypdf's encryption layer uses after the library's patch (None if not the live path)"""
    A = _A()
    try:
        if not A.patch_pypdf_fallback_aes():
            return None
        import pypdf._encryption as enc
        import pypdf._crypt_providers as providers
        import pypdf._crypt_providers._fallback as fb
        if not (enc.CryptAES is fb.CryptAES is providers.CryptAES):
            return "MISMATCH"
        if not (enc.aes_cbc_decrypt is A.aes_cbc_decrypt and enc.aes_ecb_encrypt is A.aes_ecb_encrypt
                and enc.aes_cbc_encrypt is A.aes_cbc_encrypt and enc.aes_ecb_decrypt is A.aes_ecb_decrypt):
            return "MISMATCH"
        return fb.CryptAES
    except Exception:  # noqa: BLE001
        return None


def _impl(case: dict):
    """run one driver request on the real code"""
    A = _A()
    op = case["op"]
    b = lambda k: bytes(case[k])  # noqa: E731
    if op == "c20.ecb":
        return _call(A.aes_ecb_encrypt if case["enc"] else A.aes_ecb_decrypt, b("key"), b("data"))
    if op == "c20.cbc":
        return _call(A.aes_cbc_encrypt if case["enc"] else A.aes_cbc_decrypt, b("key"), b("iv"), b("data"))
    if op == "c20.crypt":  # decrypt only (encrypt is handled where the IV is observed)
        cls = _crypt_cls()
        return _call(lambda: cls(b("key")).decrypt(b("data")))
    if op == "c20.expand":
        try:
            return {"ok": [list(r) for r in A._expand_key(b("key"))]}
        except Exception as e:  # noqa: BLE001
            return {"err": type(e).__name__}
    if op == "c20.block":
        def f():
            rks = A._expand_key(b("key"))
            return (A._aes_encrypt_block if case["enc"] else A._aes_decrypt_block)(b("block"), rks)
        return _call(f)
    if op == "c20.round":
        fn = case["fn"]
        st = list(case["state"])
        try:
            if fn == "add_round_key":
                A._add_round_key(st, b("rk"))
            elif fn == "rot_word":
                st = A._rot_word(st)
            elif fn == "sub_word":
                st = A._sub_word(st)
            else:
                getattr(A, "_" + fn)(st)
            return {"ok": [int(x) for x in st]}
        except Exception as e:  # noqa: BLE001
            return {"err": type(e).__name__}
    if op == "c20.pad":
        if case["unpad"]:
            return _call(A._pkcs7_unpad, b("data"), case["bs"])
        return _call(A._pkcs7_pad, b("data"), case["bs"])
    if op == "c20.chunks":
        try:
            return {"ok": [list(bytes(c)) for c in A._chunks(b("data"), case["size"])]}
        except Exception as e:  # noqa: BLE001
            return {"err": type(e).__name__}
    if op == "c20.gf":
        return {"xtime": A._xtime(case["a"]), "mul": A._gf_mul(case["a"], case["b"])}
    if op == "c20.build":
        return {"mul": list(A._build_mul_table(case["m"])), "rcon": list(A._build_rcon(case["n"]))}
    if op == "c20.cache":
        A._ROUND_KEY_CACHE.clear()
        calls = []
        for k in case["keys"]:
            try:
                r = {"ok": [list(x) for x in A._get_round_keys(bytes(k))]}
            except Exception as e:  # noqa: BLE001
                r = {"err": type(e).__name__}
            r["cached"] = [list(x) for x in A._ROUND_KEY_CACHE.keys()]
            calls.append(r)
        A._ROUND_KEY_CACHE.clear()
        return {"calls": calls}
    raise KeyError(op)


# ------------------------------------------------------------------------------------------------ generators
def _rb(rng, n):
    return [rng.randrange(256) for _ in range(n)]


def _pattern(rng, n):
    kind = rng.randrange(8)
    if kind == 0:
        return [0] * n
    if kind == 1:
        return [255] * n
    if kind == 2 and n:
        x = [0] * n
        x[rng.randrange(n)] = 1 << rng.randrange(8)
        return x
    if kind == 3:
        v = rng.randrange(256)
        return [v] * n
    return _rb(rng, n)


def _key_pool(rng):
    """a few keys, some of which share a prefix / a suffix / differ in one byte (what a cache key could confuse)"""
    base = _rb(rng, 32)
    pool = [base[:16], base[:24], base[:32], base[16:32], base[8:32]]
    other = list(base)
    other[rng.randrange(32)] ^= 1 << rng.randrange(8)
    pool += [other[:32], other[:16], base[:16] + _rb(rng, 8), _rb(rng, 16) + base[16:24]]
    pool += [_rb(rng, rng.choice((16, 24, 32))) for _ in range(rng.randint(0, 4))]
    rng.shuffle(pool)
    return pool[: rng.randint(3, len(pool))]


def _valid_cases(ctx):
    rng = ctx.rng
    cases = []
    for kind, enc, key, iv, data, _exp, _nm in _kats():
        if kind == "ecb":
            cases.append(("kat", {"op": "c20.ecb", "enc": enc, "key": list(key), "data": list(data)}))
        else:
            cases.append(("kat", {"op": "c20.cbc", "enc": enc, "key": list(key), "iv": list(iv), "data": list(data)}))
    for _ in range(ctx.n(150, 8000)):
        kl = rng.choice((16, 24, 32))
        nb = rng.choice((0, 1, 1, 2, 3, 4, 8))
        key, iv, data = _pattern(rng, kl), _pattern(rng, 16), _pattern(rng, 16 * nb)
        enc = rng.random() < 0.5
        if rng.random() < 0.5:
            cases.append((f"ecb/{kl * 8}", {"op": "c20.ecb", "enc": enc, "key": key, "data": data}))
        else:
            cases.append((f"cbc/{kl * 8}", {"op": "c20.cbc", "enc": enc, "key": key, "iv": iv, "data": data}))
    for _ in range(ctx.n(60, 3000)):
        kl = rng.choice((16, 24, 32))
        cases.append((f"expand/{kl * 8}", {"op": "c20.expand", "key": _pattern(rng, kl)}))
        cases.append((f"block/{kl * 8}", {"op": "c20.block", "enc": rng.random() < 0.5, "key": _pattern(rng, kl), "block": _pattern(rng, 16)}))
    fns = ("sub_bytes", "inv_sub_bytes", "shift_rows", "inv_shift_rows", "mix_columns", "inv_mix_columns", "add_round_key")
    for fn in fns:
        for _ in range(ctx.n(40, 2000)):
            cases.append((f"round/{fn}", {"op": "c20.round", "fn": fn, "state": _pattern(rng, 16), "rk": _rb(rng, 16)}))
    # the byte-level functions on every byte: sub_bytes / inv_sub_bytes / mix / inv-mix columns with the byte in each row
    for x0 in range(0, 256, 16):
        blk = list(range(x0, x0 + 16))
        for fn in ("sub_bytes", "inv_sub_bytes"):
            cases.append((f"round/{fn}/all-bytes", {"op": "c20.round", "fn": fn, "state": blk, "rk": [0] * 16}))
    for x in range(256):
        for fn in ("mix_columns", "inv_mix_columns"):
            st = [0] * 16
            st[0], st[5], st[10], st[15] = x, x, x, x      # one basis byte per row position, in four columns
            cases.append((f"round/{fn}/all-bytes", {"op": "c20.round", "fn": fn, "state": st, "rk": [0] * 16}))
    for _ in range(ctx.n(20, 400)):
        cases.append(("round/word", {"op": "c20.round", "fn": rng.choice(("rot_word", "sub_word")), "state": _rb(rng, 4), "rk": []}))
    for n in range(1, ctx.n(34, 70)):
        for k in (1, 2, 5):
            m = _padlike(rng, n, k)
            cases.append(("pad/padlike-tail", {"op": "c20.pad", "unpad": False, "data": m, "bs": 16}))
            cases.append(("unpad/padlike-tail", {"op": "c20.pad", "unpad": True, "data": list(ref_pad(bytes(m))), "bs": 16}))
    for n in range(0, ctx.n(40, 130)):
        cases.append(("pad", {"op": "c20.pad", "unpad": False, "data": _pattern(rng, n), "bs": 16}))
        padded = ref_pad(bytes(_pattern(rng, n)))
        cases.append(("unpad/valid", {"op": "c20.pad", "unpad": True, "data": list(padded), "bs": 16}))
        cases.append(("chunks", {"op": "c20.chunks", "data": _rb(rng, n), "size": 16}))
    # GF helpers: every byte times each table constant (+ random pairs), table builders
    for c in (2, 3, 9, 11, 13, 14):
        for a in range(256):
            cases.append(("gf", {"op": "c20.gf", "a": a, "b": c}))
    for _ in range(ctx.n(200, 20000)):
        cases.append(("gf/random", {"op": "c20.gf", "a": rng.randrange(256), "b": rng.randrange(256)}))
    for c in (2, 3, 9, 11, 13, 14, 1, 0):
        cases.append(("build", {"op": "c20.build", "m": c, "n": 14}))
    cases.append(("build", {"op": "c20.build", "m": 27, "n": 20}))
    # cache histories: few distinct keys so that hits, moves and evictions happen; some invalid keys
    for _ in range(ctx.n(8, 200)):
        pool = _key_pool(rng) + [_rb(rng, rng.choice((0, 5, 17, 33)))]
        cases.append(("cache", {"op": "c20.cache", "keys": [rng.choice(pool) for _ in range(rng.randint(1, 14))]}))
    return cases


def _malformed_cases(ctx):
    rng = ctx.rng
    cases = []
    bad_k = [n for n in range(0, 41) if n not in (16, 24, 32)] + [48, 64]
    for _ in range(ctx.n(120, 5000)):
        kl = rng.choice(bad_k) if rng.random() < 0.6 else rng.choice((16, 24, 32))
        ivl = rng.choice((0, 1, 15, 17, 32)) if rng.random() < 0.4 else 16
        dl = rng.choice((1, 5, 15, 17, 31, 33, 47)) if rng.random() < 0.5 else 16 * rng.randrange(0, 3)
        key, iv, data = _rb(rng, kl), _rb(rng, ivl), _rb(rng, dl)
        enc = rng.random() < 0.5
        r = rng.random()
        if r < 0.4:
            cases.append(("bad/ecb", {"op": "c20.ecb", "enc": enc, "key": key, "data": data}))
        elif r < 0.8:
            cases.append(("bad/cbc", {"op": "c20.cbc", "enc": enc, "key": key, "iv": iv, "data": data}))
        elif r < 0.9:
            cases.append(("bad/expand", {"op": "c20.expand", "key": key}))
        else:
            cases.append(("bad/block", {"op": "c20.block", "enc": enc, "key": _rb(rng, rng.choice((16, 24, 32))), "block": _rb(rng, rng.choice((0, 1, 15, 17, 32)))}))
    # PKCS#7 corner cases
    for _ in range(ctx.n(80, 2000)):
        n = rng.choice((1, 2, 15, 16, 17, 31, 32, 48))
        d = _rb(rng, n)
        k = rng.random()
        if k < 0.3:
            d[-1] = 0
        elif k < 0.5:
            d[-1] = rng.randrange(17, 256)
        elif k < 0.8:
            p = rng.randint(1, 16)
            d = d[: max(0, n - p)] + [p] * min(p, n)
            if rng.random() < 0.5 and len(d) >= 2 and p >= 2:
                d[-rng.randint(2, min(p, len(d)))] ^= 1 << rng.randrange(8)
        cases.append(("unpad/crafted", {"op": "c20.pad", "unpad": True, "data": d, "bs": 16}))
    cases.append(("unpad/crafted", {"op": "c20.pad", "unpad": True, "data": [], "bs": 16}))
    cases.append(("unpad/crafted", {"op": "c20.pad", "unpad": True, "data": [3, 3, 3], "bs": 16}))
    cases.append(("unpad/crafted", {"op": "c20.pad", "unpad": True, "data": [5, 5], "bs": 16}))
    return cases


def _padlike(rng, n, k):
    """a message of length n whose last k bytes equal the PKCS#7 pad byte its padding will use (16 - n % 16):
    unpadding must remove exactly the padding, not every trailing byte that looks like it"""
    pb = 16 - n % 16
    k = min(k, n)
    return _rb(rng, n - k) + [pb] * k


def _wrapper_cases(ctx, broken):
    """CryptAES: encrypt on the real class (it draws the IV), the model gets the same IV; decrypt of the result,
    of tampered results and of arbitrary strings on both sides."""
    rng = ctx.rng
    cls = _crypt_cls()
    if cls is None:
        ctx.notes.append("patch_pypdf_fallback_aes() returned False (a crypto library is installed): CryptAES wrapper not the live path, wrapper correspondence skipped")
        return [], []
    if cls == "MISMATCH":
        broken.append(Broken("correspondence", "c20.patch", "after patch_pypdf_fallback_aes() pypdf's modules do not all point at the library's AES functions / CryptAES"))
        return [], []
    reqs, impls = [], []
    # the IV of every encryption is one draw of secrets.token_bytes(16) made BY THAT CALL: the module's `secrets` is
    # observed (counting draws, handing out recognisable values) for a few calls; the model takes the IV as a parameter
    import types
    A = importlib.import_module("sharepoint2text.parsing.extractors.pdf._pypdf_aes_fallback")
    real_secrets = A.secrets
    draws = []

    def _tb(n=None):
        v = bytes([0xD0 + (len(draws) % 16)] * 15 + [len(draws) % 256])[: (16 if n is None else n)]
        draws.append(v)
        return v
    A.secrets = types.SimpleNamespace(token_bytes=_tb)
    try:
        for j in range(4):
            key = bytes(_rb(rng, rng.choice((16, 24, 32))))
            before = len(draws)
            try:
                e = cls(key).encrypt(b"iv-draw-%d" % j)
            except Exception as ex:  # noqa: BLE001
                broken.append(Broken("correspondence", "c20.crypt.iv-draw", f"encrypt raised {type(ex).__name__} under the observed secrets module"))
                break
            ctx.case(("c20.iv-draw", j))
            ctx.count("crypt/iv-draw")
            if len(draws) != before + 1 or bytes(e[:16]) != draws[-1]:
                broken.append(Broken("correspondence", "c20.crypt.iv-draw",
                                     f"encryption {j}: {len(draws) - before} draws of secrets.token_bytes during the call, prepended IV "
                                     f"{_hx(e[:16])}, last draw {_hx(draws[-1]) if draws else None} (model: the IV is the one draw of this call)",
                                     case={"op": "c20.crypt", "enc": True, "key": list(key), "iv": list(e[:16]), "data": list(b"iv-draw")}))
                break
    finally:
        A.secrets = real_secrets
    seen_ivs = {}
    lens = list(range(0, ctx.n(65, 201))) + [rng.randrange(200, 600) for _ in range(ctx.n(3, 40))]
    msgs = [bytes(_pattern(rng, n)) for n in lens] + [bytes(_padlike(rng, n, k)) for n in range(1, ctx.n(34, 70)) for k in (1, 3)]
    for m in msgs:
        n = len(m)
        kl = rng.choice((16, 24, 32))
        key = bytes(_rb(rng, kl))
        try:
            e = cls(key).encrypt(m)
            eo = {"ok": list(e)}
        except Exception as ex:  # noqa: BLE001
            eo, e = {"err": type(ex).__name__}, None
        iv = list(e[:16]) if e is not None else [0] * 16
        if e is not None:
            if bytes(e[:16]) in seen_ivs and not any(b.name == "c20.crypt.iv-repeat" for b in broken):
                broken.append(Broken("correspondence", "c20.crypt.iv-repeat",
                                     f"encryptions {seen_ivs[bytes(e[:16])]} and {len(seen_ivs)} of this run prepend the same IV {_hx(e[:16])}",
                                     case={"op": "c20.crypt", "enc": True, "key": list(key), "iv": iv, "data": list(m)}))
            seen_ivs.setdefault(bytes(e[:16]), len(seen_ivs))
        reqs.append({"op": "c20.crypt", "enc": True, "key": list(key), "iv": iv, "data": list(m)})
        impls.append((f"crypt/encrypt", eo))
        if e is not None:
            variants = [bytes(e)]
            t = bytearray(e)
            t[rng.randrange(len(t))] ^= 1 << rng.randrange(8)
            variants.append(bytes(t))
            variants.append(bytes(e[: rng.randrange(0, len(e) + 1)]))
            for v in variants:
                rq = {"op": "c20.crypt", "enc": False, "key": list(key), "data": list(v)}
                reqs.append(rq)
                impls.append(("crypt/decrypt" if v == e else "crypt/decrypt-tampered", _impl(rq)))
    for _ in range(ctx.n(60, 3000)):
        kl = rng.choice((16, 24, 32)) if rng.random() < 0.85 else rng.choice((0, 8, 17, 31))
        rq = {"op": "c20.crypt", "enc": False, "key": _rb(rng, kl), "data": _rb(rng, rng.randrange(0, 90))}
        reqs.append(rq)
        impls.append(("crypt/decrypt-garbage", _impl(rq)))
    # wrong key length on encrypt
    for kl in (0, 15, 17, 33):
        key = bytes(_rb(rng, kl))
        try:
            e = cls(key).encrypt(b"abc")
            eo = {"ok": list(e)}
        except Exception as ex:  # noqa: BLE001
            eo = {"err": type(ex).__name__}
        reqs.append({"op": "c20.crypt", "enc": True, "key": list(key), "iv": [0] * 16, "data": [97, 98, 99]})
        impls.append(("crypt/encrypt-badkey", eo))
    return reqs, impls


def correspondence(ctx):
    broken, violations = [], []
    cases = _valid_cases(ctx) + _malformed_cases(ctx)
    reqs = [c for _, c in cases]
    impls = [(g, _impl(c)) for g, c in cases]
    wr, wi = _wrapper_cases(ctx, broken)
    reqs += wr
    impls += wi
    outs = ctx.drive(reqs)
    mism = 0
    for rq, (group, im), mo in zip(reqs, impls, outs):
        nontrivial = not (rq["op"] in ("c20.ecb", "c20.cbc") and "ok" in im and not im["ok"] and not rq.get("data"))
        ctx.case((rq["op"], repr(sorted(rq.items()))), nontrivial=nontrivial)
        tag = "ok" if ("ok" in im or "calls" in im or "mul" in im) else "err:" + str(im.get("err"))
        ctx.count(f"{group}/{tag}")
        if "drv_error" in mo:
            broken.append(Broken("correspondence", "driver", mo["drv_error"], case=rq))
            continue
        if mo != im:
            mism += 1
            if mism <= 12:
                broken.append(Broken("correspondence", rq["op"] + ("." + rq["fn"] if "fn" in rq else ""),
                                     f"impl={_short(im)} model={_short(mo)}", case=rq))
    for i in (0, len(reqs) // 3, len(reqs) - 1):
        ctx.sample({"request": _short(reqs[i]), "impl": _short(impls[i][1]), "model": _short(outs[i])})
    ctx.coverage["mismatches"] = mism
    from props import c20_threads
    c20_threads.correspondence(ctx, broken)
    return {"broken": broken, "violations": violations}


def _short(o, n=200):
    s = repr(o)
    return s if len(s) <= n else s[:n] + "…"


# ------------------------------------------------------------------------------------------------ oracle of the property
def _hx(b):
    return bytes(b).hex()


def _histories(key: bytes):
    """call histories (derived from the key, so a replay reproduces them) under which the answer for `key` must be
    the same: nothing cached; keys sharing a prefix / suffix / all but one byte with `key` cached first; `key`
    itself cached, then pushed around by those"""
    sib = []
    if key:
        dbl = key * (32 // len(key) + 1)
        for n in (16, 24, 32):
            sib += [key[:n], dbl[:n], dbl[-n:]]
        sib += [key[:-1] + bytes([key[-1] ^ 1]), bytes([key[0] ^ 0x80]) + key[1:]]
    out = []
    for k in sib:
        if len(k) in (16, 24, 32) and k != key and k not in out:
            out.append(k)
    if not out:
        return [[]]
    return [[], out, [key] + out, out[:2] + [key] + out[2:5]]


def _check_one(kind, key: bytes, iv: bytes, data: bytes):
    """None if the property holds on this input, else (violation key, message). Real code vs. the statement,
    under each of the call histories of `_histories(key)` (the round-key cache is module state)."""
    A = _A()
    cache = getattr(A, "_ROUND_KEY_CACHE", None)
    if kind in ("ecb", "cbc") and cache is not None and hasattr(cache, "clear"):
        res = None
        for h in _histories(key):
            cache.clear()
            for k in h:
                try:
                    A.aes_ecb_encrypt(k, bytes(16))
                except Exception:  # noqa: BLE001 - only priming
                    pass
            res = _check_one_nohist(kind, key, iv, data)
            if res is not None:
                if h:
                    res = (res[0], res[1] + f" — after first using the keys {[_hx(k) for k in h]} (fresh process otherwise)")
                break
        cache.clear()
        return res
    return _check_one_nohist(kind, key, iv, data)


def _check_one_nohist(kind, key: bytes, iv: bytes, data: bytes):
    A = _A()
    good_key = len(key) in (16, 24, 32)
    if kind in ("ecb", "cbc"):
        aligned = len(data) % 16 == 0
        good = good_key and aligned and (kind == "ecb" or len(iv) == 16)
        for enc in (True, False):
            if kind == "ecb":
                f, args = (A.aes_ecb_encrypt if enc else A.aes_ecb_decrypt), (key, data)
                want = ref_ecb(enc, key, data) if good else None
            else:
                f, args = (A.aes_cbc_encrypt if enc else A.aes_cbc_decrypt), (key, iv, data)
                want = ref_cbc(enc, key, iv, data) if good else None
            nm = f"aes_{kind}_{'encrypt' if enc else 'decrypt'}"
            try:
                got = f(*args)
            except ValueError:
                if good:
                    return (f"{kind}.rejects-valid", f"{nm} raised ValueError on key={len(key)}B iv={len(iv)}B data={len(data)}B")
                continue
            except Exception as e:  # noqa: BLE001
                return (f"{kind}.raises-{type(e).__name__}", f"{nm}(key={_hx(key)}, data={_hx(data)[:64]}…) raised {type(e).__name__}: {e}")
            if not good:
                return (f"{kind}.accepts-wrong-length", f"{nm} accepted key of {len(key)} bytes, iv of {len(iv)} bytes, data of {len(data)} bytes (no ValueError)")
            if bytes(got) != want:
                j = next(i for i in range(max(len(want), len(got))) if i >= len(got) or i >= len(want) or got[i] != want[i])
                return (f"{kind}.differs-from-fips197",
                        f"{nm}(key={_hx(key)}, iv={_hx(iv)}, data={_hx(data)}) = {_hx(got)} but FIPS-197/SP 800-38A gives {_hx(want)} (first difference at byte {j})")
        if good:
            try:
                if kind == "ecb":
                    rt = A.aes_ecb_decrypt(key, A.aes_ecb_encrypt(key, data))
                else:
                    rt = A.aes_cbc_decrypt(key, iv, A.aes_cbc_encrypt(key, iv, data))
            except Exception as e:  # noqa: BLE001
                return (f"{kind}.roundtrip-raises", f"decrypt(encrypt(m)) raised {type(e).__name__} for key={_hx(key)} data={_hx(data)}")
            if bytes(rt) != data:
                return (f"{kind}.not-inverse", f"aes_{kind}_decrypt(aes_{kind}_encrypt(m)) != m for key={_hx(key)} iv={_hx(iv)} m={_hx(data)}")
        return None
    if kind == "wrapper":
        cls = _crypt_cls()
        if cls is None or cls == "MISMATCH":
            return None if cls is None else ("wrapper.patch", "pypdf modules do not all point at the library's AES after patch_pypdf_fallback_aes()")
        try:
            c = cls(key)
            e1, e2 = c.encrypt(data), c.encrypt(data)
        except ValueError:
            return None if not good_key else ("wrapper.rejects-valid", f"CryptAES.encrypt raised ValueError for a {len(key)}-byte key, {len(data)}-byte message")
        except Exception as e:  # noqa: BLE001
            return (f"wrapper.raises-{type(e).__name__}", f"CryptAES({_hx(key)}).encrypt({_hx(data)}) raised {type(e).__name__}: {e}")
        if not good_key:
            return ("wrapper.accepts-wrong-length", f"CryptAES.encrypt accepted a key of {len(key)} bytes")
        want_len = 16 + 16 * (len(data) // 16 + 1)
        if len(e1) != want_len:
            return ("wrapper.length", f"CryptAES.encrypt of a {len(data)}-byte message gives {len(e1)} bytes, expected IV + padded = {want_len}")
        if e1[:16] == e2[:16]:
            return ("wrapper.iv-not-fresh", f"two CryptAES.encrypt calls used the same IV {_hx(e1[:16])}")
        want = ref_cbc(True, key, bytes(e1[:16]), ref_pad(data))
        if bytes(e1[16:]) != want:
            return ("wrapper.differs-from-fips197", f"CryptAES({_hx(key)}).encrypt({_hx(data)}) = IV {_hx(e1[:16])} ‖ {_hx(e1[16:])}, but CBC(IV, PKCS#7(m)) is {_hx(want)}")
        for e in (e1, e2):
            try:
                d = c.decrypt(e)
            except Exception as ex:  # noqa: BLE001
                return ("wrapper.decrypt-raises", f"CryptAES({_hx(key)}).decrypt(encrypt(m)) raised {type(ex).__name__}: {ex} for m={_hx(data)} (len {len(data)}), ciphertext={_hx(e)}")
            if bytes(d) != data:
                return ("wrapper.not-inverse", f"CryptAES({_hx(key)}).decrypt(encrypt(m)) = {_hx(d)} != m = {_hx(data)} (len {len(data)}), ciphertext={_hx(e)}")
        # decryption of an independently produced ciphertext (reference encryptor)
        ivr = bytes((x * 7 + 3) & 0xFF for x in range(16))
        try:
            d = c.decrypt(ivr + ref_cbc(True, key, ivr, ref_pad(data)))
        except Exception as ex:  # noqa: BLE001
            return ("wrapper.decrypt-raises", f"CryptAES({_hx(key)}).decrypt(IV ‖ CBC(IV, PKCS#7(m))) raised {type(ex).__name__} for m={_hx(data)}")
        if bytes(d) != data:
            return ("wrapper.decrypt-differs", f"CryptAES({_hx(key)}).decrypt(IV ‖ CBC(IV, PKCS#7(m))) = {_hx(d)} != m = {_hx(data)}")
        return None
    raise KeyError(kind)


def _viol(kind, key, iv, data, res):
    k, msg = res
    return Violation(k, msg, {"kind": kind, "key": _hx(key), "iv": _hx(iv), "data": _hx(data)})


def _table_targets():
    """inputs aimed at table entries that differ from FIPS-197 (finds a one-entry slip with certainty)"""
    A = _A()
    R = _ref_tables()
    out = []
    key = bytes(range(16))
    try:
        w, nr = _ref_keyexp(key)
        rk0 = [b for word in w[0:4] for b in word]
        rkn = [b for word in w[4 * nr:4 * nr + 4] for b in word]
        for x in range(256):
            if A._SBOX[x] != R["sb"][x]:
                out.append(("ecb", key, b"", bytes([x ^ rk0[0]] + [rk0[i] ^ 0x52 for i in range(1, 16)])))
            if A._INV_SBOX[x] != R["isb"][x]:
                out.append(("ecb", key, b"", bytes([x ^ rkn[0]] + [rkn[i] ^ 0x63 for i in range(1, 16)])))
        sb, isb = R["sb"], R["isb"]
        for c, nm in ((2, "_MUL2"), (3, "_MUL3")):
            for x in range(256):
                if getattr(A, nm)[x] != R["mul"][c][x]:
                    # byte x enters MixColumns of round 1 at position 0: state after SubBytes/ShiftRows has sbox(in0 ^ rk0[0]) at 0
                    out.append(("ecb", key, b"", bytes([isb[x] ^ rk0[0]] + [rk0[i] for i in range(1, 16)])))
        for c, nm in ((9, "_MUL9"), (11, "_MUL11"), (13, "_MUL13"), (14, "_MUL14")):
            for x in range(256):
                if getattr(A, nm)[x] != R["mul"][c][x]:
                    # decrypt: first InvMixColumns input at position 0 is isb(ct0 ^ rkn[0]) ^ rk_{nr-1}[0]
                    rkp = [b for word in w[4 * (nr - 1):4 * nr] for b in word]
                    out.append(("ecb", key, b"", bytes([sb[x ^ rkp[0]] ^ rkn[0]] + [rkn[i] for i in range(1, 16)])))
    except Exception:  # noqa: BLE001 - tables of unexpected shape: the random search below still runs
        pass
    return out


def _oracle(ctx, seeds, budget):
    """Violations of the statement on the real code: seeds first, then known answers, aimed inputs, every wrapper
    length 0..64, wrong lengths, random triples."""
    rng = ctx.rng
    found = {}

    def run(kind, key, iv, data):
        try:
            res = _check_one(kind, key, iv, data)
        except Exception as e:  # noqa: BLE001 - an oracle crash must not hide a violation
            ctx.notes.append(f"oracle crashed on {kind}: {e!r}")
            return
        if res and res[0] not in found:
            found[res[0]] = _viol(kind, key, iv, data, res)

    for s in seeds:
        run(*s)
    for kind, enc, key, iv, data, exp, nm in _kats():
        A = _A()
        try:
            if kind == "ecb":
                got = (A.aes_ecb_encrypt if enc else A.aes_ecb_decrypt)(key, data)
            else:
                got = (A.aes_cbc_encrypt if enc else A.aes_cbc_decrypt)(key, iv, data)
        except Exception as e:  # noqa: BLE001
            got = f"raised {type(e).__name__}".encode()
        if bytes(got) != exp and "kat" not in found:
            found["kat"] = Violation(f"{kind}.known-answer", f"{nm}: got {_hx(got)}, standard says {_hx(exp)}",
                                     {"kind": kind, "key": _hx(key), "iv": _hx(iv), "data": _hx(data)})
    for t in _table_targets():
        run(*t)
    for n in range(0, 65):
        run("wrapper", bytes(_rb(rng, rng.choice((16, 24, 32)))), b"", bytes(_rb(rng, n)))
        for k in (1, 2, 4):
            if n:
                run("wrapper", bytes(_rb(rng, rng.choice((16, 24, 32)))), b"", bytes(_padlike(rng, n, k)))
    for kl in list(range(0, 41)) + [48, 64]:
        run("ecb", bytes(_rb(rng, kl)), b"", bytes(_rb(rng, 16 * rng.randrange(0, 3))))
        run("cbc", bytes(_rb(rng, kl)), bytes(_rb(rng, 16)), bytes(_rb(rng, 16 * rng.randrange(0, 3))))
        if kl not in (16, 24, 32):
            run("wrapper", bytes(_rb(rng, kl)), b"", b"abc")
    for dl in (1, 15, 17, 31, 33):
        run("ecb", bytes(_rb(rng, 16)), b"", bytes(_rb(rng, dl)))
        run("cbc", bytes(_rb(rng, 24)), bytes(_rb(rng, 16)), bytes(_rb(rng, dl)))
    for il in (0, 1, 15, 17, 32):
        run("cbc", bytes(_rb(rng, 32)), bytes(_rb(rng, il)), bytes(_rb(rng, 32)))
    for _ in range(budget):
        kl = rng.choice((16, 24, 32))
        nb = rng.choice((1, 1, 2, 3, 5))
        run(rng.choice(("ecb", "cbc")), bytes(_pattern(rng, kl)), bytes(_pattern(rng, 16)), bytes(_pattern(rng, 16 * nb)))
    return list(found.values())


def _seeds_from(broken):
    seeds = []
    for b in broken:
        c = b.case if isinstance(b.case, dict) else None
        if not c or "op" not in c:
            continue
        try:
            if c["op"] == "c20.ecb":
                seeds.append(("ecb", bytes(c["key"]), b"", bytes(c["data"])))
            elif c["op"] == "c20.cbc":
                seeds.append(("cbc", bytes(c["key"]), bytes(c["iv"]), bytes(c["data"])))
            elif c["op"] == "c20.crypt":
                if c.get("enc"):
                    seeds.append(("wrapper", bytes(c["key"]), b"", bytes(c["data"])))
                else:
                    seeds.append(("wrapper", bytes(c["key"]), b"", bytes(c["data"])[16:48]))
            elif c["op"] == "c20.block":
                seeds.append(("ecb", bytes(c["key"]), b"", bytes(c["block"])))
            elif c["op"] == "c20.expand":
                seeds.append(("ecb", bytes(c["key"]), b"", bytes(16)))
            elif c["op"] == "c20.round":
                seeds.append(("ecb", bytes(range(16)), b"", bytes(c["state"])))
                seeds.append(("ecb", bytes(range(32)), b"", bytes(c["state"])))
            elif c["op"] == "c20.pad":
                seeds.append(("wrapper", bytes(range(16)), b"", bytes(c["data"])))
            elif c["op"] == "c20.cache":
                for k in c["keys"]:
                    seeds.append(("ecb", bytes(k), b"", bytes(range(16))))
        except Exception:  # noqa: BLE001
            continue
    return seeds


def search(ctx, broken):
    vs = _oracle(ctx, _seeds_from(broken), ctx.n(1500, 20000))
    if not vs:
        vs = _cache_history_search(ctx, broken)
    if not vs:
        from props import c20_threads
        vs = c20_threads.search(ctx, broken)
    return vs


def _cache_history_search(ctx, broken, n_random=None):
    """history-dependent failures: the same calls in the order of a broken cache case / random orders"""
    A = _A()
    rng = ctx.rng
    hist = [b.case["keys"] for b in broken if isinstance(b.case, dict) and b.case.get("op") == "c20.cache"]
    for _ in range(ctx.n(100, 2000) if n_random is None else n_random):
        pool = _key_pool(rng)
        hist.append([rng.choice(pool) for _ in range(rng.randint(2, 14))])
    for keys in hist:
        A._ROUND_KEY_CACHE.clear()
        blk = bytes(range(16))
        try:
            for k in keys:
                k = bytes(k)
                if len(k) not in (16, 24, 32):
                    try:
                        A.aes_ecb_encrypt(k, blk)
                        return [Violation("ecb.accepts-wrong-length", f"after history of {len(keys)} calls aes_ecb_encrypt accepted a {len(k)}-byte key",
                                          {"kind": "history", "keys": [_hx(x) for x in keys]})]
                    except ValueError:
                        continue
                got = A.aes_ecb_encrypt(k, blk)
                if bytes(got) != ref_enc(k, blk):
                    return [Violation("ecb.history-dependent", f"after the call history {[_hx(x)[:8] for x in keys]} aes_ecb_encrypt(key={_hx(k)}, {_hx(blk)}) = {_hx(got)} but FIPS-197 gives {_hx(ref_enc(k, blk))}",
                                      {"kind": "history", "keys": [_hx(x) for x in keys]})]
        except Exception as e:  # noqa: BLE001
            return [Violation("ecb.history-raises", f"call history {[_hx(x)[:8] for x in keys]} raised {type(e).__name__}: {e}",
                              {"kind": "history", "keys": [_hx(x) for x in keys]})]
        finally:
            A._ROUND_KEY_CACHE.clear()
    return []


def replay(ctx, payload):
    rep = payload.get("replay", {})
    if rep.get("kind") == "sched":
        from props import c20_threads
        return c20_threads.replay(ctx, payload)
    if rep.get("kind") == "history":
        b = Broken("correspondence", "c20.cache", "", case={"op": "c20.cache", "keys": [list(bytes.fromhex(k)) for k in rep["keys"]]})
        vs = _cache_history_search(ctx, [b], n_random=0)
        return (not vs), "; ".join(v.what for v in vs) or "property holds on the recorded call history"
    if "kind" not in rep:
        return False, "replay names a broken obligation, not an input: " + payload.get("what", "")
    key, iv, data = bytes.fromhex(rep["key"]), bytes.fromhex(rep["iv"]), bytes.fromhex(rep["data"])
    res = _check_one(rep["kind"], key, iv, data)
    if res is None:
        return True, "property holds on the recorded input"
    return False, res[1]
