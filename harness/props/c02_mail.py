"""C02 (part 'mail') — main-text fidelity of e-mail bodies (.mbox through the stdlib path, .eml through mailparser).

The visible body text of a mail is the text/plain body (README: "Returns body_plain when present, else body_html").
What a producer records NEXT to that text - the Content-Type parameters (charset, format=flowed|fixed, delsp=yes|no,
reply-type, unknown ones; any letter case, quoted or not, any order, folded header lines), the transfer encoding, the
MIME nesting, a Content-Disposition: inline, signature separator, space-stuffing, soft-wrapped lines (a line that ends
in blanks) - is not text and does not change which words the source separates.

Abstract mailbox = container + messages; a message = MIME shape, Content-Type parameter list with its spelling,
transfer encoding, charset, body LINES (prefix blanks, words, trailing blanks), optional HTML alternative and text
attachment carrying excluded-class tokens.  The body text is written by the Lean writer `S2T.C02.Mail.renderBody`
(the one the theorems of Props/C02_Mail.lean are about; compared with the Python writer here on every message); the
model full text is `strip` of it, for EVERY header dressing (Props/C02_Mail.lean: the model reads no parameter but the
charset, and `gen_body_reads` re-decides from the CURRENT source which headers / parameters the body path reads).

Oracle (every message of every run, the search, the replays) - the property statement on the real code, independent of
the model: get_full_text().split() of each extracted message == the words of its body lines, in order; no token of the
HTML alternative or of an attachment.  Soft line breaks are only generated at word boundaries and with the blanks RFC
3676 prescribes for the declared DelSp, so the words are the same for a reader that ignores format=flowed and for one
that implements it correctly.
"""
from __future__ import annotations

import base64
import io
import json
import quopri
import re

from run import Broken, Violation

GEN = ["C02Mail", "Ooxml"]
RULE = ("mailboxes = mbox of 1..3 messages / one .eml; message = shape (single, alternative, mixed, nested, html-first "
        "alternative) x Content-Type parameters drawn from {format=flowed|fixed, delsp=yes|no, reply-type, x-unknown} in "
        "any order, letter case, quoted or bare, header folded or not x transfer encoding 7bit/8bit/quoted-printable/"
        "base64 x charset us-ascii/utf-8/iso-8859-1 x body of 1..4 paragraphs of 1..4 lines of 1..5 unique tokens, soft-"
        "wrapped lines ending in the blanks RFC 3676 prescribes for the declared DelSp (fixed bodies: trailing blanks or "
        "none), space-stuffed lines, signature separator, optional HTML alternative / text attachment with excluded-class "
        "tokens.  distinct = distinct abstract mailboxes; non-trivial = a body with at least two lines")
ASSUMPTIONS = [
    "stdlib email (parser, transfer decoding, parameter parsing) and mailparser deliver the decoded payload of the "
    "text/plain part: parameters of the model; their result is judged by the oracle on every message",
    "an mbox stores From_-quoted messages: no generated body line starts with 'From ' unless it is space-stuffed",
]
TRUSTED = ["S2T/Model/C02Mail.lean renderBody (used by the theorems and, through the driver, by this correspondence; compared "
           "with the Python writer on every message)"]
PART = "c02_mail"
EXCL_RE = re.compile(r"[ha]\d+q")

PARAM_VOCAB = [("format", ["flowed", "fixed"]), ("delsp", ["yes", "no"]), ("reply-type", ["original", "response"]),
               ("x-unknown", ["1", "flowed"])]
SHAPES = ["single", "single", "alternative", "mixed", "nested", "html-first"]
CTES = ["7bit", "8bit", "quoted-printable", "base64"]
CHARSETS = ["us-ascii", "utf-8", "iso-8859-1"]


def _quiet():
    import logging
    logging.disable(logging.CRITICAL)


# ----------------------------------------------------------------------------- generation
class Gen:
    def __init__(self, rng):
        self.rng = rng
        self.n = 0

    def tok(self, cls="m", charset="us-ascii"):
        self.n += 1
        t = f"{cls}{self.n}q"
        r = self.rng.random()
        if charset != "us-ascii" and r < 0.25:
            t += "é"
        elif charset == "utf-8" and r < 0.35:
            t += "東"
        return t

    def params(self):
        rng = self.rng
        out = []
        r = rng.random()
        names = []
        if r < 0.55:
            names.append(("format", "flowed"))
            x = rng.random()
            if x < 0.4:
                names.append(("delsp", "no"))
            elif x < 0.7:
                names.append(("delsp", "yes"))
        elif r < 0.7:
            names.append(("format", "fixed"))
            if rng.random() < 0.3:
                names.append(("delsp", rng.choice(["yes", "no"])))
        elif r < 0.8:
            names.append(("delsp", rng.choice(["yes", "no"])))  # meaningless without format=flowed
        if rng.random() < 0.25:
            names.append(("reply-type", rng.choice(["original", "response"])))
        if rng.random() < 0.15:
            names.append(("x-unknown", rng.choice(["1", "flowed"])))
        for k, v in names:
            style = rng.choice(["plain", "plain", "quoted", "upper", "title"])
            out.append([k, v, style])
        rng.shuffle(out)
        return out

    def msg(self, container):
        rng = self.rng
        charset = rng.choice(CHARSETS)
        cte = rng.choice(CTES if charset != "us-ascii" else CTES)
        if charset != "us-ascii" and cte == "7bit":
            cte = rng.choice(["8bit", "quoted-printable", "base64"])
        params = self.params()
        flowed = any(k == "format" and v == "flowed" for k, v, _ in params)
        delsp = any(k == "delsp" and v == "yes" for k, v, _ in params)
        lines = []
        for pi in range(rng.randint(1, 4)):
            nl = rng.randint(1, 4)
            for li in range(nl):
                words = [self.tok("m", charset) for _ in range(rng.randint(1, 5))]
                last = li == nl - 1
                pre = ""
                if flowed:
                    trail = "" if last else ("  " if delsp else " ")
                    if rng.random() < 0.12:
                        words[0] = rng.choice(["From", ">" + words[0]]) if rng.random() < 0.5 else words[0]
                        pre = " "  # space-stuffed
                    elif rng.random() < 0.08:
                        pre = " "
                else:
                    trail = rng.choice(["", "", "", " ", "  "])
                    if rng.random() < 0.06:
                        pre = rng.choice([" ", "\t", "  "])
                lines.append({"pre": pre, "words": words, "trail": trail})
            if pi < 3 and rng.random() < 0.8:
                lines.append({"pre": "", "words": [], "trail": ""})  # blank line between paragraphs
        if rng.random() < 0.2:
            lines.append({"pre": "", "words": ["--"], "trail": " "})
            lines.append({"pre": "", "words": [self.tok("m", charset)], "trail": ""})
        while lines and not lines[-1]["words"]:
            lines.pop()
        shape = rng.choice(SHAPES)
        m = {"shape": shape, "params": params, "cte": cte, "charset": charset, "lines": lines,
             "fold": rng.random() < 0.3, "inline": rng.random() < 0.2, "crlf": rng.random() < 0.25}
        if shape in ("alternative", "nested", "html-first"):
            m["html"] = [self.tok("h"), self.tok("h")]
        if shape in ("mixed", "nested"):
            m["att"] = [self.tok("a"), self.tok("a")]
        return m

    def box(self):
        container = "mbox" if self.rng.random() < 0.7 else "eml"
        n = self.rng.randint(1, 3) if container == "mbox" else 1
        return {"container": container, "msgs": [self.msg(container) for _ in range(n)]}


# ----------------------------------------------------------------------------- writer (what a mail client writes)
def stored_nl(m) -> str:
    """the line break of the body as the message is stored (base64 content is not touched by the CRLF conversion)"""
    return "\r\n" if m.get("crlf") and m["cte"] != "base64" else "\n"


def body_text(m, nl="\n") -> str:
    return nl.join(l["pre"] + " ".join(l["words"]) + l["trail"] for l in m["lines"])


def expected_words(m):
    return [w for l in m["lines"] for w in l["words"]]


def _spell(k, v, style):
    if style == "quoted":
        return f'{k}="{v}"'
    if style == "upper":
        return f"{k.upper()}={v.upper()}"
    if style == "title":
        return f"{k.title()}={v.title()}"
    return f"{k}={v}"


def _encode(text: str, charset: str, cte: str) -> str:
    raw = text.encode(charset)
    if cte == "base64":
        return base64.encodebytes(raw).decode("ascii")
    if cte == "quoted-printable":
        return quopri.encodestring(raw).decode("ascii")
    return raw.decode("latin-1")  # written byte for byte (the file is latin-1 encoded at the end)


def _leaf(ctype, params, charset, cte, text, fold=False, extra_headers=()):
    ps = [f'charset="{charset}"'] + [_spell(k, v, s) for k, v, s in params]
    sep = ";\n\t" if fold else "; "
    h = [f"Content-Type: {ctype}{sep}{sep.join(ps)}", f"Content-Transfer-Encoding: {cte}"] + list(extra_headers)
    body = _encode(text, charset, cte)
    return "\n".join(h) + "\n\n" + body + ("" if body.endswith("\n") else "\n")


def _multi(subtype, boundary, parts):
    out = [f'Content-Type: multipart/{subtype}; boundary="{boundary}"', "", "preamble (not text of the message)"]
    for p in parts:
        out.append("--" + boundary)
        out.append(p[:-1] if p.endswith("\n") else p)
    out.append("--" + boundary + "--")
    return "\n".join(out) + "\n"


def render_msg(m, i) -> str:
    plain = _leaf("text/plain", m["params"], m["charset"], m["cte"], body_text(m), m.get("fold"),
                  ["Content-Disposition: inline"] if m.get("inline") else [])
    html = None
    if m.get("html"):
        html = _leaf("text/html", [], "utf-8", "7bit", "<html><body><p>%s</p><p>%s</p></body></html>" % tuple(m["html"]))
    att = None
    if m.get("att"):
        att = _leaf("text/plain", [], "us-ascii", "7bit", " ".join(m["att"]), False, ['Content-Disposition: attachment; filename="notes%d.txt"' % i])
    shape = m["shape"]
    if shape == "single":
        content = plain
    elif shape == "alternative":
        content = _multi("alternative", "ALT%d" % i, [plain, html])
    elif shape == "html-first":
        content = _multi("alternative", "ALT%d" % i, [html, plain])
    elif shape == "mixed":
        content = _multi("mixed", "MIX%d" % i, [plain, att])
    else:
        content = _multi("mixed", "MIX%d" % i, [_multi("alternative", "ALT%d" % i, [plain, html]), att])
    head = [f"From: Sender {i} <sender{i}@example.com>", "To: rcpt@example.com", f"Subject: subject{i}",
            f"Date: Sat, 27 Dec 2025 1{i}:00:00 +0000", f"Message-ID: <m{i}@example.com>", "MIME-Version: 1.0"]
    return "\n".join(head) + "\n" + content


def render_box(box) -> bytes:
    out = []
    for i, m in enumerate(box["msgs"]):
        t = render_msg(m, i)
        if box["container"] == "mbox":
            t = f"From sender{i}@example.com Sat Dec 27 1{i}:00:00 2025\n" + t + "\n"
        if m.get("crlf"):
            t = t.replace("\n", "\r\n")
        out.append(t)
    return "".join(out).encode("latin-1")


# ----------------------------------------------------------------------------- real code + oracle
def real_texts(box):
    _quiet()
    data = render_box(box)
    if box["container"] == "mbox":
        from sharepoint2text.parsing.extractors.mail.mbox_email_extractor import read_mbox_format_mail as rd
        name = "x.mbox"
    else:
        from sharepoint2text.parsing.extractors.mail.eml_email_extractor import read_eml_format_mail as rd
        name = "x.eml"
    try:
        return [c.get_full_text() for c in rd(io.BytesIO(data), path=name)], None
    except Exception as e:
        return None, f"{type(e).__name__}: {e}"


def _classify(got, exp):
    from collections import Counter
    leaked = [w for w in got if EXCL_RE.search(w)]
    if leaked:
        return "leaked-excluded", f"text of the HTML alternative / an attachment in the full text: {leaked[:3]}"
    if got == exp:
        return None
    cg, ce, se = Counter(got), Counter(exp), set(exp)
    extra = [w for w in got if w not in se]
    merged = [w for w in extra if sum(1 for t in se if len(t) > 1 and t in w) >= 2]
    if merged:
        return "merged", f"words the source separates by a blank and a line break are fused: {merged[:3]} (source: {[t for t in exp if t in merged[0]][:4]})"
    lost = [w for w in ce if cg[w] < ce[w]]
    dup = [w for w in ce if cg[w] > ce[w]]
    if lost:
        return "lost", f"body text missing from the full text: {lost[:4]}"
    if dup:
        return "duplicated", f"body text more often than in the source: {dup[:4]}"
    if extra:
        return "invented", f"text that is not in the body: {extra[:4]}"
    return "reordered", f"same words in another order: got {got[:8]} expected {exp[:8]}"


def _ptxt(m):
    return ",".join(f"{k}={v}" for k, v, _ in sorted(m["params"])) or "no-parameters"


def _feat(m):
    """what the (shrunk) failing message still carries: the mechanism part of the key"""
    f = [_ptxt(m)]
    if m.get("inline"):
        f.append("disposition=inline")
    if m["shape"] != "single":
        f.append("shape=" + m["shape"])
    if any(l["words"] == ["--"] for l in m["lines"]):
        f.append("signature")
    if m["cte"] != "7bit":
        f.append("cte=" + m["cte"])
    if m.get("crlf"):
        f.append("crlf")
    if m.get("fold"):
        f.append("folded-header")
    return ",".join(f)


def oracle(box):
    texts, err = real_texts(box)
    rep = {"fmt": "mailbox", "box": box, "part": PART}
    c = box["container"]
    if err:
        return [Violation(f"mail.{c}.crash", f"{c}: the extractor raised {err}", rep)]
    if len(texts) != len(box["msgs"]):
        return [Violation(f"mail.{c}.message-count", f"{c}: {len(box['msgs'])} messages written, {len(texts)} extracted", rep)]
    out = []
    for i, (m, t) in enumerate(zip(box["msgs"], texts)):
        v = _classify(t.split(), expected_words(m))
        if v:
            out.append(Violation(f"mail.{c}.{v[0]}:{_feat(m)}",
                                 f"{c} message {i + 1} ({m['shape']}, text/plain; {_ptxt(m)}; {m['cte']}, {m['charset']}): {v[1]} — full text {t!r:.160}", rep))
            out[-1].kind = v[0]
    return out


def shrink(box, kind, budget=150):
    def fails(b):
        nonlocal budget
        budget -= 1
        try:
            return any(getattr(v, "kind", None) == kind for v in oracle(b))
        except Exception:
            return False

    best = box
    changed = True
    while changed and budget > 0:
        changed = False
        cands = []
        ms = best["msgs"]
        for i in range(len(ms)):
            if len(ms) > 1:
                cands.append(dict(best, msgs=ms[:i] + ms[i + 1:]))
            m = ms[i]

            def with_m(m2, i=i):
                return dict(best, msgs=ms[:i] + [m2] + ms[i + 1:])
            for j in range(len(m["lines"])):
                if len(m["lines"]) > 1:
                    cands.append(with_m(dict(m, lines=m["lines"][:j] + m["lines"][j + 1:])))
                l = m["lines"][j]
                if len(l["words"]) > 1:
                    cands.append(with_m(dict(m, lines=m["lines"][:j] + [dict(l, words=l["words"][:1])] + m["lines"][j + 1:])))
                    cands.append(with_m(dict(m, lines=m["lines"][:j] + [dict(l, words=l["words"][-1:])] + m["lines"][j + 1:])))
            for j in range(len(m["params"])):
                cands.append(with_m(dict(m, params=m["params"][:j] + m["params"][j + 1:])))
                if m["params"][j][2] != "plain":
                    cands.append(with_m(dict(m, params=m["params"][:j] + [m["params"][j][:2] + ["plain"]] + m["params"][j + 1:])))
            if m["shape"] != "single":
                cands.append(with_m({k: v for k, v in dict(m, shape="single").items() if k not in ("html", "att")}))
            for k, v in (("cte", "7bit"), ("charset", "us-ascii"), ("fold", False), ("inline", False), ("crlf", False)):
                if m.get(k) != v and not (k in ("cte", "charset") and any(ord(ch) > 127 for ch in body_text(m))):
                    cands.append(with_m(dict(m, **{k: v})))
        for cnd in cands:
            if budget <= 0:
                break
            if fails(cnd):
                best, changed = cnd, True
                break
    return best


# ----------------------------------------------------------------------------- correspondence
def correspondence(ctx):
    rng = ctx.rng
    g = Gen(rng)
    broken, violations = [], []
    seen = set()
    boxes = [g.box() for _ in range(ctx.n(150, 2500))]
    reqs, meta = [], []
    for b in boxes:
        ctx.case(("mailbox", json.dumps(b, sort_keys=True)), nontrivial=any(len(m["lines"]) >= 2 for m in b["msgs"]))
        ctx.count("mail/" + b["container"])
        texts, err = real_texts(b)
        for v in oracle(b):
            base = v.key.split(":")[0]
            if base not in seen:
                seen.add(base)
                small = shrink(b, v.kind) if hasattr(v, "kind") else b
                violations.append(([w for w in oracle(small) if getattr(w, "kind", None) == getattr(v, "kind", 0)] or [v])[0])
        for i, m in enumerate(b["msgs"]):
            ctx.count("mail/shape=" + m["shape"])
            ctx.count("mail/params=" + _ptxt(m))
            ctx.count("mail/cte=" + m["cte"])
            reqs.append({"op": "c02mail.body", "nl": stored_nl(m), "lines": m["lines"],
                         "params": [[k, v] for k, v, _ in m["params"]]})
            meta.append((b, i, m, texts[i] if texts and i < len(texts) else None, err))
    if boxes:
        ctx.sample({"mailbox": boxes[0]})
    for (b, i, m, real, err), o in zip(meta, ctx.drive(reqs)):
        case = {"fmt": "mailbox", "box": b, "part": PART}
        if "drv_error" in o:
            broken.append(Broken("correspondence", "driver", o["drv_error"], case=case))
            continue
        if o["body"] != body_text(m, stored_nl(m)):
            broken.append(Broken("correspondence", "c02mail.writer", f"Lean renderBody {o['body']!r:.200} != Python writer {body_text(m, stored_nl(m))!r:.200}", case=case))
        elif o["words"] != expected_words(m):
            broken.append(Broken("correspondence", "c02mail.spec", f"model words {o['words'][:8]} != line words {expected_words(m)[:8]}", case=case))
        elif real != o["text"]:
            broken.append(Broken("correspondence", "c02mail.body",
                                 f"{b['container']} message {i + 1} (text/plain; {_ptxt(m)}; {m['cte']}; {m['shape']}): impl={real!r:.200} err={err} model={o['text']!r:.200}", case=case))
    return {"broken": broken[:25], "violations": violations}


# ----------------------------------------------------------------------------- search / replay
def search(ctx, broken):
    found = []

    def add(vs, box):
        for v in vs:
            base = v.key.split(":")[0]
            if any(f.key.split(":")[0] == base for f in found):
                continue
            small = shrink(box, v.kind) if hasattr(v, "kind") else box
            found.append(([w for w in oracle(small) if getattr(w, "kind", None) == getattr(v, "kind", 0)] or [v])[0])

    for b in broken:
        c = b.case if isinstance(b.case, dict) else {}
        if c.get("fmt") == "mailbox" and "box" in c:
            add(oracle(c["box"]), c["box"])
    if not found:
        g = Gen(ctx.rng)
        for _ in range(ctx.n(600, 3000)):
            bx = g.box()
            add(oracle(bx), bx)
            if found:
                break
    return found


def replay(ctx, payload):
    rep = payload.get("replay", {})
    if rep.get("fmt") == "mailbox" and "box" in rep:
        vs = oracle(rep["box"])
        return (not vs), "; ".join(v.what for v in vs) or "property holds on the recorded mailbox"
    return False, "replay names a broken obligation, not an input: " + payload.get("what", "")
