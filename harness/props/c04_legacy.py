"""C04 helper: legacy Office documents whose picture stream is written here.

No fixture holds an OfficeArtBlipDIB / TIFF / PICT / metafile-with-signature picture, a duplicate picture, a record
with a secondary UID or a truncated BLIP — so the code between "bytes found in the record" and "image object stored"
(header skipping, sniffing, DIB -> BMP wrapping, de-duplication, numbering, size_bytes) was only ever run on
PNG / JPEG / EMF / WMF.  This module generates sequences of BLIP records of every type / instance / payload shape and
plants them

  * in the `Pictures` stream of a real .ppt (fixture ppt_with_images.ppt; the stream is rewritten with olefile at
    its original length: records + one filler record), and
  * inside the first MSODRAWINGGROUP record of a real .xls (fixture xls_with_images.xls; the bytes of the original
    picture are overwritten up to the end of that BIFF record, so the BIFF framing xlrd reads is untouched).

Records are (record type, record instance, data) with data = BLIP header (UID(s) + tag) + payload.
"""
from __future__ import annotations

import base64
import io
import struct

import corpus

PPT_HOST = "legacy_ms/ppt_with_images.ppt"
XLS_HOST = "legacy_ms/xls_with_images.xls"
MAX_RECORD_BYTES = 4000          # all records of one document stay far below the XLS budget / any cost limit

EMF, WMF, PICT, JPEG, PNG, DIB, TIFF = 0xF01A, 0xF01B, 0xF01C, 0xF01D, 0xF01E, 0xF01F, 0xF029
INSTANCES = {EMF: (0x3D4, 0x3D5), WMF: (0x216, 0x217), PICT: (0x542, 0x543), JPEG: (0x46A, 0x46B, 0x6E2, 0x6E3),
             PNG: (0x6E0, 0x6E1), DIB: (0x7A8, 0x7A9), TIFF: (0x6E4, 0x6E5)}
SIGS = {"png": b"\x89PNG\r\n\x1a\n", "jpeg": b"\xff\xd8\xff\xe0", "gif": b"GIF89a", "bmp": b"BM", "tiff-le": b"II\x2a\x00", "tiff-be": b"MM\x00\x2a"}


def _fixture(rel):
    for name, data in corpus.fixtures():
        if name.endswith(rel):
            return data
    return None


def dib(width, height, bpp, rng=None, header_size=40, planes=1, extra=0):
    """a device-independent bitmap: BITMAPINFOHEADER (or a header of another declared size) + colour table + pixels"""
    row = ((bpp * max(width, 1) + 31) // 32) * 4
    npix = row * max(abs(height), 1)
    pixels = bytes((rng.randrange(256) if rng else (i * 7 + 1) & 0xFF) for i in range(min(npix, 1500)))
    table = b"".join(struct.pack("<BBBB", i & 0xFF, (i * 3) & 0xFF, (i * 5) & 0xFF, 0) for i in range(1 << bpp)) if bpp <= 8 else b""
    head = struct.pack("<IiiHHIIiiII", header_size, width, height, planes, bpp, 0, len(pixels), 2835, 2835, 0, 0)
    if header_size > 40:
        head += b"\x00" * (header_size - 40)
    elif header_size < 40:
        head = head[:max(header_size, 4)] + b"\x00" * 0
    return head + table[: 1024] + pixels + b"\x00" * extra


def png(width=3, height=2):
    import zlib

    def chunk(t, d):
        return struct.pack(">I", len(d)) + t + d + struct.pack(">I", zlib.crc32(t + d) & 0xFFFFFFFF)
    raw = b"".join(b"\x00" + b"\x10\x20\x30" * width for _ in range(height))
    return SIGS["png"] + chunk(b"IHDR", struct.pack(">IIBBBBB", width, height, 8, 2, 0, 0, 0)) + chunk(b"IDAT", zlib.compress(raw)) + chunk(b"IEND", b"")


def blip_header(inst, rng):
    uid = bytes(rng.randrange(256) for _ in range(16))
    two = inst in (0x6E1, 0x46B, 0x3D5, 0x217, 0x543, 0x6E3, 0x7A9, 0x6E5)
    return uid + (bytes(rng.randrange(256) for _ in range(16)) if two else b"") + b"\xff"


def gen_records(rng, n, for_xls=False):
    """n records: mostly well-formed pictures of every BLIP type, plus the shapes the loop must skip"""
    recs = []
    for _ in range(n):
        r = rng.random()
        t = rng.choice((EMF, WMF, PICT, JPEG, PNG, DIB, DIB, DIB, TIFF))
        inst = rng.choice(INSTANCES[t])
        head = blip_header(inst, rng)
        if r < 0.08 and recs:                               # duplicate of an earlier record (same payload, maybe another type)
            t0, i0, d0 = rng.choice(recs)
            recs.append((rng.choice((t0, t0, t)), i0, d0))
            continue
        if r < 0.16:                                        # too short: no payload behind the header / 1..7 payload bytes
            k = rng.choice((1, 5, 16, 17, 18, 24, 33, 34))
            recs.append((t, inst, bytes(rng.randrange(1, 256) for _ in range(k))))
            continue
        if t == DIB:
            q = rng.random()
            if q < 0.7:
                body = dib(rng.choice((1, 2, 3, 9)), rng.choice((1, 2, -2, 5)), rng.choice((1, 4, 8, 16, 24, 32)), rng)
            elif q < 0.8:
                body = dib(2, 2, rng.choice((2, 0, 12, 64)), None)          # bit depth the wrapper refuses
            elif q < 0.9:
                body = dib(2, 2, 24, rng, header_size=rng.choice((12, 108, 124, 0)))   # not a BITMAPINFOHEADER
            else:
                body = dib(2, 2, 24, rng)[: rng.choice((8, 20, 39))]         # truncated header
        elif t in (EMF, WMF, PICT):
            body = bytes(rng.randrange(256) for _ in range(rng.choice((1, 3, 7, 8, 40, 300))))
            if rng.random() < 0.25:                         # a metafile record whose bytes start like a raster image
                body = rng.choice(list(SIGS.values())) + body
        elif t == PNG:
            body = png(rng.randint(1, 4), rng.randint(1, 3)) if rng.random() < 0.7 else SIGS["png"] + bytes(rng.randrange(256) for _ in range(rng.choice((0, 1, 30))))
        elif t == JPEG:
            body = SIGS["jpeg"] + bytes(rng.randrange(256) for _ in range(rng.choice((4, 20, 200))))
        else:
            body = rng.choice((SIGS["tiff-le"], SIGS["tiff-be"], SIGS["gif"], SIGS["bmp"])) + bytes(rng.randrange(256) for _ in range(rng.choice((4, 12, 64))))
        if rng.random() < 0.06:
            t = 0xF007 if not for_xls else t                # a non-BLIP record (skipped as a whole by the PPT walker)
        recs.append((t, inst, (head + body)[:MAX_RECORD_BYTES]))
    return recs


FIXED_SEQUENCES = [
    # the 2x2 24-bpp DIB (the shape of the first missed change), alone and next to ordinary pictures
    lambda rng: [(DIB, 0x7A8, b"\x11" * 16 + b"\xff" + dib(2, 2, 24))],
    lambda rng: [(PNG, 0x6E0, b"\x22" * 16 + b"\xff" + png()), (DIB, 0x7A8, b"\x11" * 16 + b"\xff" + dib(3, 2, 8)), (JPEG, 0x46A, b"\x33" * 16 + b"\xff" + SIGS["jpeg"] + b"0123456789")],
    # every indexed / direct bit depth
    lambda rng: [(DIB, 0x7A8, bytes([bpp]) * 16 + b"\xff" + dib(2, 2, bpp)) for bpp in (1, 4, 8, 16, 24, 32)],
    # secondary UID (33-byte header) for PNG / JPEG; the same instance bit on a DIB is NOT honoured by the code
    lambda rng: [(PNG, 0x6E1, b"\x01" * 32 + b"\xff" + png(2, 2)), (JPEG, 0x46B, b"\x02" * 32 + b"\xff" + SIGS["jpeg"] + b"abcdefgh"), (DIB, 0x7A9, b"\x03" * 32 + b"\xff" + dib(2, 2, 24))],
    # duplicates: the same picture twice; a DIB whose wrapping equals a BMP stored in another record
    lambda rng: [(PNG, 0x6E0, b"\x01" * 16 + b"\xff" + png()), (PNG, 0x6E0, b"\x09" * 16 + b"\xff" + png()),
                 (DIB, 0x7A8, b"\x02" * 16 + b"\xff" + dib(2, 2, 24)), (TIFF, 0x6E4, b"\x05" * 16 + b"\xff" + _bmp_of(dib(2, 2, 24)))],
    # metafiles (named by record type), a PICT (unknown: skipped), metafile bytes that look like a GIF
    lambda rng: [(EMF, 0x3D4, b"\x04" * 16 + b"\xff" + b"\x01\x00\x00\x00" * 10), (WMF, 0x216, b"\x05" * 16 + b"\xff" + b"\xd7\xcd\xc6\x9a" + b"\x00" * 30),
                 (PICT, 0x542, b"\x06" * 16 + b"\xff" + b"\x00" * 40), (EMF, 0x3D4, b"\x07" * 16 + b"\xff" + SIGS["gif"] + b"\x00" * 20), (WMF, 0x216, b"\x08" * 16 + b"\xff" + b"abc")],
    lambda rng: [],
]


def _bmp_of(d):
    bpp = struct.unpack_from("<H", d, 14)[0]
    ct = (1 << bpp) * 4 if bpp <= 8 else 0
    return b"BM" + struct.pack("<IHHI", 14 + len(d), 0, 0, 14 + 40 + ct) + d


def record_bytes(recs):
    return b"".join(struct.pack("<HHI", (inst & 0xFFF) << 4, t, len(d)) + d for t, inst, d in recs)


def build_ppt(recs):
    """the PPT host with `recs` as its whole Pictures stream (None when they do not fit / no host)"""
    import olefile
    host = _fixture(PPT_HOST)
    if host is None:
        return None
    bio = io.BytesIO(host)
    ole = olefile.OleFileIO(bio, write_mode=True)
    try:
        size = ole.get_size("Pictures")
        body = record_bytes(recs)
        rest = size - len(body)
        if rest < 8:
            return None
        body += struct.pack("<HHI", 0, 0, rest - 8) + b"\x00" * (rest - 8)
        ole.write_stream("Pictures", body)
    finally:
        ole.close()
    return bio.getvalue()


_XLS_SLOT = None


def _xls_slot(wb):
    """(start, end): the bytes of the first BLIP record of the workbook stream up to the end of the BIFF record holding its start"""
    blip_types = {EMF, WMF, PICT, JPEG, PNG, DIB, TIFF}
    off, start = 0, None
    while off <= len(wb) - 8:
        _, rt, rl = struct.unpack_from("<HHI", wb, off)
        if 0 < rl <= len(wb) - off - 8 and rt in blip_types:
            start = off
            break
        off += 1
    if start is None:
        return None
    off = 0
    while off + 4 <= len(wb):
        _, rl = struct.unpack_from("<HH", wb, off)
        if off <= start < off + 4 + rl:
            return start, off + 4 + rl
        off += 4 + rl
    return None


def build_xls(recs):
    """the XLS host with `recs` written over the start of its first picture (None when they do not fit / no host)"""
    import olefile
    host = _fixture(XLS_HOST)
    if host is None:
        return None
    bio = io.BytesIO(host)
    ole = olefile.OleFileIO(bio, write_mode=True)
    try:
        wb = ole.openstream("Workbook").read()
        slot = _xls_slot(wb)
        if slot is None:
            return None
        start, end = slot
        body = record_bytes(recs)
        if len(body) > end - start:
            return None
        body += b"\x00" * (end - start - len(body))
        ole.write_stream("Workbook", wb[:start] + body + wb[end:])
    finally:
        ole.close()
    return bio.getvalue()


DOC_HOST = "legacy_ms/headings.doc"


def build_doc(recs):
    """the DOC host with the payloads of `recs` (record data taken as the raw picture bytes: DIBs and PNGs are what
    the DOC reader scans the WordDocument stream for) written over its embedded picture, zero-separated"""
    import olefile
    host = _fixture(DOC_HOST)
    if host is None:
        return None
    bio = io.BytesIO(host)
    ole = olefile.OleFileIO(bio, write_mode=True)
    try:
        wd = ole.openstream("WordDocument").read()
        start = wd.find(SIGS["png"])
        if start < 0:
            return None
        body = b"".join(d + b"\x00" * 8 for _, _, d in recs)
        if len(body) > len(wd) - start:
            return None
        ole.write_stream("WordDocument", wd[:start] + body + b"\x00" * (len(wd) - start - len(body)))
    finally:
        ole.close()
    return bio.getvalue()


def gen_doc_items(rng, n):
    """raw pictures for the DOC host: DIBs of every bit depth / orientation (also two of equal size: the low-entropy
    filter compares those), PNGs, a DIB cut short by the end of the data"""
    out = []
    for _ in range(n):
        r = rng.random()
        if r < 0.7:
            out.append((DIB, 0x7A8, dib(rng.choice((1, 2, 3, 9)), rng.choice((1, 2, -2, 5)), rng.choice((1, 4, 8, 16, 24, 32)), rng)))
        elif r < 0.8 and out:
            t, i, d = rng.choice(out)
            out.append((t, i, d if rng.random() < 0.5 else d[:-1] + bytes([d[-1] ^ 1])))   # duplicate / same size, other pixels
        elif r < 0.95:
            out.append((PNG, 0x6E0, png(rng.randint(1, 4), rng.randint(1, 3))))
        else:
            out.append((DIB, 0x7A8, dib(2, 2, rng.choice((2, 12, 24)), rng, planes=rng.choice((1, 0)))))
    return out


BUILDERS = {"ppt": (build_ppt, "x.ppt"), "xls": (build_xls, "x.xls"), "doc": (build_doc, "x.doc")}
MODELLED = ("ppt", "xls")     # containers whose picture loop is the BLIP pipeline of S2T.Model.Iface


def to_json(recs):
    return [[t, inst, base64.b64encode(d).decode("ascii")] for t, inst, d in recs]


def from_json(rows):
    return [(int(t), int(inst), base64.b64decode(d)) for t, inst, d in rows]


def model_request(recs):
    return {"op": "c04.blips", "records": [{"type": t, "inst": inst, "data": list(d)} for t, inst, d in recs]}


def stored_images(result):
    """[(index, content type, payload bytes, size_bytes)] of the pictures of a PptContent / XlsContent, by index"""
    out, seen = [], set()
    ims = list(result.iterate_images())
    for u in result.iterate_units():
        ims += list(u.get_images())
    for im in ims:
        if id(im) in seen:
            continue
        seen.add(id(im))
        out.append((im.image_index, im.content_type, bytes(im.data) if im.data is not None else None, im.size_bytes))
    return sorted(out, key=lambda x: (x[0], x[1]))
