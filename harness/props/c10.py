"""C10 — archive members come out as themselves: right bytes, name, order.

Correspondence (model vs. real code, same inputs):
  * `_read_number` / `_read_boolean_vector` on writer-made and random byte strings;
  * `SevenZipReader(file)` + `extractall`: parsed reader state, per-folder pack-stream calls, files written —
    on archives of the independent 7z writer (all layouts) and on header-mutated / truncated archives;
  * `_detect_archive_type_optimized` + dispatch of `read_archive`;
  * the ZIP / TAR / 7z member loops of `read_archive` on archives of zipfile / tarfile / the 7z writer;
  * sessions (props/c10_history.py): every read of a sequence of reads in one process vs. the model of that archive alone.
Oracle (search, replay, witnesses): the property statement itself on the real `read_archive`,
independent of the Lean model: results == concatenation over the visible supported members, in archive
order, of running the router's extractor on that member's bytes alone with path `archive!/member`.
"""
from __future__ import annotations

import base64
import contextlib
import io
import json
import lzma
import os
import struct
import tarfile
import zipfile
import zlib

from builders import sevenzip_writer as W
from props import c10_history as H
from run import Broken, Violation

GEN = ["SevenZip", "ModState"]
RULE = ("cases = (a) byte strings for the varint / bit-vector readers, (b) 7z files = member set x grouping into folders "
        "x coder per folder WITH its parameters (LZMA2 dictionary byte, LZMA lc/lp/pb/dictionary; 'far' member sets repeat a block at "
        "70-97 % of the dictionary, up to 192K) x header options, plus header-byte mutations / truncations with CRCs re-sealed, "
        "(c) first-512-byte prefixes for detection, (d) ZIP/TAR/7z archives of generated member sets (documents, dirs, "
        "empty files, hidden / unsupported / nested-archive names, one corrupt member) run through read_archive, "
        "(e) sessions = sequences of 2-5 such reads in one process over archives cut from one member pool (shared / edited / renamed / "
        "failing members, distinct / equal / absent archive paths), consumed sequentially, abandoned after k results or interleaved; "
        "distinct = distinct input bytes; non-trivial = at least one member with data or a non-empty byte string")
ASSUMPTIONS = [
    "stdlib lzma is a parameter of the model (decoder answers are recorded from the real run); theorems assume decode(encode x) = x",
    "zipfile / tarfile are parameters: the model receives the member list and per-member read outcome they report",
    "the member extractors (router.get_extractor(basename)) are parameters: yields + raised flag of running them alone",
    "str.lower and router.is_supported_file are parameters (is_supported_file is C07's subject)",
    "7z member names are distinct, relative and normalised (a set of files); path confinement of the temp dir is C09's",
    "numbers in generated 7z headers stay below 50000 (larger ones are screened out of the malformed stream, counted)",
    "process history: the router answers (is_supported_file / get_extractor by base name) do not change during the process and "
    "configure_archive_extraction is not called between reads; zipfile / tarfile / the 7z reader / tempfile keep no state between calls",
]
TRUSTED = ["harness/builders/sevenzip_writer.py (independent 7z writer after 7zFormat.txt)",
           "S2T/Model/SevenZip.lean and S2T/Model/ArchiveLoop.lean (hand models, tied by this correspondence)",
           "bitwise CRC-32 in S2T/Drv/C10.lean (driver value of the crc parameter)"]

BIG = 50000


def _cps(s: str):
    return [ord(c) for c in s]


# ------------------------------------------------------------------------------------------- real-code adaptors
class _Skip(BaseException):
    """case outside the model's parameters (huge numbers, codec trouble); BaseException so that the library's
    own `except Exception` handlers do not turn it into a result"""


class _LzmaProxy:
    """stands in for the `lzma` module inside sevenzip.py and records every decoder call"""

    def __init__(self, log):
        self._log = log
        for k in ("FORMAT_ALONE", "FORMAT_RAW", "FILTER_LZMA2", "FILTER_LZMA1", "LZMAError"):
            setattr(self, k, getattr(lzma, k))

    def LZMADecompressor(self, format=None, filters=None):
        log = self._log

        class D:
            def decompress(self_inner, data, max_length=-1):
                if format == lzma.FORMAT_ALONE:
                    kind, dct = "alone", None
                else:
                    kind, dct = "raw", (filters[0].get("dict_size") if filters else None)
                mx = None if max_length is None or max_length < 0 else int(max_length)
                try:
                    out = lzma.LZMADecompressor(format=format, filters=filters).decompress(data, max_length)
                    log.append({"kind": kind, "dict": dct, "in": list(data), "max": mx, "out": list(out)})
                    return out
                except lzma.LZMAError:
                    log.append({"kind": kind, "dict": dct, "in": list(data), "max": mx, "out": None})
                    raise
                except Exception as e:  # MemoryError etc.: outside the model's codec parameter
                    raise _Skip(f"codec:{type(e).__name__}")
        return D()


@contextlib.contextmanager
def _instrumented(fs=True, big=BIG):
    """patch sevenzip.py: lzma proxy, number screening, `_decompress_folder` recording and (fs=True) filesystem capture"""
    from sharepoint2text.parsing.extractors.util import sevenzip as sz
    log, writes, calls = [], [], []
    saved = {k: getattr(sz, k) for k in ("lzma", "_safe_join", "_mkdirs")}
    had_open = "open" in sz.__dict__
    orig_num = sz.SevenZipReader._read_number
    orig_dec = sz.SevenZipReader._decompress_folder

    def read_number(self):
        v = orig_num(self)
        if v > big:
            raise _Skip("huge-number")
        return v

    def decompress_folder(self, folder, pack_pos, pack_sizes, *args, **kwargs):
        # recorded as (folder index, pack position, pack sizes, max_output); everything is passed through untouched
        max_output = kwargs.get("max_output", args[1] if len(args) > 1 else None)
        calls.append((next((i for i, f in enumerate(self._folders) if f is folder), -1), pack_pos, list(pack_sizes), max_output))
        return orig_dec(self, folder, pack_pos, pack_sizes, *args, **kwargs)

    class _F:
        def __init__(self, path):
            self.path, self.buf = path, b""

        def __enter__(self):
            return self

        def __exit__(self, *a):
            writes.append((self.path, self.buf))
            return False

        def write(self, b):
            self.buf += bytes(b)

    sz.lzma = _LzmaProxy(log)
    if fs:
        sz._safe_join = lambda base, rel: rel
        sz._mkdirs = lambda p: None
        sz.open = lambda path, mode="r": _F(path)
    sz.SevenZipReader._read_number = read_number
    sz.SevenZipReader._decompress_folder = decompress_folder
    try:
        yield log, writes, calls
    finally:
        for k, v in saved.items():
            setattr(sz, k, v)
        if fs and not had_open:
            del sz.open
        sz.SevenZipReader._read_number = orig_num
        sz.SevenZipReader._decompress_folder = orig_dec


def _err_class(e):
    from sharepoint2text.parsing.extractors.util import sevenzip as sz
    enc = getattr(sz, "Encrypted7zFile", None)
    if enc is not None and isinstance(e, enc):
        return "encrypted7z"
    return "bad7z" if isinstance(e, sz.Bad7zFile) else "other"


def _real_sevenzip(data: bytes, tmp: str, pick=None, big=BIG):
    """-> (outcome dict comparable with op c10.sevenzip, codec log, wanted) or raises _Skip.
    pick: None = extractall(members=None); else a function number_of_entries -> list of indices; the members
    handed to extractall are those entries of list() (an index past the end stands for a foreign FileInfo)"""
    from sharepoint2text.parsing.extractors.util.sevenzip import SevenZipReader
    with _instrumented(big=big) as (log, writes, calls):
        try:
            r = SevenZipReader(io.BytesIO(data))
        except _Skip:
            raise
        except Exception as e:
            return {"err": _err_class(e)}, log, None
        n_parse_calls = len(calls)
        out = {
            "r": {
                "files": [{"n": _cps(f.filename), "u": f.uncompressed, "d": bool(f.is_directory), "a": f.attributes,
                           "f": f.folder_index} for f in r._files],
                "folders": [{"c": [{"id": list(c), "p": (list(p) if p is not None else None)} for c, p in f.coders],
                             "u": list(f.unpack_sizes), "crc": f.crc, "ns": f.num_streams,
                             "np": getattr(f, "num_pack_streams", "absent")} for f in r._folders],
                "pp": list(r._pack_positions), "ps": list(r._pack_sizes), "fs": list(r._file_sizes),
                "f2f": [[k, list(v)] for k, v in r._folder_to_files.items()],
                "ef": list(getattr(r, "_empty_file_indices", [])),
            },
            "pw": bool(r.needs_password()),
        }
        wanted = None
        kw = {}
        if pick is not None:
            from sharepoint2text.parsing.extractors.util.sevenzip import FileInfo
            listed = r.list()
            wanted = pick(len(listed))
            kw["members"] = [listed[i] if i < len(listed) else FileInfo(filename="foreign", uncompressed=1, is_directory=False)
                             for i in wanted]
        try:
            r.extractall(tmp, source_file=io.BytesIO(data), **kw)
            out["writes"] = [[_cps(p), list(b)] for p, b in writes]
        except _Skip:
            raise
        except Exception as e:
            out["xerr"] = _err_class(e)
        out["plan"] = [[k, pos, sizes, mx] for (k, pos, sizes, mx) in calls[n_parse_calls:]]
        return out, log, wanted


def _canon(res) -> str:
    return json.dumps(res.to_json(), sort_keys=True, default=repr, ensure_ascii=True)


def _alone(name: str, data: bytes, ap):
    """the member on its own: ([canonical results], raised?) with the label path archive!/member"""
    from sharepoint2text.parsing.router import get_extractor
    base = os.path.basename(name)
    label = f"{ap}!/{name}" if ap else name
    out = []
    try:
        for r in get_extractor(base)(io.BytesIO(data), path=label):
            out.append(_canon(r))
        return out, False
    except Exception:
        return out, True


def _read_archive(data: bytes, ap):
    """-> ([(file_path, canonical)], terminal) of the real read_archive"""
    from sharepoint2text.parsing.exceptions import (ExtractionFailedError, ExtractionFileEncryptedError,
                                                    ExtractionFileTooLargeError)
    from sharepoint2text.parsing.extractors.archive_extractor import read_archive
    got, term = [], None
    try:
        for r in read_archive(io.BytesIO(data), path=ap):
            got.append((r.get_metadata().file_path, _canon(r)))
    except ExtractionFileEncryptedError:
        term = "encrypted"
    except ExtractionFileTooLargeError:
        term = "tooLarge"
    except ExtractionFailedError:
        term = "failed"
    except Exception as e:  # the property (and C01) allow nothing else
        term = "RAISED:" + type(e).__name__
    return got, term


# ------------------------------------------------------------------------------------------- generators
_WORDS = ["alpha", "bravo", "charlie", "delta", "echo", "foxtrot", "golf", "hotel", "india", "juliett", "kilo", "lima"]


def _text(rng, tag):
    return " ".join(rng.choice(_WORDS) for _ in range(rng.randint(1, 12))) + f" [{tag}]"


def _resource(rel):
    from corpus import RES
    try:
        with open(os.path.join(RES, rel), "rb") as fh:
            return fh.read()
    except OSError:
        return None


def _doc(rng, tag, small=True):
    """(extension, bytes) of one generated supported document"""
    kinds = ["txt", "md", "csv", "tsv", "json", "html", "rtf", "eml", "txt", "md"]
    if not small:
        kinds += ["epub", "ods", "mbox"]
    k = rng.choice(kinds)
    t = _text(rng, tag)
    if k in ("txt", "md"):
        return k, (("# " if k == "md" else "") + t + "\n" + _text(rng, tag) + "\n").encode()
    if k in ("csv", "tsv"):
        sep = "," if k == "csv" else "\t"
        return k, ("a%sb\n%s%s%d\n" % (sep, t.replace(",", " "), sep, rng.randint(0, 999))).encode()
    if k == "json":
        return k, json.dumps({"t": t, "n": rng.randint(0, 99)}).encode()
    if k == "html":
        return k, f"<html><head><title>{tag}</title></head><body><p>{t}</p><table><tr><td>1</td></tr></table></body></html>".encode()
    if k == "rtf":
        return k, (r"{\rtf1\ansi " + t.replace("[", "(").replace("]", ")") + r"\par}").encode()
    if k == "eml":
        return k, (f"From: a@example.org\r\nTo: b@example.org\r\nSubject: {tag}\r\nDate: Mon, 1 Jan 2024 10:00:00 +0000\r\n"
                   f"Message-ID: <{tag}@example.org>\r\nMIME-Version: 1.0\r\nContent-Type: text/plain; charset=utf-8\r\n\r\n{t}\r\n").encode()
    if k == "epub":
        return k, (_resource("epub/sample.epub") or t.encode())
    if k == "ods":
        return k, (_resource("open_office/sample_spreadsheet.ods") or t.encode())
    return k, (_resource("mails/basic_email.mbox") or t.encode())


def _nested_archive(ext, tag):
    inner = [(f"{tag}.txt", "file", f"text inside a nested archive [{tag}]".encode())]
    if ext == "zip":
        b = io.BytesIO()
        with zipfile.ZipFile(b, "w") as z:
            z.writestr(inner[0][0], inner[0][2])
        return b.getvalue()
    if ext == "7z":
        return W.build_7z(inner)
    comp = {"tar": "", "tar.gz": "gz", "tgz": "gz", "tar.bz2": "bz2", "tbz2": "bz2", "tar.xz": "xz", "txz": "xz",
            "gz": "gz", "bz2": "bz2", "xz": "xz"}[ext]   # bare .gz/.bz2/.xz: the router hands them to read_archive too
    b = io.BytesIO()
    with tarfile.open(fileobj=b, mode="w:" + comp if comp else "w") as t:
        ti = tarfile.TarInfo(inner[0][0])
        ti.size = len(inner[0][2])
        t.addfile(ti, io.BytesIO(inner[0][2]))
    return b.getvalue()


_STEMS = ["report", "notes", "data 1", "BZnotes", "PKlist", "7zip-howto", "übersicht", "日本語", "s\U0001F600mile", "a.b", "x-1",
          "README", "Q3_final",
          # UTF-16LE byte patterns that contain 00 00 across a character boundary (ASCII / Latin-1 char followed by a
          # U+xx00 character) or inside the name: a byte-pair search for the terminator would cut the name there
          "Q1\u6700\u7ec8", "a\u4e00b", "x\u2200y", "n\u0100", "\u0100\u0100", "z\u3000"]
_DIRS = ["", "", "d", "d/e", "docs", "BZ", "ünï", "__MACOSX", "a b"]


def _members(rng, n, ap, small=True, corrupt=True):
    """a *set* of files: [(name, kind, data)] kind in dir|file; names distinct; dirs/empties/hidden/unsupported interleaved"""
    out, used = [], set()

    def add(name, kind, data):
        if name in used:
            return
        used.add(name)
        out.append((name, kind, data))

    corrupt_at = rng.randrange(n) if (corrupt and n and rng.random() < 0.5) else -1
    for i in range(n):
        d = rng.choice(_DIRS)
        stem = rng.choice(_STEMS) + str(i)
        pre = (d + "/") if d else ""
        roll = rng.random()
        if i == corrupt_at:
            ext = rng.choice(["docx", "pdf", "xlsx", "epub", "pptx", "odt", "msg"])
            add(f"{pre}{stem}.{ext}", "file", bytes(rng.randrange(256) for _ in range(rng.randint(1, 60))))
        elif roll < 0.10:
            add(f"{pre}sub{i}", "dir", b"")
        elif roll < 0.20:
            add(f"{pre}{stem}." + rng.choice(["txt", "md", "csv", "json", "html", "docx", "pdf"]), "file", b"")  # empty file
        elif roll < 0.26:
            add(f"{pre}.{stem}.txt", "file", _text(rng, "hidden").encode())  # hidden
        elif roll < 0.32:
            add(f"{pre}{stem}." + rng.choice(["xyz", "exe", "bin", "png"]), "file", b"\x00\x01unsupported")
        elif roll < 0.36:
            add(f"{pre}{stem}", "file", b"no extension")
        elif roll < 0.42:
            ext = rng.choice(["zip", "tar.gz", "7z", "tgz", "TAR", "tar.bz2", "tbz2", "tar.xz", "txz", "gz", "bz2", "xz"])
            add(f"{pre}{stem}.{ext}", "file", _nested_archive(ext.lower(), f"inner{i}"))  # nested archive (a real one)
        else:
            ext, data = _doc(rng, f"m{i}", small)
            if rng.random() < 0.15:
                ext = ext.upper()
            add(f"{pre}{stem}.{ext}", "file", data)
    return out


def _groups(rng, k):
    """a grouping of k non-empty files into consecutive folders + layout tag"""
    if k == 0:
        return [], "none"
    mode = rng.choice(["solid", "perfile", "mixed", "mixed"])
    if mode == "solid" or k == 1:
        return [k], "solid" if k > 1 else "single"
    if mode == "perfile":
        return [1] * k, "perfile"
    gs, left = [], k
    while left:
        g = rng.randint(1, left)
        gs.append(g)
        left -= g
    return gs, ("mixed" if len(gs) > 1 else "solid")


def _build_7z(rng, members):
    k = sum(1 for (_, kind, d) in members if kind == "file" and d)
    gs, tag = _groups(rng, k)
    coders = [_draw_coder(rng) for _ in gs]
    opts = dict(encode_header=rng.choice([None, None, "lzma", "lzma2", "copy"]), attrs=rng.choice(["win", "unix", None]),
                mtime=rng.random() < 0.5, dummy=rng.choice([0, 0, 1, 5]), with_pack_crc=rng.random() < 0.3,
                always_num_streams=rng.random() < 0.3, names_first=rng.random() < 0.2)
    spec = {"groups": gs, "coders": coders, "opts": opts}
    return W.build_7z(members, gs, coders, **opts), spec, tag + "/" + _coder_tag(coders)


# --- coder PARAMETERS.  A folder's coder carries properties the reader turns into the decoder set-up (LZMA2: one byte =
# dictionary size 2^n or 3*2^(n-1); LZMA: lc/lp/pb byte + 32-bit dictionary size).  A packer chooses them from the data (7-Zip
# shrinks the dictionary to the folder size), so they are part of "any standard packer": every run draws them, and the
# `far` member sets make the choice MATTER: a block of text occurs twice in the folder's stream, the second time at a
# distance of 70-97 % of the dictionary, so a decoder set up with a smaller dictionary than the encoder's cannot decode.
def _param_coder(rng, kind, p):
    """kind in lzma|lzma2, p = LZMA2-style dictionary index (W.lzma2_dict)"""
    if kind == "lzma2":
        return f"lzma2:{p}"
    lc = rng.randint(0, 4)
    lp = rng.randint(0, 4 - lc)
    return f"lzma:{lc}:{lp}:{rng.randint(0, 4)}:{W.lzma2_dict(p)}"


def _draw_coder(rng):
    c = rng.choice(["copy", "lzma", "lzma2"])
    if c != "copy" and rng.random() < 0.4:
        return _param_coder(rng, c, rng.randint(0, 16))
    return c


def _coder_tag(coders):
    return "+".join(sorted({W.coder_base(c) for c in coders}) or ["-"])


def _noise(rng, n):
    """n characters of poorly compressible text"""
    return base64.b64encode(rng.getrandbits(8 * n).to_bytes(n, "little")).decode()[:n] if n > 0 else ""


def _far_case(rng, kind, p, ap=None):
    """-> (members, spec, tag): one folder whose stream repeats a block at 70-97 % of the dictionary W.lzma2_dict(p),
    as one member holding it twice, or as two members with a third in between (solid), dirs / empty files interleaved;
    optionally a second, ordinary folder after it"""
    ds = W.lzma2_dict(p)
    dist = int(ds * rng.uniform(0.70, 0.97))
    blk = _noise(rng, rng.randint(200, 400))
    shape = rng.choice(["one", "solid", "solid", "solid+"])
    if shape == "one":
        ms = [("far/twice0.txt", "file", (blk + "\n" + _noise(rng, dist - len(blk) - 1) + blk + "\nend\n").encode())]
    else:
        a = ("far/first0.txt", "file", (blk + "\n").encode())
        pad = ("far/between1." + rng.choice(["txt", "md"]), "file", (_noise(rng, dist - len(blk) - 1)).encode())
        b = ("far/again2.txt", "file", ("again " + blk + "\n").encode())
        ms = [a, pad, b]
        if rng.random() < 0.5:
            ms.insert(rng.randint(0, 3), ("far/sub", "dir", b""))
        if rng.random() < 0.5:
            ms.insert(rng.randint(0, len(ms)), ("far/empty9.txt", "file", b""))
    k = sum(1 for (_, kk, d) in ms if kk == "file" and d)
    gs, coders = [k], [_param_coder(rng, kind, p)]
    if shape == "solid+":
        ms.append(("after3.txt", "file", _text(rng, "after").encode()))
        gs.append(1)
        coders.append(_draw_coder(rng))
    opts = dict(encode_header=rng.choice([None, None, "lzma2"]), attrs=rng.choice(["win", "unix", None]), mtime=False, dummy=0,
                with_pack_crc=rng.random() < 0.3, always_num_streams=rng.random() < 0.3, names_first=False)
    return ms, {"groups": gs, "coders": coders, "opts": opts}, f"far-{shape}/{kind}"


def _reseal(data: bytearray) -> bytes:
    """recompute header CRCs so that a mutated header is actually parsed"""
    if len(data) < 32:
        return bytes(data)
    off, size = struct.unpack("<QQ", data[12:28])
    if 32 + off + size <= len(data) and size < 1 << 20:
        data[28:32] = struct.pack("<I", zlib.crc32(bytes(data[32 + off:32 + off + size])))
    data[8:12] = struct.pack("<I", zlib.crc32(bytes(data[12:32])))
    return bytes(data)


def _mutate_7z(rng, data: bytes) -> bytes:
    b = bytearray(data)
    if len(b) < 33:
        return bytes(b)
    off, size = struct.unpack("<QQ", b[12:28])
    h0, h1 = 32 + off, min(len(b), 32 + off + size)
    roll = rng.random()
    if roll < 0.55 and h1 > h0:      # header byte edits
        for _ in range(rng.randint(1, 3)):
            i = rng.randrange(h0, h1)
            b[i] = rng.choice([0, 1, 2, 9, 10, 13, 14, 15, 17, 21, 23, 0x80, 0xFF, b[i] ^ (1 << rng.randrange(8)), rng.randrange(256)])
        return _reseal(b)
    if roll < 0.70 and h1 > h0:      # delete / insert a header byte
        i = rng.randrange(h0, h1)
        if rng.random() < 0.5:
            del b[i]
            b[20:28] = struct.pack("<Q", size - 1)
        else:
            b.insert(i, rng.randrange(256))
            b[20:28] = struct.pack("<Q", size + 1)
        return _reseal(b)
    if roll < 0.80:                  # start header edits
        i = rng.randrange(6, 32)
        b[i] = rng.randrange(256)
        return bytes(b) if rng.random() < 0.5 else _reseal(b)
    if roll < 0.90:                  # truncation
        return bytes(b[: rng.randrange(0, len(b))])
    i = rng.randrange(32, len(b))    # packed stream edit
    b[i] ^= 1 << rng.randrange(8)
    return bytes(b)


# ------------------------------------------------------------------------------------------- correspondence
def _corr_numbers(ctx, broken):
    from sharepoint2text.parsing.extractors.util.sevenzip import SevenZipReader
    rng = ctx.rng
    cases = []
    for k in range(9):
        for _ in range(ctx.n(6, 60)):
            lo = 0 if k == 0 else 1 << (7 * k)
            hi = (1 << (7 * (k + 1))) if k < 8 else (1 << 64)
            n = rng.choice([lo, hi - 1, rng.randrange(lo, hi)])
            cases.append(W.number(n) + bytes(rng.randrange(256) for _ in range(rng.randint(0, 3))))
    for _ in range(ctx.n(150, 3000)):
        cases.append(bytes(rng.randrange(256) for _ in range(rng.randint(0, 10))))
    reqs, real = [], []
    for c in cases:
        r = object.__new__(SevenZipReader)
        r._stream = io.BytesIO(c)
        try:
            v = r._read_number()
            real.append({"v": v, "used": r._stream.tell()})
        except Exception as e:
            real.append({"err": _err_class(e)})
        reqs.append({"op": "c10.num", "b": list(c)})
    bcases = []
    for _ in range(ctx.n(150, 3000)):
        count = rng.randint(0, 40)
        check = rng.random() < 0.5
        if rng.random() < 0.5:
            body = (bytes([rng.choice([0, 0, 1, 7])]) if check else b"") + W.bitvector([rng.random() < 0.5 for _ in range(count)])
        else:
            body = bytes(rng.randrange(256) for _ in range(rng.randint(0, 7)))
        bcases.append((body, count, check))
        r = object.__new__(SevenZipReader)
        r._stream = io.BytesIO(body)
        try:
            v = r._read_boolean_vector(count, check_defined=check)
            real.append({"v": [bool(x) for x in v], "used": r._stream.tell()})
        except Exception as e:
            real.append({"err": _err_class(e)})
        reqs.append({"op": "c10.bits", "b": list(body), "count": count, "check": check})
    outs = ctx.drive(reqs)
    bad = 0
    for rq, rl, o in zip(reqs, real, outs):
        ctx.case((rq["op"], tuple(rq["b"]), rq.get("count"), rq.get("check")), nontrivial=bool(rq["b"]))
        ctx.count(rq["op"] + ("/err" if "err" in rl else "/ok"))
        if o != rl:
            bad += 1
            if bad <= 5:
                broken.append(Broken("correspondence", rq["op"], f"impl={rl} model={o}", case={"kind": "bytes", "req": rq}))
    ctx.sample({"op": "c10.num", "bytes": list(cases[3]), "impl": real[3], "model": outs[3]})


def _seven_cases(ctx):
    rng = ctx.rng
    cases = []
    for i in range(ctx.n(300, 2500)):
        ms = _members(rng, rng.choice([0, 1, 2, 3, 4, 5, 6, 8]), "a.7z")
        data, spec, tag = _build_7z(rng, ms)
        cases.append(("valid/" + tag, data, {"members": ms, "spec": spec}))
        for _ in range(ctx.n(2, 4)):
            cases.append(("mutated", _mutate_7z(rng, data), None))
        if len(spec["groups"]) and max(spec["groups"]) > 1:
            sk = rng.choice(["zero-last", "overflow", "short"])
            cases.append(("skewed-" + sk, W.build_7z(ms, spec["groups"], spec["coders"], skew=sk, **spec["opts"]), None))
    # coder parameters that matter: every dictionary index 0..5 (4K .. 24K) x LZMA / LZMA2, a block repeated near the end of the window
    for j in range(ctx.n(12, 60)):
        ms, spec, tag = _far_case(rng, ["lzma2", "lzma"][(j // 6) % 2], j % 6)
        cases.append(("valid/" + tag, W.build_7z(ms, spec["groups"], spec["coders"], **spec["opts"]), {"members": ms, "spec": spec}))
    # ... and LARGE folders (128K / 192K dictionaries, pack streams of 70-140 KB): whatever the reader does per buffer,
    # per 64 KiB or with a capped dictionary shows here
    for j in range(ctx.n(2, 8)):
        ms, spec, tag = _far_case(rng, ["lzma2", "lzma"][j % 2], 10 + (j // 2) % 2)
        cases.append(("valid/" + tag + "-large", W.build_7z(ms, spec["groups"], spec["coders"], **spec["opts"]), {"members": ms, "spec": spec}))
    # declared file count against the bytes that remain in the header (count - 1, count, count + 1 bytes left)
    for n in (2, 3, 5, 9, 40, 300):
        for m in (n - 1, n, n + 1):
            hdr = bytes([W.K_HEADER, W.K_FILES]) + W.number(n) + b"\x00" * m
            start = struct.pack("<QQI", 0, len(hdr), zlib.crc32(hdr))
            cases.append(("count-edge", W.MAGIC + b"\x00\x04" + struct.pack("<I", zlib.crc32(start)) + start + hdr, None))
    res = _resource("archives/test_archive.7z")
    if res:
        cases.append(("fixture", res, None))
        for _ in range(ctx.n(10, 100)):
            cases.append(("mutated-fixture", _mutate_7z(rng, res), None))
    return cases


def _corr_sevenzip(ctx, broken, tmp):
    cases = _seven_cases(ctx)
    reqs, reals, kept = [], [], []
    for tag, data, meta in cases:
        far = tag.startswith("valid/far")   # well-formed by construction: the number screen is only for mutated headers
        if len(data) > (200000 if far else 6000):
            ctx.count("7z/skipped-large")
            continue
        # once with members=None, once with a random subset of the listed entries as `members`
        for mode in ("all", "subset"):
            pick = None
            if mode == "subset":
                if tag.startswith("mutated-fixture"):
                    continue
                seed = ctx.rng.random()

                def pick(n, seed=seed):
                    import random as _r
                    rr = _r.Random(seed)
                    idx = [i for i in range(n) if rr.random() < 0.55]
                    rr.shuffle(idx)
                    if rr.random() < 0.15:
                        idx.append(n + 7)          # a FileInfo that is not one of list()
                    if idx and rr.random() < 0.1:
                        idx.append(idx[0])         # the same entry twice
                    return idx
            try:
                real, log, wanted = _real_sevenzip(data, tmp, pick, big=(10 ** 6 if far else BIG))
            except _Skip as e:
                ctx.count(f"7z/skipped-{e}")
                continue
            if mode == "subset" and wanted is None:
                continue                           # header did not parse: nothing to select from
            reqs.append({"op": "c10.sevenzip", "file": list(data), "codec": log, "wanted": wanted})
            reals.append(real)
            kept.append((tag + ("" if mode == "all" else "#members"), data, meta))
    outs = ctx.drive(reqs)
    bad = 0
    for (tag, data, meta), real, o in zip(kept, reals, outs):
        nontriv = "r" in real and any(f["u"] for f in real["r"]["files"])
        sub = tag.endswith("#members")
        ctx.case(("7z", data, sub), nontrivial=nontriv or tag.startswith("mut"))
        outcome = "parse-" + real["err"] if "err" in real else ("extract-" + real["xerr"] if "xerr" in real else "ok")
        ctx.count(f"7z/{tag.split('/')[0].split('#')[0]}{'#members' if sub else ''}/{outcome}")
        if sub and "plan" in real:
            n_fold = len(real["r"]["f2f"])
            ctx.count("7z#members/folders-decoded=" + ("all" if len(real["plan"]) == n_fold else "some" if real["plan"] else "none")
                      + ("/capped" if any(c[3] is not None and c[3] < sum(real["r"]["folders"][c[0]]["u"][-1:]) for c in real["plan"]) else ""))
        if tag.startswith("valid") and not sub:
            ctx.count("7z-layout/" + tag[6:])
        if "xerr" in real and "plan" in o and "plan" in real:
            o["plan"] = o["plan"][: len(real["plan"])]   # the real loop stops at the folder that failed
        if "drv_error" in o or o != real:
            bad += 1
            if bad <= 8:
                diff = [k for k in set(real) | set(o) if real.get(k) != o.get(k)]
                if "r" in diff and isinstance(real.get("r"), dict) and isinstance(o.get("r"), dict):
                    diff += ["r." + k for k in real["r"] if real["r"].get(k) != o["r"].get(k)]
                broken.append(Broken("correspondence", "c10.sevenzip", f"{tag}: fields differing: {sorted(diff)}; impl={_short(real, diff)} model={_short(o, diff)}",
                                     case={"kind": "7z", "hex": data.hex(), "members": _ser_members(meta["members"]) if meta else None,
                                           "spec": meta["spec"] if meta else None}))
    if kept:
        i = len(kept) // 2
        ctx.sample({"op": "c10.sevenzip", "tag": kept[i][0], "file_len": len(kept[i][1]),
                    "impl": {k: (v if k != "r" else "...") for k, v in reals[i].items() if k != "writes"}})
    ctx.coverage["sevenzip_mismatches"] = bad



# ------------------------------------------------------------------------------------------- the Lean writer specification
_MTIME0 = 0x01DC7D4A6F24B200


def _layout_request(members, groups, coders, opts):
    """(request for op c10.write_header, pack streams) for the layout W.build_7z(members, groups, coders, **opts) packs.
    Entries without a stream are listed with the folder of the next non-empty file; trailing ones form the tail."""
    attrs = opts.get("attrs")
    av = opts.get("attr_values")

    def entry(j, n, k, d):
        if av is not None:
            a = av[j]
        elif attrs == "win":
            a = 0x10 if k == "dir" else 0x20
        elif attrs:
            a = ((0o040755 << 16) | 0x8000 | 0x10) if k == "dir" else ((0o100644 << 16) | 0x8000 | 0x20)
        else:
            a = 0
        return {"n": _cps(n), "d": k == "dir", "s": len(d), "a": a, "t": _MTIME0 + 7 * j, "c": zlib.crc32(d)}

    folders, pending, packs = [], [], []
    gi, left, cur, cur_data = 0, (groups[0] if groups else 0), [], b""
    for j, (n, k, d) in enumerate(members):
        e = entry(j, n, k, d)
        if not (k == "file" and d):
            pending.append(e)
            continue
        cur += pending + [e]
        pending = []
        cur_data += d
        left -= 1
        if left == 0:
            cid, props, packed = W.encode(coders[gi], cur_data)
            folders.append({"m": W.coder_base(coders[gi]), "props": list(props) if props is not None else [], "pack": len(packed),
                            "pcrc": zlib.crc32(packed), "crc": zlib.crc32(cur_data), "entries": cur})
            packs.append(packed)
            gi += 1
            left, cur, cur_data = (groups[gi] if gi < len(groups) else 0), [], b""
    body = b"".join(packs)
    rq = {"op": "c10.write_header", "pack_pos": 0, "body_len": len(body), "folders": folders, "tail": pending,
          "opts": {"pack_crc": bool(opts.get("with_pack_crc")), "folder_crc": bool(opts.get("folder_crc")),
                   "always_num_streams": bool(opts.get("always_num_streams")), "attrs": bool(attrs),
                   "mtime": bool(opts.get("mtime")), "dummy": int(opts.get("dummy") or 0),
                   "names_first": bool(opts.get("names_first"))}}
    return rq, body


def _writer_opts(rng, i):
    """all option combinations are swept (i counts the cases), the rest is drawn"""
    return dict(encode_header=None, attrs=["win", "unix", None][i % 3], mtime=bool((i // 3) & 1), dummy=[0, 1, 5, 300][(i // 6) % 4],
                with_pack_crc=bool((i // 24) & 1), always_num_streams=bool((i // 48) & 1), names_first=bool((i // 96) & 1),
                folder_crc=bool((i // 192) & 1))


def _corr_writer(ctx, broken, tmp):
    """the writer specification of Props/C10_Header.lean (op c10.write_header = `writeHeader` / `startHeader` / `stateOf`):
    (i) its bytes == the bytes of the independent Python writer for the same layout, every option combination;
    (ii) the archive assembled from ITS header and Python's pack streams, read by the REAL SevenZipReader, gives exactly
    `stateOf L` (and extractall the packed files), for every layout incl. folder CRCs with mixed folder sizes."""
    rng = ctx.rng
    # primitives: all nine length classes of `number`, bit vectors of every length 0..40, names incl. surrogate pairs
    preqs, pexp = [], []
    for k in range(9):
        lo = 0 if k == 0 else 1 << (7 * k)
        hi = (1 << (7 * (k + 1))) if k < 8 else (1 << 64)
        for n in (lo, hi - 1, rng.randrange(lo, hi), rng.randrange(lo, hi)):
            bits = [rng.random() < 0.5 for _ in range(rng.randint(0, 40))]
            name = rng.choice(_STEMS) + rng.choice(["", "\U0001F600", "\U0010FFFF\uFFFF", "\uD7FF\uE000"])
            preqs.append({"op": "c10.wprim", "n": n, "bits": bits, "name": _cps(name)})
            pexp.append({"num": list(W.number(n)), "bits": list(W.bitvector(bits)), "name": list(name.encode("utf-16-le") + b"\x00\x00")})
    for rq, ex, o in zip(preqs, pexp, ctx.drive(preqs)):
        ctx.case(("wprim", rq["n"], tuple(rq["bits"]), tuple(rq["name"])), nontrivial=True)
        ctx.count("writer/prim/" + ("ok" if o == ex else "DIFF"))
        if o != ex:
            broken.append(Broken("correspondence", "c10.wprim", f"python writer={ex} lean spec={o}", case={"kind": "bytes", "req": rq}))
    cases = []
    for i in range(ctx.n(384, 3072)):
        ms = _members(rng, rng.choice([0, 1, 2, 3, 4, 5, 6, 8]), "a.7z")
        k = sum(1 for (_, kind, d) in ms if kind == "file" and d)
        gs, tag = _groups(rng, k)
        coders = [_draw_coder(rng) for _ in gs]
        opts = _writer_opts(rng, i)
        if sum(len(d) for _, _, d in ms) > 5000:
            ctx.count("writer/skipped-large")
            continue
        cases.append((ms, gs, coders, opts, tag))
    reqs, bodies = [], []
    for ms, gs, coders, opts, tag in cases:
        rq, body = _layout_request(ms, gs, coders, opts)
        reqs.append(rq)
        bodies.append(body)
    outs = ctx.drive(reqs)
    bad = 0
    for (ms, gs, coders, opts, tag), rq, body, o in zip(cases, reqs, bodies, outs):
        spec = {"groups": gs, "coders": coders, "opts": opts}
        case = {"kind": "7z", "members": _ser_members(ms), "spec": spec}
        if "drv_error" in o:
            broken.append(Broken("correspondence", "c10.write_header", "driver: " + str(o["drv_error"]), case=case))
            continue
        lean = bytes(o["start"]) + body + bytes(o["header"])
        ctx.case(("writer", lean), nontrivial=bool(body))
        mixed = bool(opts["folder_crc"]) and any(g == 1 for g in gs) and any(g > 1 for g in gs)
        ctx.count("writer/" + tag.split("/")[0] + ("/folder-crc-mixed" if mixed else ""))
        problems = []
        if not o["wf"]:
            problems.append("a generated layout is not WellFormed")
        if o["mixed"] != mixed:
            problems.append(f"mixedWithFolderCrc={o['mixed']} but the layout says {mixed}")
        py = W.build_7z(ms, gs, coders, **opts)
        if py != lean:
            at = next((j for j, (a, b) in enumerate(zip(py, lean)) if a != b), min(len(py), len(lean)))
            problems.append(f"bytes differ from the Python writer at offset {at} (python {len(py)} bytes, lean {len(lean)} bytes)")
        try:
            real, log, _ = _real_sevenzip(lean, tmp)
        except _Skip as e:
            ctx.count(f"writer/skipped-{e}")
            real = None
        if real is not None:
            if real.get("r") != o["state"]:
                diff = ["r." + k for k in o["state"] if (real.get("r") or {}).get(k) != o["state"].get(k)] if "r" in real else ["err"]
                problems.append(f"reader state != stateOf L: {sorted(diff)}; impl={_short(real, diff + ['err'])} spec={_short({'r': o['state']}, diff)}")
            want = ([[_cps(n), list(d)] for n, kk, d in ms if kk == "file" and d] + [[_cps(n), []] for n, kk, d in ms if kk == "file" and not d])
            if real.get("writes") != want and "r" in real:
                problems.append("extractall of the Lean-written archive did not write the packed files with their own bytes")
        if problems:
            bad += 1
            if bad <= 6:
                broken.append(Broken("correspondence", "c10.write_header", f"{tag} groups={gs} coders={coders} opts={opts}: " + "; ".join(problems), case=case))
    if cases:
        ctx.sample({"op": "c10.write_header", "layout": {"groups": cases[0][1], "coders": cases[0][2], "opts": cases[0][3]},
                    "header_bytes": len(outs[0].get("header", [])), "wf": outs[0].get("wf")})
    ctx.coverage["writer_mismatches"] = bad


def _short(d, keys):
    out = {}
    for k in keys:
        if k.startswith("r."):
            out[k] = (d.get("r") or {}).get(k[2:]) if isinstance(d.get("r"), dict) else None
        elif k != "r":
            out[k] = d.get(k)
    return json.dumps(out, default=repr)[:600]


def _ser_members(ms):
    return [[n, k, d.hex()] for n, k, d in ms]


def _de_members(ms):
    return [(n, k, bytes.fromhex(h)) for n, k, h in ms]


@contextlib.contextmanager
def _route_recorder():
    from sharepoint2text.parsing.extractors import archive_extractor as ax
    rec = []
    saved = (ax._extract_from_zip_optimized, ax._extract_from_7z_optimized, ax._extract_from_tar_optimized)
    ax._extract_from_zip_optimized = lambda f, p: (rec.append("zip"), iter(()))[1]
    ax._extract_from_7z_optimized = lambda f, p: (rec.append("7z"), iter(()))[1]
    ax._extract_from_tar_optimized = lambda f, p, mode="r:*": (rec.append(["tar", _cps(mode)]), iter(()))[1]
    try:
        yield rec
    finally:
        ax._extract_from_zip_optimized, ax._extract_from_7z_optimized, ax._extract_from_tar_optimized = saved


def _detect_prefixes(ctx):
    rng = ctx.rng
    out = []
    magics = [b"PK\x03\x04", b"PK\x05\x06", b"7z\xbc\xaf\x27\x1c", b"\x1f\x8b", b"BZ", b"BZh9", b"\xfd7zXZ\x00", b"PK", b"7z", b"", b"ustar"]
    for _ in range(ctx.n(150, 3000)):
        m = rng.choice(magics)
        body = bytearray(m + bytes(rng.randrange(256) for _ in range(rng.choice([0, 1, 5, 100, 260, 300, 600]))))
        if rng.random() < 0.4 and len(body) >= 262:
            body[257:262] = b"ustar" if rng.random() < 0.8 else b"ustaR"
        if rng.random() < 0.1 and body:
            body[rng.randrange(min(len(body), 8))] ^= 1 << rng.randrange(8)
        out.append(bytes(body))
    # real first blocks of tar archives whose first member name starts like a signature
    for name in ("BZnotes.txt", "PK\x03\x04.txt", "7z¼.txt", "a.txt", "\x1f\x8b.md"):
        b = io.BytesIO()
        with tarfile.open(fileobj=b, mode="w", format=rng.choice([tarfile.PAX_FORMAT, tarfile.GNU_FORMAT, tarfile.USTAR_FORMAT])) as t:
            ti = tarfile.TarInfo(name)
            ti.size = 3
            t.addfile(ti, io.BytesIO(b"abc"))
        out.append(b.getvalue()[:700])
    return out


def _corr_detect(ctx, broken):
    from sharepoint2text.parsing.extractors import archive_extractor as ax
    prefixes = _detect_prefixes(ctx)
    reqs, reals = [], []
    for p in prefixes:
        t = ax._detect_archive_type_optimized(io.BytesIO(p))
        with _route_recorder() as rec:
            try:
                list(ax.read_archive(io.BytesIO(p), path="x"))
            except Exception:
                pass
        route = rec[0] if rec else (None if t is None else "unsupported")
        reals.append({"t": _cps(t) if t is not None else None, "route": route})
        reqs.append({"op": "c10.detect", "b": list(p[:600])})
    outs = ctx.drive(reqs)
    bad = 0
    for p, rl, o in zip(prefixes, reals, outs):
        ctx.case(("detect", p), nontrivial=bool(p))
        ctx.count("detect/" + ("".join(map(chr, rl["t"])) if rl["t"] else "none"))
        if o != rl:
            bad += 1
            if bad <= 5:
                broken.append(Broken("correspondence", "c10.detect", f"impl={rl} model={o}", case={"kind": "prefix", "hex": p.hex()}))


# archives for the member loops -----------------------------------------------------------------
def _build_zip(rng, members, method):
    b = io.BytesIO()
    with zipfile.ZipFile(b, "w", method) as z:
        for n, k, d in members:
            z.writestr(n + "/" if k == "dir" else n, d)
    return b.getvalue()


def _build_tar(rng, members, comp):
    b = io.BytesIO()
    with tarfile.open(fileobj=b, mode="w:" + comp if comp else "w", format=rng.choice([tarfile.PAX_FORMAT, tarfile.GNU_FORMAT])) as t:
        for n, k, d in members:
            ti = tarfile.TarInfo(n)
            if k == "dir":
                ti.type = tarfile.DIRTYPE
                t.addfile(ti)
            else:
                ti.size = len(d)
                t.addfile(ti, io.BytesIO(d))
    return b.getvalue()


def _archive_variants():
    return ([("zip", "stored"), ("zip", "deflated"), ("tar", ""), ("tar", "gz"), ("tar", "bz2"), ("tar", "xz"), ("7z", None)])


def _build_archive(rng, members, fmt, sub, spec=None):
    """-> (bytes, archive path, spec for replay, layout tag)"""
    if fmt == "zip":
        return _build_zip(rng, members, zipfile.ZIP_STORED if sub == "stored" else zipfile.ZIP_DEFLATED), "dir/arch.zip", {"sub": sub}, sub
    if fmt == "tar":
        return _build_tar(rng, members, sub), "dir/arch.tar" + ("." + sub if sub else ""), {"sub": sub}, sub or "plain"
    if spec is not None:
        return W.build_7z(members, spec["groups"], spec["coders"], **spec["opts"]), "dir/arch.7z", spec, "replay"
    data, spec, tag = _build_7z(rng, members)
    return data, "dir/arch.7z", spec, tag


def _names_exts(members, ap):
    from sharepoint2text.parsing.router import is_supported_file
    names, exts, alone = {}, [], {}
    for n, k, d in members:
        if k != "file":
            continue
        base = os.path.basename(n)
        try:
            sup = bool(is_supported_file(base))
        except Exception:
            sup = False
        back = False
        if sup:
            try:
                from sharepoint2text.parsing.extractors.archive_extractor import read_archive as _ra
                from sharepoint2text.parsing.router import get_extractor
                back = get_extractor(base) is _ra
            except Exception:
                back = False
        names[base] = {"base": _cps(base), "lower": _cps(base.lower()), "sup": sup, "back": back}
        res, raised = _alone(n, d, ap)
        label = f"{ap}!/{n}" if ap else n
        alone[label] = res
        exts.append({"path": _cps(label), "base": _cps(base), "data": list(d), "n": len(res), "raised": raised})
    return list(names.values()), exts, alone


def _loop_request(fmt, data, members, ap, sub=None):
    """model request for one archive (member list as zipfile/tarfile report it) + table of alone results"""
    names, exts, alone = _names_exts(members, ap)
    rq = {"names": names, "exts": exts, "ap": _cps(ap) if ap is not None else None}
    if fmt == "zip":
        ms = []
        with zipfile.ZipFile(io.BytesIO(data)) as z:
            for info in z.infolist():
                m = {"name": _cps(info.filename), "dir": info.is_dir(), "flags": info.flag_bits, "size": info.file_size}
                try:
                    m.update(read="data", data=list(z.read(info)))
                except RuntimeError:
                    m.update(read="runtime")
                except zipfile.BadZipFile:
                    m.update(read="badzip")
                except Exception:
                    m.update(read="other")
                ms.append(m)
        rq.update(op="c10.zip", members=ms, head=list(data[:600]))
    elif fmt == "tar":
        ms = []
        with tarfile.open(fileobj=io.BytesIO(data), mode="r:*") as t:
            for mem in t.getmembers():
                m = {"name": _cps(mem.name), "reg": mem.isreg(), "size": mem.size}
                try:
                    f = t.extractfile(mem) if mem.isreg() else None
                    if f is None:
                        m.update(read="none")
                    else:
                        m.update(read="data", data=list(f.read()))
                except Exception:
                    m.update(read="raised")
                ms.append(m)
        rq.update(op="c10.tar", members=ms, head=list(data[:600]), comp=sub or "")
    else:
        rq.update(op="c10.seven", file=list(data), codec=[])   # codec answers are recorded from the real run by the caller
    return rq, alone


def _corr_loops(ctx, broken):
    rng = ctx.rng
    reqs, metas = [], []
    for i in range(ctx.n(280, 2800)):
        fmt, sub = _archive_variants()[i % 7]
        members = _members(rng, rng.choice([0, 1, 2, 3, 4, 5, 7]), None)
        data, ap, spec, tag = _build_archive(rng, members, fmt, sub)
        if rng.random() < 0.1:
            ap = rng.choice([None, ""])
        if fmt == "zip" and rng.random() < 0.08 and members:
            data = _set_zip_encrypted_flag(data)
        if len(data) > 24000:
            ctx.count("loop/skipped-large")
            continue
        try:
            rq, alone = _loop_request(fmt, data, members, ap, sub)
        except _Skip as e:
            ctx.count(f"loop/skipped-{e}")
            continue
        if fmt == "7z":
            try:   # record what the decoder answered to exactly the calls the real read_archive made
                with _instrumented(fs=False) as (log, _w, _c):
                    got, term = _read_archive(data, ap)
            except _Skip as e:
                ctx.count(f"loop/skipped-{e}")
                continue
            rq["codec"] = log
        else:
            got, term = _read_archive(data, ap)
        reqs.append(rq)
        metas.append((fmt, sub, tag, data, ap, members, spec, alone, got, term))
    outs = ctx.drive(reqs)
    bad = 0
    for (fmt, sub, tag, data, ap, members, spec, alone, got, term), o in zip(metas, outs):
        ctx.case(("loop", fmt, data), nontrivial=any(k == "file" and d for _, k, d in members))
        ctx.count(f"loop/{fmt}/{tag}/" + (term or f"ok-{min(len(got), 3)}{'+' if len(got) > 3 else ''}-results"))
        problem = None
        if "drv_error" in o:
            problem = "driver: " + o["drv_error"]
        elif o["t"] != term:
            problem = f"terminal impl={term} model={o['t']}"
        else:
            pred = []
            for p, j in o["y"]:
                label = "".join(map(chr, p))
                lst = alone.get(label)
                pred.append((label, lst[j] if lst is not None and j < len(lst) else "<unknown>"))
            if pred != got:
                problem = f"results impl={[g[0] for g in got]} model={[p[0] for p in pred]}" if [g[0] for g in got] != [p[0] for p in pred] \
                    else "same labels, different content"
        if problem:
            bad += 1
            if bad <= 8:
                broken.append(Broken("correspondence", rqop(fmt), f"{fmt}/{tag}: {problem}",
                                     case={"kind": "archive", "fmt": fmt, "sub": sub, "ap": ap, "members": _ser_members(members), "spec": spec if fmt == "7z" else None}))
    if metas:
        m = metas[len(metas) // 2]
        ctx.sample({"op": rqop(m[0]), "format": m[0], "layout": m[2], "archive_path": m[4], "members": [x[0] for x in m[5]],
                    "impl_results": [g[0] for g in m[8]], "impl_terminal": m[9]})
    ctx.coverage["loop_mismatches"] = bad


def rqop(fmt):
    return {"zip": "c10.zip", "tar": "c10.tar", "7z": "c10.seven"}[fmt]


def _set_zip_encrypted_flag(data: bytes) -> bytes:
    """set bit 0 of the general purpose flags of the last member (local + central header)"""
    b = bytearray(data)
    i = b.rfind(b"PK\x01\x02")
    if i < 0:
        return data
    b[i + 8] |= 1
    (lho,) = struct.unpack("<I", b[i + 42:i + 46])
    if b[lho:lho + 4] == b"PK\x03\x04":
        b[lho + 6] |= 1
    return bytes(b)


def correspondence(ctx):
    import tempfile
    broken, violations = [], []
    with tempfile.TemporaryDirectory(prefix="s2t_c10_") as tmp:
        _corr_numbers(ctx, broken)
        _corr_detect(ctx, broken)
        _corr_sevenzip(ctx, broken, tmp)
        _corr_writer(ctx, broken, tmp)
        _corr_loops(ctx, broken)
        H.correspondence(ctx, broken)      # sequences of reads in this one process (shared members, paths, reads in flight)
    return {"broken": broken, "violations": violations}


# ------------------------------------------------------------------------------------------- oracle of the property
def _visible_supported(name: str) -> bool:
    """the statement's `supported visible member` (independent wording of the rule)"""
    from sharepoint2text.parsing.router import is_supported_file
    base = name.rsplit("/", 1)[-1]
    if base.startswith(".") or name.startswith("__MACOSX/"):
        return False
    low = base.lower()
    if low.endswith((".zip", ".tar", ".tar.gz", ".tgz", ".tar.bz2", ".tbz2", ".tar.xz", ".txz", ".7z", ".gz", ".bz2", ".xz")):
        return False   # archives inside archives are not unpacked (C09/C11)
    try:
        return bool(is_supported_file(base))
    except Exception:
        return False


def _expected(members, ap):
    exp = []
    for n, k, d in members:
        if k != "file" or not _visible_supported(n):
            continue
        res, _ = _alone(n, d, ap)
        label = f"{ap}!/{n}" if ap else n
        exp += [(label, c) for c in res]
    return exp


def _diff_kind(exp, got, term, members, ap):
    if term is not None:
        return "archive-fails"
    el, gl = [e[0] for e in exp], [g[0] for g in got]
    if el != gl:
        missing = [x for x in el if x not in gl]
        if missing and [x for x in el if x in gl] == gl:
            empt = {(f"{ap}!/{n}" if ap else n) for n, k, d in members if k == "file" and not d}
            return "empty-file-dropped" if set(missing) <= empt else "member-dropped"
        return "wrong-members-or-order"
    return "wrong-content"


def _check_archive(fmt, sub, members, ap, data, spec):
    """-> None if the property holds on this archive, else (key, what)"""
    exp = _expected(members, ap)
    got, term = _read_archive(data, ap)
    if term is None and got == exp:
        return None
    kind = _diff_kind(exp, got, term, members, ap)
    if term is not None and not members:
        kind = "empty-archive-fails"
    layout = ("multi-folder" if len(spec["groups"]) > 1 else "") if fmt == "7z" else (sub or "plain")
    key = f"{fmt}.{kind}" + (f".{layout}" if layout else "")
    names = [n for n, _, _ in members]
    tag = (f"groups={spec['groups']} coders={spec['coders']}" if fmt == "7z" else (sub or "plain"))
    what = (f"read_archive({fmt} {tag}, members={names!r}) "
            + (f"raised {term}" if term else f"returned {[g[0] for g in got]!r}") + f"; expected results of {[e[0] for e in exp]!r}"
            + ("" if [e[0] for e in exp] != [g[0] for g in got] or term else " with other contents"))
    return key, what[:900]


def _payload(fmt, sub, members, ap, spec):
    return {"fmt": fmt, "sub": sub, "ap": ap, "members": _ser_members(members), "spec": spec if fmt == "7z" else None}


def _shrink(fmt, sub, members, ap, spec, rng):
    """greedy removal of members while the archive still fails (7z: re-laid out one folder per file / solid)"""
    def fails(ms, sp):
        try:
            data, _, _, tag = _build_archive(rng, ms, fmt, sub, sp)
        except Exception:
            return None
        return _check_archive(fmt, sub, ms, ap, data, sp)
    cur, cur_spec = list(members), spec
    changed = True
    while changed and len(cur) > 1:
        changed = False
        for i in range(len(cur)):
            cand = cur[:i] + cur[i + 1:]
            sp = cur_spec
            if fmt == "7z":
                k = sum(1 for (_, kk, d) in cand if kk == "file" and d)
                multi = len(cur_spec["groups"]) > 1
                gs = ([1] * k if multi else ([k] if k else []))
                c0 = (cur_spec["coders"] or ["copy"])[0]
                sp = {"groups": gs, "coders": [c0] * len(gs), "opts": cur_spec["opts"]}
            if fails(cand, sp):
                cur, cur_spec, changed = cand, sp, True
                break
    return cur, cur_spec


def _oracle_run(ctx, n, seeds=()):
    rng = ctx.rng
    found = {}

    def consider(fmt, sub, members, ap, spec, data, tag):
        r = _check_archive(fmt, sub, members, ap, data, spec)
        if r and r[0] not in found:
            ms, sp = _shrink(fmt, sub, members, ap, spec, rng)
            d2, _, _, _ = _build_archive(rng, ms, fmt, sub, sp if fmt == "7z" else None)
            r2 = _check_archive(fmt, sub, ms, ap, d2, sp) or r
            found[r[0]] = Violation(r[0], r2[1], _payload(fmt, sub, ms, ap, sp))

    for c in seeds:   # broken correspondence cases first
        try:
            members = _de_members(c["members"])
            fmt = c.get("fmt", "7z")
            sub = c.get("sub")
            spec = c.get("spec")
            data, ap, spec2, tag = _build_archive(rng, members, fmt, sub, spec)
            consider(fmt, sub, members, c.get("ap") or ap, spec or spec2, data, tag)
        except Exception:
            continue
    # coder parameters: every dictionary index 0..pmax x LZMA / LZMA2 swept, a block repeated at 70-97 % of the dictionary
    pmax = ctx.n(11, 14)
    for j in range(max(2 * (pmax + 1), n // 8)):
        members, spec, tag = _far_case(rng, ["lzma2", "lzma"][(j // (pmax + 1)) % 2], j % (pmax + 1))
        data, ap, spec, _ = _build_archive(rng, members, "7z", None, spec)
        consider("7z", None, members, ap, spec, data, tag)
    for i in range(n):
        fmt, sub = _archive_variants()[i % 7] if i % 2 else ("7z", None)
        members = _members(rng, rng.choice([1, 2, 3, 4, 6]), None, small=(i % 5 != 0))
        data, ap, spec, tag = _build_archive(rng, members, fmt, sub)
        consider(fmt, sub, members, ap, spec, data, tag)
    return list(found.values())


def _open_known_keys():
    keys = set()
    try:
        with open(os.path.join(os.path.dirname(os.path.abspath(__file__)), "..", "..", "known_findings.jsonl")) as fh:
            for line in fh:
                line = line.strip()
                if line and not line.startswith("#"):
                    k = json.loads(line)
                    if k.get("property") == "C10" and k.get("status", "open") == "open":
                        keys.add(k["key"])
    except OSError:
        pass
    return keys


def search(ctx, broken):
    """failing inputs of the property itself; open known findings are not an answer to a broken obligation"""
    seeds = [b.case for b in broken if b.case and b.case.get("members")]
    known = _open_known_keys()
    out = [v for v in known_witnesses(ctx) if v.key not in known]
    keys = {v.key for v in out}
    single = [v for v in _oracle_run(ctx, ctx.n(160, 2000), seeds) if v.key not in keys and v.key not in known]
    keys |= {v.key for v in single}
    # process histories: the statement judged on every read of a session, each reported session confirmed in a fresh process
    sessions = [b.case for b in broken if isinstance(b.case, dict) and b.case.get("kind") == "session"]
    hist = [v for v in H.oracle_run(ctx, ctx.n(120, 1200), sessions) if v.key not in keys and v.key not in known]
    # this process has a history (the correspondence ran in it): a single archive that fails HERE but not as the only thing
    # a fresh process reads is a finding about the history (reported by the session oracle), and its replay file would hold
    kept = []
    for v in single[:8]:
        if H.fails_fresh(v.replay) is not None:
            kept.append(v)
        else:
            ctx.count("search/single-archive-failure-only-after-history")
    single = kept
    return out + single + hist


def replay(ctx, payload):
    rep = payload.get("replay", {})
    if rep.get("kind") == "session":
        return H.replay(ctx, rep)
    if "members" not in rep:
        return False, "replay names a broken obligation, not an input: " + payload.get("what", "")
    members = _de_members(rep["members"])
    data, ap0, _, _ = _build_archive(ctx.rng, members, rep["fmt"], rep.get("sub"), rep.get("spec"))
    r = _check_archive(rep["fmt"], rep.get("sub"), members, rep.get("ap", ap0), data, rep.get("spec"))
    return (r is None), (r[1] if r else "property holds on the recorded archive")


def _far_witness():
    import random
    r = random.Random(10)
    blk = _noise(r, 300)
    return [("far/first0.txt", "file", (blk + "\n").encode()), ("far/between1.txt", "file", _noise(r, 5200).encode()),
            ("far/again2.txt", "file", ("again " + blk + "\n").encode())]


_WIN = {"encode_header": None, "attrs": "win", "mtime": False, "dummy": 0, "with_pack_crc": False, "always_num_streams": False, "names_first": False}
WITNESSES = [
    # (key, fmt, sub, members, spec) — the counterexample theorems of Props/C10.lean, replayed on the real code
    ("7z.multi-folder-first-pack-stream", "7z", None, [("a.txt", "file", b"alpha alpha"), ("b.txt", "file", b"bravo!")],
     {"groups": [1, 1], "coders": ["copy", "copy"], "opts": _WIN}),
    ("7z.empty-file-dropped", "7z", None, [("e.txt", "file", b""), ("a.txt", "file", b"alpha")],
     {"groups": [1], "coders": ["copy"], "opts": _WIN}),
    ("7z.non-bmp-name-aborts-archive", "7z", None, [("a.txt", "file", b"alpha"), ("s\U0001F600.txt", "file", b"smile")],
     {"groups": [2], "coders": ["copy"], "opts": _WIN}),
    # defects found by the header round-trip proof and repaired (legacy counterexample theorems of Props/C10_Header.lean)
    ("7z.substream-digests-with-folder-crc", "7z", None,
     [("a.txt", "file", b"alpha"), ("b.txt", "file", b"bravo!"), ("c.txt", "file", b"charlie")],
     {"groups": [1, 2], "coders": ["copy", "copy"], "opts": dict(_WIN, folder_crc=True)}),
    ("7z.attributes-external-byte-not-read", "7z", None, [("x.txt", "file", b"x-ray"), ("y.txt", "file", b"yankee")],
     {"groups": [2], "coders": ["copy"], "opts": dict(_WIN, attr_values=[0x10000020, 0x20])}),
    # lzma2Dict_without_mantissa_counterexample: a 6 KiB dictionary (property byte 1), a block repeated 5.4 KiB later
    ("7z.lzma2-dictionary-3x2n", "7z", None, _far_witness(), {"groups": [3], "coders": ["lzma2:1"], "opts": _WIN}),
    ("tar.first-member-name-shadows-magic", "tar", "", [("BZnotes.txt", "file", b"bravo zulu"), ("b.txt", "file", b"bravo")], None),
    # open known finding: an empty plain tar is 10240 zero bytes, there is nothing to detect it by
    ("tar.empty-archive-fails.plain", "tar", "", [], None),
]


def known_witnesses(ctx):
    """the witnesses of the six repaired defects (counterexample theorems) and of the open known finding, re-run on the
    real code every run"""
    out = []
    for key, fmt, sub, members, spec in WITNESSES:
        data, ap, _, _ = _build_archive(ctx.rng, members, fmt, sub, spec)
        r = _check_archive(fmt, sub, members, ap, data, spec)
        ctx.count("witness/" + key + ("/fails" if r else "/holds"))
        if r:
            # this process has a history by now: report the witness only if it fails as the only thing a fresh process reads
            # (what --replay will do); a failure that needs the history is the session oracle's finding
            if H.fails_fresh(_payload(fmt, sub, members, ap, spec)) is None:
                ctx.count("witness/" + key + "/fails-only-after-history")
                continue
            out.append(Violation(key, r[1], _payload(fmt, sub, members, ap, spec)))
    return out + H.known_witnesses(ctx)
