"""C06 — determinism, purity, idempotent observation."""
from __future__ import annotations

import base64
import copy
import hashlib
import io
import json
import os
import subprocess
import sys
import tempfile

import corpus
from run import Broken, Violation, VERIF, REPO

GEN = ["Effects", "ModState", "Ambient", "Observers", "ModCells", "ValueKinds", "Sched"]
RULE = ("cases = (fixture or generated document x hash seed) digests in fresh interpreters + (result x random observer "
        "sequence) + (payload stream x random op sequence vs the Lean stream model) + repeat/in-place checks (all framing "
        "variants: bytes in front of / behind the document) with a frame check of every process-global cell + (document x "
        "history): declare/use pairs, fixtures and variants extracted in opposite orders in fresh interpreters, each twice "
        "+ (BytesIO x random read/write op sequence vs the Lean input-buffer model) + dict.setdefault overlay model "
        "+ (document x environment): every digest interpreter has its own (hash seed, FAKED wall clock, time zone), the two in-process "
        "extractions of one buffer run under two faked clocks, a difference is pinned to one coordinate "
        "+ OPC packages with parts at non-default names reached through relationships (core / extended properties moved, stale, "
        "dangling, unreferenced, absent x created / modified stated or not; main part and children renamed) and every optional "
        "metadata member of one document per format dropped on its own (XLSX dates vs the Lean guard model) "
        "+ (result x accessor-call sequence): every public accessor of the result and of the package objects reachable from it "
        "with EVERY argument combination (introspected), followed by the defaults and the same request again, each answer "
        "compared with the answer on a pristine result; payload streams consumed after all were collected; generated decks with "
        "alt texts present / empty / absent; PptxSlide.get_text argument sequences vs the Lean slide-text model; "
        "+ (document x byte-order mark): one document per text extension re-encoded as UTF-8-BOM / UTF-16 LE / BE / UTF-32 and generated marked HTML, "
        "and workbooks over the alphabet of cell values (uncached plain / array / data-table formulas, rich text, durations, errors): in every digest "
        "environment, repeated in process with the allocator perturbed in between, and in the history set, where EVERY document is also compared "
        "with what it yields in a forked child of the still pristine interpreter (nothing extracted before); "
        "distinct = distinct (input, seed) / (input, sequence) pairs; non-trivial = result has units/images/tables or "
        "the sequence contains at least two different observers")
ASSUMPTIONS = [
    "thread-schedule dependence is searched by repeating the extraction of many-member archives under different interpreter switch intervals with a competing thread (probabilistic; needs >= 2 CPUs); the closed world is the concurrency inventory of tools/gen/sched.py (names resolved through imports; a pool obtained from a third-party helper is not seen)",
    "interpreter-wide settings: probes exist for the recursion limit only (documents nested 1500 … 24000 deep); other settings are covered by the source inventory and the interpreter-cell frame",
    "third-party parsers are deterministic (only sampled: digests across PYTHONHASHSEED values and fresh processes)",
    "the AST inventories of tools/gen/effects.py find every set-to-ordered conversion, observer-side write, input-stream method and id()/hash() use (local type inference for sets)",
    "io.BytesIO semantics as modelled in S2T/Model/Observe.lean and S2T/Model/InputStream.lean (tied by correspondence on real streams)",
    "tools/gen/modstate.py finds every non-read use of a module-/class-level mutable container (AST + runtime types; callees a table is passed to are reviewed by hand); harness/workers/c06_state.py fingerprints every such cell around each extraction",
    "process state outside the package and outside the sampled interpreter registries (third-party module globals) is not fingerprinted",
    "harness/workers/c06_clock.py replaces every Python-level read of the wall clock (datetime/date classes incl. from-imports, time.time/time_ns/localtime/gmtime/ctime/asctime/strftime); a C extension calling the OS clock directly is not faked — it would show only through the real-clock control environment and the ambient-read inventory",
    "openpyxl takes core properties from its constant ARC_CORE only and fills missing dates from the clock (read from the installed openpyxl's AST by tools/gen/ambient.py; tied by the XLSX relocation matrix vs S2T.CoreDates.dates)",
    "tools/gen/ambient.py recognises the clock / zone / randomness / process / temp-name / file-system reads it lists by dotted name (an alias such as `n = datetime.now; n()` is followed only through imports)",
    "tools/gen/modcells.py classifies module-/class-level values, defaults and elements of module-level containers by runtime type (iterator / stream / rng / lock / instance); state held in closures, in third-party modules or behind C-level objects without __next__/tell/getstate is not seen",
    "tools/gen/valuekinds.py: the kinds of cell values a load_workbook call site hands out are those the installed openpyxl hands out for the probe workbook under the flags written at the site (read through iter_rows(values_only=True)); flags that are not literals are a translator note",
    "one image object (or a unit's view of it) asked twice for its bytes hands out the same rewound stream (S2T.Observe.getBytes): consuming an earlier handed-out stream after asking again is the caller's aliasing, not judged",
]
TRUSTED = ["tools/gen/effects.py, tools/gen/modstate.py, tools/gen/ambient.py, tools/gen/observers.py, tools/gen/sched.py (AST inventories)", "harness/workers/c06_state.py (cell fingerprints)",
           "harness/workers/c06_clock.py (faked wall clock)", "harness/props/c06_observe.py (accessor introspection, rendering)"]

OBS = ["full_text", "units", "images", "tables", "metadata", "to_json"]


def _canon(x):
    return json.dumps(x, sort_keys=True, default=repr)


def _observe(r, what):
    """run one observer completely; return a canonical, comparable rendering of what it returned"""
    from sharepoint2text.parsing.extractors.serialization import serialize_extraction
    if what == "full_text":
        return r.get_full_text()
    if what == "units":
        out = []
        for u in r.iterate_units():
            out.append([u.get_text(), _canon(serialize_extraction(u, include_binary=True)),
                        [_canon(serialize_extraction(i, include_binary=True)) for i in u.get_images()] if hasattr(u, "get_images") else None,
                        _canon(serialize_extraction(u.get_metadata(), include_binary=True)) if hasattr(u, "get_metadata") else None])
        return out
    if what == "images":
        out = []
        for i in r.iterate_images():
            b = i.get_bytes()
            head = b.read(7)
            out.append([base64.b64encode(head).decode(), i.get_content_type(), _canon(serialize_extraction(i.get_metadata(), include_binary=True))])
        return out
    if what == "tables":
        return [[_canon(t.get_table()), repr(t.get_dim())] for t in r.iterate_tables()]
    if what == "metadata":
        return _canon(serialize_extraction(r.get_metadata(), include_binary=True))
    if what == "to_json":
        return _canon(r.to_json())
    raise KeyError(what)


_DATA = {}


def _results_of(name, data):
    _DATA[name] = data
    ft = corpus.file_type_of(name)
    from sharepoint2text.parsing import router
    if ft is None:
        return None
    m, f = router._EXTRACTOR_REGISTRY[ft]
    r = corpus.run_extractor(corpus.extractor(m, f), data, path=name)
    return r[1] if r[0] == "ok" else None


def _full_json(r):
    from sharepoint2text.parsing.extractors.serialization import serialize_extraction
    return _canon(serialize_extraction(r, include_binary=True))


sys.path.insert(0, os.path.join(VERIF, "harness", "workers"))
import c06_state  # noqa: E402
import c06_clock  # noqa: E402
from props import c06_env, c06_observe  # noqa: E402

_VOLATILE = None


def _volatile(ctx):
    """cells the Lean side (S2T.Spec.C06Cells.volatileCells) lets change during an extraction"""
    global _VOLATILE
    if _VOLATILE is None:
        try:
            _VOLATILE = sorted(set(ctx.drive([{"op": "c06.cells"}])[0]["volatile"]))
        except Exception:
            _VOLATILE = []
    return _VOLATILE


def _framing_variants(ctx, fx, per_ext=None):
    """accepted documents with bytes in front of / behind them (one small fixture per extension)"""
    from builders import c06_decls
    rng = ctx.rng
    by_ext = {}
    for n, d in fx:
        ext = os.path.splitext(n)[1].lower()
        if "password" in n or not corpus.file_type_of(n) or len(d) > 200_000:
            continue
        if ext not in by_ext or len(d) < len(by_ext[ext][1]):
            by_ext[ext] = (n, d)
    out = []
    for ext in sorted(by_ext):
        name, data = by_ext[ext]
        if not _results_of(name, data):
            continue
        cands = list(c06_decls.framings(rng, name, data))
        if per_ext is not None and len(cands) > per_ext:
            keep = [c for c in cands if c[0] in ("pre-bom-crlf", "pre-pad1019")]
            rest = [c for c in cands if c[0] not in ("pre-bom-crlf", "pre-pad1019")]
            cands = keep + rng.sample(rest, per_ext - len(keep))
        root, e = os.path.splitext(name)
        for kind, b in cands:
            ctx.count("framing/tried")
            if _results_of(name, b):
                ctx.count("framing/accepted/" + ext.lstrip("."))
                out.append((f"{root}~frame-{kind}{e}", b))
    return out


def _encoding_variants(ctx, fx):
    """the smallest UTF-8 decodable fixture of every extension under every byte-order mark (those the extractor
    accepts) + generated marked HTML documents"""
    from builders import c06_kinds
    by_ext = {}
    for n, d in fx:
        ext = os.path.splitext(n)[1].lower()
        if "password" in n or not corpus.file_type_of(n) or len(d) > 60_000:
            continue
        if ext not in by_ext or len(d) < len(by_ext[ext][1]):
            if any(True for _ in c06_kinds.encodings(n, d)):
                by_ext[ext] = (n, d)
    out = []
    for ext in sorted(by_ext):
        name, data = by_ext[ext]
        root, e = os.path.splitext(name)
        for kind, b in c06_kinds.encodings(name, data):
            ctx.count("encoding/tried")
            if _results_of(name, b):
                ctx.count("encoding/accepted/" + ext.lstrip("."))
                out.append((f"{root}~enc-{kind}{e}", b))
    out += [(n, d) for n, d in c06_kinds.marked_html(ctx.rng) if _results_of(n, d)]
    # ODF packages with images whose optional frame names are absent (fallback names are made up by the extractor)
    per = {}
    for n, d in sorted(fx, key=lambda x: len(x[1])):
        ext = os.path.splitext(n)[1].lower()
        if ext in (".odt", ".odp", ".ods", ".odg") and len(d) < 600_000 and per.get(ext, 0) < 2 and "password" not in n:
            b = c06_kinds.odf_unnamed(d)
            if b is not None and _results_of(n, b):
                per[ext] = per.get(ext, 0) + 1
                ctx.count("unnamed/" + ext.lstrip("."))
                out.append((os.path.splitext(n)[0] + "~unnamed" + ext, b))
    return out


def _cell_kind_docs(ctx):
    from builders import c06_kinds
    return [(n, d) for n, d in c06_kinds.xlsx_kinds(ctx.rng) if _results_of(n, d)]


def _pair_docs(ctx, rounds):
    """[(tag, (nameA, bytesA), (nameB, bytesB))] with unique names"""
    from builders import c06_decls
    out = []
    for i, (tag, (na, a), (nb, b)) in enumerate(c06_decls.pairs(ctx.rng, rounds)):
        out.append((tag, (f"generated/pair{i}~{na}", a), (f"generated/pair{i}~{nb}", b)))
    return out


def _run_history_workers(jobs):
    """jobs: [{"docs": [[name, path]], "order": [...], "pass2": bool, "volatile": [...]}] -> list of answers (None on failure)"""
    worker = os.path.join(VERIF, "harness", "workers", "c06_history.py")
    outs = [None] * len(jobs)
    for lo in range(0, len(jobs), 8):
        procs = []
        for k, job in enumerate(jobs[lo: lo + 8]):
            # one faked wall clock for every history worker: a clock dependence is the environment check's finding
            # (c06.clock), it must not look like a dependence on the documents extracted before
            env = dict(os.environ, PYTHONHASHSEED="0", S2T_REPO=REPO, PYTHONPATH=REPO, S2T_FAKE_CLOCK="1500000000.5")
            p = subprocess.Popen(["/venv/bin/python", worker], stdin=subprocess.PIPE, stdout=subprocess.PIPE, stderr=subprocess.DEVNULL, env=env)
            p.stdin.write(json.dumps(job).encode())
            p.stdin.close()
            procs.append((lo + k, p))
        for k, p in procs:
            out = p.stdout.read()
            p.wait()
            try:
                outs[k] = json.loads(out)
            except Exception:
                outs[k] = None
    return outs


def _doc_ref(name, data):
    """how a replay file names a document: a repository fixture by path, anything else by content"""
    p = os.path.join(corpus.RES, name)
    if os.path.exists(p) and "~" not in name and not name.startswith("generated/"):
        return {"name": name, "fixture": name}
    return {"name": name, "data_b64": base64.b64encode(data).decode()}


def _doc_bytes(ref):
    if "data_b64" in ref:
        return base64.b64decode(ref["data_b64"])
    with open(os.path.join(corpus.RES, ref["fixture"]), "rb") as fh:
        return fh.read()


def _history_digests(td, seqs, volatile=()):
    """seqs: list of lists of (name, bytes); each list is extracted in order in its own fresh interpreter.
    Returns per list the worker answer."""
    jobs = []
    for k, seq in enumerate(seqs):
        docs = []
        for i, (name, data) in enumerate(seq):
            # the path is part of the result (metadata): one document = one path in every sequence
            p = os.path.join(td, "doc_" + hashlib.sha1(name.encode()).hexdigest()[:10] + "_" + os.path.basename(name).replace("~", "_"))
            if not os.path.exists(p):
                with open(p, "wb") as fh:
                    fh.write(data)
            docs.append([name, p])
        jobs.append({"docs": docs, "order": list(range(len(docs))), "pass2": False, "volatile": list(volatile), "fresh": False})
    return _run_history_workers(jobs)


def _pin_history(td, target, candidates, cap=24):
    """find a concrete history: documents `before` such that `target` yields something else after them than in a
    fresh interpreter.  Returns (before_list, fresh_digest, after_digest) or None."""
    fresh = _history_digests(td, [[target]])[0]
    if not fresh:
        return None
    f = fresh["pass1"].get(target[0])
    cands = [c for c in candidates if c[0] != target[0]][:cap]
    outs = _history_digests(td, [[c, target] for c in cands])
    for c, o in zip(cands, outs):
        if o and o["pass1"].get(target[0]) != f:
            return [c], f, o["pass1"].get(target[0])
    if len(cands) > 1:
        o = _history_digests(td, [cands + [target]])[0]
        if o and o["pass1"].get(target[0]) != f:
            return cands, f, o["pass1"].get(target[0])
    return None


def _history(ctx, docs, suspects_first=()):
    """(document x history): every document must yield the same whatever was extracted before it in the process.
    Two (thorough: four) fresh interpreters extract the set in opposite (and shuffled) orders, each document
    once more after the whole set; every process-global cell is fingerprinted around each extraction."""
    broken = []
    if not docs:
        return broken
    vol = _volatile(ctx)
    by_name = dict(docs)
    with tempfile.TemporaryDirectory(prefix="s2t_c06h_") as td:
        paths = []
        for i, (name, data) in enumerate(docs):
            p = os.path.join(td, f"d{i}_" + os.path.basename(name).replace("~", "_"))
            with open(p, "wb") as fh:
                fh.write(data)
            paths.append([name, p])
        n = len(paths)
        orders = [list(range(n)), list(range(n - 1, -1, -1))]
        if ctx.thorough:
            for _ in range(2):
                o = list(range(n))
                ctx.rng.shuffle(o)
                orders.append(o)
        outs = _run_history_workers([{"docs": paths, "order": o, "pass2": True, "volatile": vol, "fresh": k == 0} for k, o in enumerate(orders)])
        if any(o is None for o in outs):
            broken.append(Broken("correspondence", "c06.worker", "history worker failed"))
            outs = [o for o in outs if o is not None]
        if not outs:
            return broken
        bad, state_changers = [], []
        for name, _ in docs:
            vals = [o["pass1"].get(name) for o in outs] + [o["pass2"].get(name) for o in outs]
            # … and what it yields where nothing was extracted before (forked child of the pristine worker)
            vals += [o["fresh"][name] for o in outs if o.get("fresh") and o["fresh"].get(name)]
            ctx.case(("history", name, len(orders)), nontrivial=not str(vals[0]).startswith(("ERR", "OTHER")))
            ctx.count("history/" + ("same" if len(set(vals)) == 1 else "DIFFERENT"))
            if len(set(vals)) != 1:
                bad.append(name)
            cells = sorted({c for o in outs for c in o["changed"].get(name, [])})
            if cells:
                state_changers.append((name, cells))
                ctx.count("history/state-changed")
        for name, cells in state_changers[:6]:
            broken.append(Broken("correspondence", "c06.modstate", f"{name}: extraction changed process-global state {cells[:6]}",
                                 case={"kind": "modstate", "doc": _doc_ref(name, by_name[name]), "cells": cells[:12]}))
        # pin every differing document (and, for state changes nobody observed yet, look for an observer) to a concrete history
        changer_docs = [(nm, by_name[nm]) for nm, _ in state_changers]
        targets = bad[:4]
        for name in targets:
            ext = os.path.splitext(name)[1].lower()
            cands = changer_docs + [d for d in docs if os.path.splitext(d[0])[1].lower() == ext and d not in changer_docs] \
                + [d for d in docs if os.path.splitext(d[0])[1].lower() != ext and d not in changer_docs]
            pin = _pin_history(td, (name, by_name[name]), cands)
            if pin:
                before, f, a = pin
                broken.append(Broken("correspondence", "c06.history",
                                     f"{name}: yields {str(a)[:16]} after {[b[0] for b in before][:3]} were extracted in the process, {str(f)[:16]} in a fresh process",
                                     case={"kind": "history", "doc": _doc_ref(name, by_name[name]), "before": [_doc_ref(*b) for b in before]}))
            else:
                broken.append(Broken("correspondence", "c06.history-unpinned", f"{name}: digests differ between extraction orders {orders[0][:3]}…, no single predecessor reproduces it",
                                     case={"kind": "history-unpinned", "doc": name}))
        if state_changers and not bad:
            # the state change was not observed by the set as ordered: try every document of the same format behind each changer
            for nm, cells in state_changers[:3]:
                ext = os.path.splitext(nm)[1].lower()
                same = [d for d in docs if os.path.splitext(d[0])[1].lower() == ext and d[0] != nm][:16]
                fresh = _history_digests(td, [[d] for d in same])
                after = _history_digests(td, [[(nm, by_name[nm]), d] for d in same])
                for d, f, a in zip(same, fresh, after):
                    if f and a and f["pass1"].get(d[0]) != a["pass1"].get(d[0]):
                        broken.append(Broken("correspondence", "c06.history", f"{d[0]}: yields something else after {nm} was extracted in the process than in a fresh process",
                                             case={"kind": "history", "doc": _doc_ref(*d), "before": [_doc_ref(nm, by_name[nm])]}))
                        break
    ctx.sample({"history_docs": len(docs), "orders": len(orders), "volatile_cells": vol})
    return broken


def _instream_model(ctx):
    """real io.BytesIO under random read/seek/write/truncate sequences vs the Lean input-buffer model"""
    broken = []
    rng = ctx.rng
    reqs, reals = [], []
    for _ in range(ctx.n(60, 600)):
        content = [rng.randrange(256) if rng.random() < 0.8 else 10 for _ in range(rng.randint(0, 24))]
        b = io.BytesIO(bytes(content))
        ops, states = [], []
        for _ in range(rng.randint(1, 9)):
            o = rng.choice(["read", "readAll", "readline", "readinto", "seek", "tell", "getvalue", "getbuffer", "seekable", "readable",
                            "write", "write", "truncate", "truncate", "writelines"])
            if o in ("read", "readinto"):
                k = rng.randint(0, 30)
                b.read(k) if o == "read" else b.readinto(bytearray(k))
                ops.append([o, k])
            elif o == "readAll":
                b.read()
                ops.append([o])
            elif o == "readline":
                b.readline()
                ops.append([o])
            elif o == "seek":
                k = rng.randint(0, 30)
                b.seek(k)
                ops.append([o, k])
            elif o in ("write", "writelines"):
                w = [rng.randrange(256) for _ in range(rng.randint(0, 6))]
                b.write(bytes(w)) if o == "write" else b.writelines([bytes(w)])
                ops.append([o, w])
            elif o == "truncate":
                k = rng.choice([None, rng.randint(0, 30)])
                b.truncate(k)
                ops.append([o, k])
            else:
                {"tell": b.tell, "getvalue": b.getvalue, "seekable": b.seekable, "readable": b.readable,
                 "getbuffer": lambda: b.getbuffer().release()}[o]()
                ops.append([o])
            states.append({"content": list(b.getvalue()), "pos": b.tell()})
        reqs.append({"op": "c06.instream", "content": content, "ops": ops})
        reals.append(states)
    outs = ctx.drive(reqs)
    for rq, real, o in zip(reqs, reals, outs):
        ctx.case(("instream", json.dumps(rq["ops"]), len(rq["content"])), nontrivial=len(rq["ops"]) >= 2)
        ctx.count("instream/" + ("mutating" if not all(o.get("readonly", [True])) else "readonly"))
        if "drv_error" in o or o["states"] != real:
            broken.append(Broken("correspondence", "c06.instream", f"BytesIO vs model: ops={rq['ops']} real={real} model={o}", case={"kind": "instream", "req": rq}))
        elif all(o["readonly"]) and real and real[-1]["content"] != rq["content"]:
            broken.append(Broken("correspondence", "c06.instream", f"read-only ops changed a real BytesIO: {rq}", case={"kind": "instream", "req": rq}))
    return broken


def _overlay_model(ctx):
    """dict.setdefault on a copy / on the table itself (Python reference) vs S2T.History.overlayCopy / overlayAlias"""
    broken = []
    rng = ctx.rng
    reqs, refs = [], []
    for _ in range(ctx.n(40, 400)):
        table = {}
        for _ in range(rng.randint(0, 4)):
            table.setdefault(rng.randint(0, 6), rng.randint(10, 99))
        docs = [{"decls": [[rng.randint(0, 8), rng.randint(100, 999)] for _ in range(rng.randint(0, 3))],
                 "uses": [rng.randint(0, 8) for _ in range(rng.randint(0, 4))]} for _ in range(rng.randint(1, 4))]
        alias = rng.random() < 0.5
        g = dict(table)
        outs = []
        for d in docs:
            t = g if alias else dict(g)
            for k, v in d["decls"]:
                t.setdefault(k, v)
            outs.append([t.get(k, k + 1000000) for k in d["uses"]])
        reqs.append({"op": "c06.overlay", "table": [[k, v] for k, v in table.items()], "docs": docs, "alias": alias})
        refs.append(outs)
    for rq, ref, o in zip(reqs, refs, ctx.drive(reqs)):
        ctx.case(("overlay", json.dumps(rq)), nontrivial=len(rq["docs"]) >= 2)
        ctx.count("overlay/" + ("alias" if rq["alias"] else "copy"))
        if o.get("outputs") != ref:
            broken.append(Broken("correspondence", "c06.overlay", f"setdefault overlay: python={ref} model={o} for {rq}", case={"kind": "overlay", "req": rq}))
    return broken


def _observer_sequences(ctx, fx):
    broken = []
    rng = ctx.rng
    picks = [(n, d) for n, d in fx if len(d) < 500_000 and "password" not in n]
    if not ctx.thorough:
        picks = rng.sample(picks, min(30, len(picks)))
    for name, data in picks:
        results = _results_of(name, data)
        if not results:
            continue
        for r in results[:3]:
            base = _full_json(r)
            first = {}
            seq = [rng.choice(OBS) for _ in range(ctx.n(6, 14))]
            nontriv = len(set(seq)) >= 2
            for i, ob in enumerate(seq):
                try:
                    out = _observe(r, ob)
                except Exception as e:
                    broken.append(Broken("correspondence", "c06.observe", f"{name}: observer {ob} raised {type(e).__name__}: {e}", case={"kind": "observe", "fixture": name, "seq": seq[: i + 1]}))
                    break
                if ob in first and first[ob] != out:
                    broken.append(Broken("correspondence", "c06.idempotent", f"{name}: observer {ob} returned something else the second time (sequence {seq[:i+1]})",
                                         case={"kind": "observe", "fixture": name, "seq": seq[: i + 1]}))
                    break
                first.setdefault(ob, out)
                now = _full_json(r)
                if now != base:
                    broken.append(Broken("correspondence", "c06.readonly", f"{name}: to_json changed after observing {ob} (sequence {seq[:i+1]})",
                                         case={"kind": "observe", "fixture": name, "seq": seq[: i + 1]}))
                    break
            ctx.case(("observe", name, tuple(seq)), nontrivial=nontriv)
            ctx.count(f"observe/{type(r).__name__}")
    return broken


def _slide_text_model(ctx):
    """real PptxSlide.get_text under random argument sequences on ONE slide object vs the stateless Lean model
    S2T.ObserveArgs.text (proved equal to a copy-cache machine for every sequence)"""
    broken = []
    rng = ctx.rng
    from sharepoint2text.parsing.extractors import data_types as dt
    words = ["Quarterly results", "", "x", "a\nb", "[Image: fake]", "$", " ", "äö"]
    reqs, reals = [], []
    for _ in range(ctx.n(40, 400)):
        base = rng.choice(words)
        formulas = [[rng.random() < 0.5, rng.choice(["x^2", "", "\\frac{a}{b}", "$"])] for _ in range(rng.randint(0, 2))]
        descs = [rng.choice(["", "Bar chart", "Logo", "a\nb", "]"]) for _ in range(rng.randint(0, 3))]
        flags = [rng.random() < 0.5 for _ in range(rng.randint(1, 6))]
        slide = dt.PptxSlide(slide_number=1, base_text=base, text=base,
                             formulas=[dt.PptxFormula(latex=l, is_display=d) for d, l in formulas],
                             images=[dt.PptxImage(image_index=i + 1, description=d, blob=b"x") for i, d in enumerate(descs)])
        content = dt.PptxContent(slides=[slide])
        real = []
        for f in flags:
            how = rng.randrange(3)      # through the slide, the units, the full text: all answer from the same slide
            if how == 0:
                real.append(slide.get_text(include_image_captions=f))
            elif how == 1:
                real.append([u.get_text() for u in content.iterate_units(include_image_captions=f)][0])
            else:
                real.append(content.get_full_text(include_image_captions=f))
            if how != 0:
                real[-1] = (real[-1], "stripped")
        reqs.append({"op": "c06.slidetext", "base": base, "formulas": formulas, "descs": descs, "flags": flags})
        reals.append(real)
    for rq, real, o in zip(reqs, reals, ctx.drive(reqs)):
        ctx.case(("slidetext", json.dumps(rq)), nontrivial=len(set(rq["flags"])) == 2 and any(rq["descs"]))
        ctx.count("slidetext/" + ("captions" if any(rq["descs"]) else "no-captions"))
        model = o.get("texts")
        ok = model is not None and len(model) == len(real) and all(
            (m.strip() == r[0]) if isinstance(r, tuple) else (m == r) for m, r in zip(model, real))
        if not ok:
            broken.append(Broken("correspondence", "c06.slidetext", f"PptxSlide.get_text sequence {rq['flags']}: real={real} model={o}",
                                 case={"kind": "slidetext", "req": rq}))
    return broken


def _abstract_core(data):
    """[[part name, created | None, modified | None]] of every well-formed core-properties part of a package (by content,
    whatever the part is called)"""
    import zipfile
    import xml.etree.ElementTree as ET
    out = []
    with zipfile.ZipFile(io.BytesIO(data)) as z:
        for n in z.namelist():
            if n.endswith("/") or not n.lower().endswith((".xml", ".psmdcp")):
                continue
            try:
                root = ET.fromstring(z.read(n))
            except ET.ParseError:
                continue
            if root.tag.rsplit("}", 1)[-1] != "coreProperties":
                continue
            vals = {}
            for ch in root:
                vals.setdefault(ch.tag.rsplit("}", 1)[-1], (ch.text or "").strip())
            out.append([n, vals.get("created"), vals.get("modified")])
    return out


def _core_dates_model(ctx, opc):
    """XLSX relocation variants: the metadata dates the real extractor reports vs S2T.CoreDates.dates for the guard part /
    library part of the current source (proved clock free when the two agree)"""
    broken = []
    docs = [(n, d) for n, d in opc if n.lower().endswith((".xlsx", ".xlsm"))]
    reqs = []
    for name, data in docs:
        reqs.append({"op": "c06.coredates", "parts": _abstract_core(data), "now": "NOW"})
    for (name, data), rq, o in zip(docs, reqs, ctx.drive(reqs)):
        rs = _results_of(name, data)
        if not rs:
            continue
        md = rs[0].to_json().get("metadata", {})
        real = [str(md.get("created") or ""), str(md.get("modified") or "")]
        model = [o.get("created"), o.get("modified")]
        ctx.case(("coredates", name), nontrivial=any(p[1] or p[2] for p in rq["parts"]))
        ctx.count("coredates/" + ("stated" if any(real) else "none"))
        same = all((m == "" and r == "") or (m not in ("", "NOW", None) and r[:19] == m[:19]) for m, r in zip(model, real))
        if not same:
            broken.append(Broken("correspondence", "c06.coredates", f"{name}: metadata created/modified real={real} model={model} (core parts {rq['parts']})",
                                 case={"kind": "coredates-model", "fixture": name, "data_b64": base64.b64encode(data).decode()}))
    return broken


def obligations(ctx):
    """closed world, decided on the classes of the CURRENT library at run time: every optional accessor parameter of every
    package class has a value domain in c06_observe.param_domain (otherwise nobody varies it)"""
    import inspect
    import pkgutil
    import importlib
    import sharepoint2text
    broken = []
    classes = []
    for m in pkgutil.walk_packages(sharepoint2text.__path__, "sharepoint2text."):
        if ".tests" in m.name or "sharepoint_io" in m.name:
            continue
        try:
            mod = importlib.import_module(m.name)
        except Exception:
            continue
        classes += [c for c in vars(mod).values() if inspect.isclass(c) and c.__module__ == mod.__name__ and hasattr(c, "__dataclass_fields__")]
    for cls, meth, param, ok in c06_observe.inventory(classes):
        if not ok:
            broken.append(Broken("inventory", "c06.accessor-domain", f"{cls}.{meth}({param}=…): no value domain for this parameter, observer sequences would never vary it"))
    return broken


def _stratified(ctx, docs, n_random):
    """the smallest document of every extension (so that every content class is met on every run) + a random rest"""
    by_ext = {}
    for n, d in docs:
        ext = os.path.splitext(n)[1].lower()
        if ext not in by_ext or len(d) < len(by_ext[ext][1]):
            by_ext[ext] = (n, d)
    first = [by_ext[e] for e in sorted(by_ext)]
    rest = [x for x in docs if x not in first]
    return first + (rest if ctx.thorough else ctx.rng.sample(rest, min(n_random, len(rest))))


def _observer_arg_sequences(ctx, fx, must=()):
    """(result x sequence of accessor calls with EVERY argument combination, then re-observed with the defaults):
    each answer must equal the answer of the same call on a pristine result (c06_observe)"""
    broken = []
    rng = ctx.rng
    docs = [(n, d) for n, d in fx if len(d) < (2_000_000 if ctx.thorough else 500_000) and "password" not in n and corpus.file_type_of(n)]
    picks = list(must) + _stratified(ctx, docs, 12)
    for name, data in picks:
        results = _results_of(name, data)
        if not results:
            continue
        for ri, r in enumerate(results[:3]):
            calls = c06_observe.all_calls(r)
            try:
                pristine = copy.deepcopy(r)
            except Exception:
                pristine = None
            fresh = (lambda pr=pristine: copy.deepcopy(pr)) if pristine is not None else (lambda ri=ri: _results_of(name, data)[ri])
            for _ in range(ctx.n(1, 3)):
                seq = c06_observe.make_sequence(rng, calls, ctx.n(6, 12))
                argful = sum(1 for c in seq if c[2])
                ctx.case(("observe-args", name, ri, tuple(c06_observe.key(c) for c in seq)), nontrivial=len({c06_observe.key(c) for c in seq}) >= 2)
                ctx.count(f"observe-args/{type(r).__name__}" + ("/with-arguments" if argful else ""))
                target = copy.deepcopy(pristine) if pristine is not None else r
                bad = c06_observe.run_sequence(fresh, target, seq, _full_json)
                if bad is not None:
                    i, what, detail = bad
                    short = c06_observe.shrink(fresh, seq, i, _full_json)
                    broken.append(Broken("correspondence", "c06.observer-args" if what == "answer" else "c06.readonly",
                                         f"{name}: {detail}",
                                         case={"kind": "observe2", "fixture": name, "result": ri, "calls": [list(c) for c in short]}))
                    break
    return broken


def _replay_observe2(c, data):
    """fresh extractions as pristine results (independent of deepcopy)"""
    name, ri = c["fixture"], c.get("result", 0)
    calls = [(x[0], x[1], x[2]) for x in c["calls"]]

    def fresh():
        rs = _results_of(name, data)
        if not rs or len(rs) <= ri:
            raise RuntimeError("document no longer extracts")
        return rs[ri]
    bad = c06_observe.run_sequence(fresh, fresh(), calls, _full_json)
    if bad is not None:
        return False, bad[2]
    return True, "every call answers as on a fresh result: " + ", ".join(c06_observe.label(x) for x in calls)


def _repeat_and_input(ctx, fx, must=()):
    """`must` documents are always checked (framing variants, declare/use pairs), `fx` is sampled in the quick tier"""
    broken = []
    picks = [(n, d) for n, d in fx if len(d) < 500_000]
    if not ctx.thorough:
        picks = ctx.rng.sample(picks, min(25, len(picks)))
    picks = list(must) + picks
    vol = _volatile(ctx)
    from sharepoint2text.parsing import router
    for name, data in picks:          # load the extractor modules first: the faked clock rebinds their `datetime` imports
        ft = corpus.file_type_of(name)
        if ft is not None:
            corpus.extractor(*router._EXTRACTOR_REGISTRY[ft])
    # the two extractions of one buffer run under two different FAKED wall clocks (years apart, other time of day)
    clocks = (1046747106.25, 1893553199.75)
    c06_clock.install(clocks[0])
    try:
        broken += _repeat_loop(ctx, picks, vol, clocks)
    finally:
        c06_clock.uninstall()
    return broken


def _repeat_loop(ctx, picks, vol, clocks):
    broken = []
    from sharepoint2text.parsing import router
    for name, data in picks:
        ft = corpus.file_type_of(name)
        if ft is None:
            continue
        m, f = router._EXTRACTOR_REGISTRY[ft]
        fn = corpus.extractor(m, f)
        buf = io.BytesIO(data)
        outs = []
        cells = []
        c06_clock.set_clock(clocks[0])
        after = c06_state.cells()
        keep = []
        for k in range(2):
            c06_clock.set_clock(clocks[k])
            before, nmods = after, len(sys.modules)
            try:
                rs = list(fn(buf, name))
                keep.append(rs)       # the first results stay alive, and the allocator's free lists are filled: an object
                keep.append([bytes(n) for n in range(8, 400, 8) for _ in range(12)] + [type("K", (), {})() for _ in range(300)]
                            + [{"k": i} for i in range(200)])      # of the second run does not land on the address of its twin
                outs.append([_full_json(r) for r in rs])
            except corpus.family() as e:
                outs.append("ERR:" + type(e).__name__)
            after = c06_state.cells()
            ch = c06_state.changed(before, after, vol)
            if len(sys.modules) != nmods:      # lazy import of a third-party package: its module-level code is not per-document state
                ch = [c for c in ch if not c.startswith("<interp>:")]
            cells += ch
        ctx.case(("repeat", name))
        ctx.count("repeat/" + ("ok" if isinstance(outs[0], list) else "family"))
        ref = _doc_ref(name, data)
        if outs[0] != outs[1]:
            broken.append(Broken("correspondence", "c06.repeat", f"{name}: two extractions of the same buffer in one process (wall clock faked to {clocks[0]} and {clocks[1]}) differ" + _first_diff(outs), case={"kind": "repeat", "fixture": name, **({"data_b64": ref["data_b64"]} if "data_b64" in ref else {})}))
        if buf.getvalue() != data:
            now = buf.getvalue()
            broken.append(Broken("correspondence", "c06.input", f"{name}: the caller's buffer content changed ({len(data)} bytes {data[:12]!r}… before, {len(now)} bytes {now[:12]!r}… after)",
                                 case={"kind": "repeat", "fixture": name, **({"data_b64": ref["data_b64"]} if "data_b64" in ref else {})}))
        if cells:
            broken.append(Broken("correspondence", "c06.modstate", f"{name}: extraction changed process-global state {sorted(set(cells))[:6]}",
                                 case={"kind": "modstate", "doc": ref, "cells": sorted(set(cells))[:12]}))
    return broken


def _first_diff(outs):
    try:
        a, b = outs
        if isinstance(a, list) and isinstance(b, list) and len(a) == len(b):
            for x, y in zip(a, b):
                if x != y:
                    k = next((i for i, (p, q) in enumerate(zip(x, y)) if p != q), min(len(x), len(y)))
                    return f": …{x[max(0, k - 60): k + 40]}… vs …{y[max(0, k - 60): k + 40]}…"
    except Exception:
        pass
    return ""


def _hash_seeds(ctx, fx_paths):
    """digests of every fixture in fresh interpreters under different environments: PYTHONHASHSEED, a faked wall clock
    and a time zone per interpreter (c06_env.ENVS_*; the first one is the unmodified environment).  A difference is
    pinned to the single coordinate that causes it."""
    broken = []
    envs = c06_env.ENVS_THOROUGH if ctx.thorough else c06_env.ENVS_QUICK
    worker = os.path.join(VERIF, "harness", "workers", "c06_digest.py")
    outs = c06_env.run_digests(worker, envs, fx_paths, REPO)
    tables = {}
    for env, t in zip(envs, outs):
        if t is None:
            broken.append(Broken("correspondence", "c06.worker", f"digest worker failed for {c06_env.describe(env)}"))
        else:
            tables[env["seed"]] = t
    by_seed = {e["seed"]: e for e in envs}
    if len(tables) >= 2:
        ref_seed = next(e["seed"] for e in envs if e["seed"] in tables)
        pinned = 0
        for rel, path in fx_paths:
            vals = {s: tables[s].get(rel) for s in tables}
            ctx.case(("seed", rel, tuple(sorted(tables))), nontrivial=not str(vals[ref_seed]).startswith(("ERR", "OTHER")))
            ctx.count("hashseed/" + ("same" if len(set(vals.values())) == 1 else "DIFFERENT"))
            if len(set(vals.values())) != 1:
                other = next(s for s in vals if vals[s] != vals[ref_seed])
                cause, pair = ("environment", [by_seed[ref_seed], by_seed[other]])
                if pinned < 4:
                    pinned += 1
                    cause, pair = c06_env.pin_cause(worker, by_seed[ref_seed], by_seed[other], rel, path, REPO)
                if cause == "hashseed":
                    broken.append(Broken("correspondence", "c06.hashseed", f"{rel}: to_json digest differs between hash seeds {vals}",
                                         case={"kind": "seed", "fixture": rel, "seeds": sorted(tables)}))
                else:
                    broken.append(Broken("correspondence", "c06." + cause,
                                         f"{rel}: to_json digest differs between [{c06_env.describe(pair[0])}] and [{c06_env.describe(pair[1])}] "
                                         f"(fresh interpreters, same bytes, same path)",
                                         case={"kind": "env", "fixture": rel, "envs": pair}))
    ctx.sample({"environments": [c06_env.describe(e) for e in envs], "files": len(fx_paths)})
    return broken


def _stream_model(ctx, fx):
    """real payload streams (image bytes of real results) vs the Lean stream model"""
    broken = []
    rng = ctx.rng
    from sharepoint2text.parsing.extractors.serialization import serialize_extraction
    imgs = []
    for name, data in fx:
        if len(data) > 400_000 or "password" in name:
            continue
        rs = _results_of(name, data) or []
        for r in rs:
            for i in list(r.iterate_images())[:2]:
                try:
                    if i.get_bytes().getbuffer().nbytes > 0:
                        imgs.append((name, i))
                except Exception:
                    pass
        if len(imgs) > ctx.n(12, 60):
            break
    reqs, runs = [], []
    for name, img in imgs:
        content = list(img.get_bytes().getvalue()[:64])
        # work on a small synthetic payload of the same class so the protocol stays small
        im = copy.copy(img)
        for fld in ("data", "image_data"):
            if hasattr(im, fld) and isinstance(getattr(im, fld), io.BytesIO):
                setattr(im, fld, io.BytesIO(bytes(content)))
                break
        else:
            continue
        ops, real = [], []
        handed = None
        for _ in range(rng.randint(3, 10)):
            o = rng.choice(["getBytes", "read", "readAll", "seek", "tell", "toJson", "getvalue"])
            if o == "getBytes":
                handed = im.get_bytes()
                ops.append(["getBytes"])
                real.append({"bytes": list(handed.getvalue()) if handed.tell() == 0 else ["NOT-AT-0", handed.tell()]})
            elif handed is None:
                continue
            elif o == "read":
                k = rng.randint(0, 80)
                ops.append(["read", k])
                real.append({"bytes": list(handed.read(k))})
            elif o == "readAll":
                ops.append(["readAll"])
                real.append({"bytes": list(handed.read())})
            elif o == "seek":
                p = rng.randint(0, 90)
                handed.seek(p)
                ops.append(["seek", p])
                real.append({"pos": p})
            elif o == "tell":
                ops.append(["tell"])
                real.append({"pos": handed.tell()})
            elif o == "getvalue":
                ops.append(["getvalue"])
                real.append({"bytes": list(handed.getvalue())})
            else:
                j = serialize_extraction(im, include_binary=True)
                blob = None
                for v in j.values():
                    if isinstance(v, dict) and ("_bytes" in v or "_bytesio" in v):
                        blob = v.get("_bytes") or v.get("_bytesio")
                ops.append(["toJson"])
                real.append({"json": list(base64.b64decode(blob)) if blob is not None else None})
        reqs.append({"op": "c06.stream", "content": content, "ops": ops})
        runs.append((name, type(img).__name__, real, handed.tell() if handed else 0))
    outs = ctx.drive(reqs)
    for (name, cls, real, pos), o, rq in zip(runs, outs, reqs):
        ctx.case(("stream", name, cls, json.dumps(rq["ops"])), nontrivial=len(rq["ops"]) >= 3)
        ctx.count(f"stream/{cls}")
        if "drv_error" in o or o["answers"] != real or (rq["ops"] and o["pos"] != pos):
            broken.append(Broken("correspondence", "c06.stream", f"{name} {cls}: real={real} pos={pos} model={o}", case={"kind": "stream", "ops": rq["ops"], "cls": cls}))
    if reqs:
        ctx.sample({"stream_case": reqs[0], "model": outs[0]})
    return broken


def _accepted_variants(ctx, fx, per):
    """mutated-but-accepted inputs: mutations of fixtures that still extract to results"""
    out = []
    small = [(n, d) for n, d in fx if len(d) < 200_000 and "password" not in n and corpus.file_type_of(n)]
    for name, data in small:
        for i, (kind, b) in enumerate(corpus.mutations(ctx.rng, name, data, small, per)):
            if _results_of(name, b):
                root, ext = os.path.splitext(name)
                out.append((f"{root}~{kind}{i}{ext}", b))
    return out


def _generated_docs(ctx):
    """documents whose result passes through hash-ordered collections: many style names, names equal up to case,
    names with equal casefold / equal length (whatever a key function could collapse)"""
    from builders import mini
    rng = ctx.rng
    out = []
    pools = [["P1", "p1", "Heading 1", "heading 1", "HEADING 1", "Title", "TITLE"],
             ["a", "b", "c", "d", "e", "f", "g", "h", "i", "j"],
             ["Stra\u00dfe", "STRASSE", "strasse", "\u0130stanbul", "istanbul", "I\u0307stanbul"],
             ["T%d" % i for i in range(40)]]
    for k in range(ctx.n(8, 24)):
        pool = pools[k % len(pools)]
        # the whole pool first (all collisions present), random subsets afterwards
        names = list(pool) if k < len(pools) else rng.sample(pool, min(len(pool), rng.randint(2, len(pool))))
        rng.shuffle(names)
        out.append((f"generated/styles{k}.docx", mini.docx([(n, f"text {i}") for i, n in enumerate(names)])))
        out.append((f"generated/styles{k}.odt", mini.odt(names, [f"p{i}" for i in range(len(names))])))
    return out


def _fault_docs(ctx):
    """FAULT-POINT family (builders/c06_sched.py): documents that make an extraction fail at graded depths of the walk,
    followed by probes whose outcome depends on an interpreter-wide setting (faults first: the forward order of the
    history check extracts every probe after every failed extraction, the reverse order every probe before them)"""
    from builders import c06_sched
    docs = c06_sched.fault_docs() + c06_sched.probe_docs()
    for n, d in docs:
        _DATA[n] = d
    return docs


def _sched_docs(ctx):
    """SCHEDULE family: containers with many members of mixed cost"""
    from builders import c06_sched
    docs = c06_sched.archives(ctx.rng)
    for n, d in docs:
        _DATA[n] = d
    return docs


SWITCH_INTERVALS = (0.005, 1e-6, 0.05, 1e-5)


def _extract_outcome(name, data):
    from sharepoint2text.parsing import router
    try:
        fn = router.get_extractor(name)
        return [_full_json(r) for r in fn(io.BytesIO(data), name)]
    except corpus.family() as e:
        return "ERR:" + type(e).__name__


def _busy(stop):
    while not stop.is_set():
        sum(range(200))


def _schedule_repeat(ctx, docs, runs):
    """(document x thread schedule): the same bytes / path extracted `runs` times in this process, each time under another
    interpreter switch interval (the one knob of the thread scheduler a Python program has) and with a competing busy
    thread on every second run: every run must yield the same SEQUENCE of results."""
    import threading
    broken = []
    old = sys.getswitchinterval()
    try:
        for name, data in docs:
            outs = []
            for k in range(runs):
                sys.setswitchinterval(SWITCH_INTERVALS[k % len(SWITCH_INTERVALS)])
                stop = threading.Event()
                th = None
                if k % 2:
                    th = threading.Thread(target=_busy, args=(stop,), daemon=True)
                    th.start()
                try:
                    outs.append(_extract_outcome(name, data))
                finally:
                    stop.set()
                    if th is not None:
                        th.join()
            n_results = len(outs[0]) if isinstance(outs[0], list) else 0
            ctx.case(("sched-repeat", name, runs), nontrivial=n_results >= 1)
            ctx.count("sched-repeat/" + ("multi-result" if n_results >= 8 else "few-results"))
            k = next((i for i in range(1, runs) if outs[i] != outs[0]), None)
            if k is not None:
                how = ""
                if isinstance(outs[0], list) and isinstance(outs[k], list) and sorted(outs[0]) == sorted(outs[k]):
                    how = f": the same {len(outs[0])} results in another ORDER (first moved result at position {next(i for i, (a, b) in enumerate(zip(outs[0], outs[k])) if a != b)})"
                ref = _doc_ref(name, data)
                broken.append(Broken("correspondence", "c06.schedule", f"{name}: extraction {k + 1} of {runs} of the same bytes / path in one process differs from the first" + how,
                                     case={"kind": "schedrepeat", "fixture": name, "runs": max(runs, 12), **({"data_b64": ref["data_b64"]} if "data_b64" in ref else {})}))
    finally:
        sys.setswitchinterval(old)
    return broken


def _history_set(ctx, fx, pairs, framed):
    """documents for the history check: every declare/use pair (A directly before B), small fixtures, some framing variants"""
    docs = _fault_docs(ctx)
    for tag, a, b in pairs:
        docs += [a, b]
    small = [(n, d) for n, d in fx if len(d) < (1_000_000 if ctx.thorough else 150_000) and "password" not in n and corpus.file_type_of(n)]
    if not ctx.thorough:
        small = ctx.rng.sample(small, min(40, len(small)))
    docs += small
    docs += framed if ctx.thorough else ctx.rng.sample(framed, min(12, len(framed)))
    return docs


def correspondence(ctx):
    fx = corpus.fixtures()
    broken = []
    variants = _accepted_variants(ctx, fx, ctx.n(1, 8)) + _generated_docs(ctx)
    # parts at non-default names reached through relationships x optional members; decks with optional alt texts
    opc = [(n, d) for n, d in c06_env.opc_docs(ctx, fx, corpus.file_type_of) if _results_of(n, d)]
    decks = [(n, d) for n, d in c06_env.rich_decks(ctx, ctx.n(3, 10)) if _results_of(n, d)]
    members = c06_env.member_docs(ctx, fx, corpus.file_type_of, _results_of)      # each optional metadata member dropped on its own
    ctx.count("variants/opc", len(opc))
    ctx.count("variants/member-drops", len(members))
    variants += opc + decks + members
    framed = _framing_variants(ctx, fx, per_ext=None if ctx.thorough else 7)
    pairs = _pair_docs(ctx, ctx.n(2, 8))
    pair_docs = [d for _, a, b in pairs for d in (a, b)]
    encv = _encoding_variants(ctx, fx)
    kinds = _cell_kind_docs(ctx)
    ctx.count("variants/encodings", len(encv))
    ctx.count("variants/cell-kinds", len(kinds))
    variants += encv + kinds
    faults = _fault_docs(ctx)
    sched = _sched_docs(ctx)
    ctx.count("variants/fault-points", len(faults))
    ctx.count("variants/many-member-archives", len(sched))
    variants += sched
    for n, d in variants + framed + pair_docs:      # every generated document can be put into a replay file by content
        _DATA[n] = d
    for tag, a, b in pairs[:3]:
        ctx.sample({"declare_use_pair": tag, "A": a[0], "B": b[0]})
    ctx.count("variants/accepted", len(variants))
    ctx.count("variants/framed", len(framed))
    ctx.count("pairs", len(pairs))
    with tempfile.TemporaryDirectory(prefix="s2t_c06_") as td:
        fx_paths = [(rel, os.path.join(corpus.RES, rel)) for rel, d in fx if len(d) < (2_600_000 if ctx.thorough else 450_000)]
        for i, (name, b) in enumerate(variants + (framed if ctx.thorough else framed[::5])):
            p = os.path.join(td, f"v{i}_" + os.path.basename(name))
            with open(p, "wb") as fh:
                fh.write(b)
            fx_paths.append((name, p))
        broken += _hash_seeds(ctx, fx_paths)
    broken += _repeat_and_input(ctx, fx + variants, must=framed + pair_docs + opc + members + encv + kinds + (faults + sched if ctx.thorough else []))
    broken += _schedule_repeat(ctx, sched, ctx.n(5, 12))
    broken += _history(ctx, _history_set(ctx, fx, pairs, framed) + (opc if ctx.thorough else ctx.rng.sample(opc, min(6, len(opc)))) + encv + kinds)
    broken += _observer_sequences(ctx, fx + variants)
    broken += _observer_arg_sequences(ctx, fx + variants, must=decks)
    broken += _slide_text_model(ctx)
    broken += _core_dates_model(ctx, opc)
    broken += _stream_model(ctx, fx)
    broken += _instream_model(ctx)
    broken += _overlay_model(ctx)
    return {"broken": broken, "violations": []}


def _violation_of(b):
    c = dict(b.case or {})
    kind = c.get("kind")
    if kind in ("seed", "repeat", "observe", "schedrepeat"):
        if ("~" in c.get("fixture", "") or c.get("fixture", "").startswith("generated/")) and c["fixture"] in _DATA and "data_b64" not in c:
            c["data_b64"] = base64.b64encode(_DATA[c["fixture"]]).decode()
        return Violation(b.name.replace("c06.", "") + ":" + os.path.basename(c.get("fixture", "?")), b.detail, c)
    if kind == "env":
        if ("~" in c.get("fixture", "") or c.get("fixture", "").startswith("generated/")) and c["fixture"] in _DATA and "data_b64" not in c:
            c["data_b64"] = base64.b64encode(_DATA[c["fixture"]]).decode()
        return Violation(b.name.replace("c06.", "") + ":" + os.path.basename(c.get("fixture", "?")), b.detail, c)
    if kind == "observe2":
        if ("~" in c.get("fixture", "") or c.get("fixture", "").startswith("generated/")) and c["fixture"] in _DATA and "data_b64" not in c:
            c["data_b64"] = base64.b64encode(_DATA[c["fixture"]]).decode()
        last = c["calls"][-1] if c.get("calls") else ["", "?", None]
        return Violation(b.name.replace("c06.", "") + ":" + os.path.basename(c.get("fixture", "?")) + ":" + str(last[1]), b.detail, c)
    if kind == "history":
        return Violation("history:" + os.path.basename(c["doc"]["name"]).split("~")[-1] + "<-" + os.path.basename(c["before"][0]["name"]).split("~")[-1], b.detail, c)
    return None


def search(ctx, broken):
    """the property statement on the real code: digests across seeds / histories, repeat, input buffer, observers"""
    out = []
    fx = corpus.fixtures()
    per = {}
    for b in broken:
        if b.kind == "correspondence":
            v = _violation_of(b)
            if v is not None and per.get(b.name, 0) < 3:      # three witnesses per mechanism are enough
                per[b.name] = per.get(b.name, 0) + 1
                out.append(v)
    if out:
        return out
    # an inventory / theorem / frame obligation broke without an observed difference: run the full oracles on
    # everything the generators know (all framing variants, more declare/use pairs, every fixture, every history)
    sub = type(ctx)(ctx.prop, "thorough", ctx.seed)
    fx_paths = [(rel, os.path.join(corpus.RES, rel)) for rel, d in fx if len(d) < 2_600_000]
    framed = _framing_variants(sub, fx)
    pairs = _pair_docs(sub, 6)
    pair_docs = [d for _, a, b in pairs for d in (a, b)]
    # documents named by a broken frame obligation go first into the history set
    named = []
    for b in broken:
        c = b.case or {}
        if c.get("kind") == "modstate":
            try:
                named.append((c["doc"]["name"], _doc_bytes(c["doc"])))
            except Exception:
                pass
    opc = [(n, d) for n, d in c06_env.opc_docs(sub, fx, corpus.file_type_of) if _results_of(n, d)]
    decks = [(n, d) for n, d in c06_env.rich_decks(sub, 12) if _results_of(n, d)]
    members = c06_env.member_docs(sub, fx, corpus.file_type_of, _results_of)
    encv = _encoding_variants(sub, fx)
    kinds = _cell_kind_docs(sub)
    for n, d in framed + pair_docs + opc + decks + members + encv + kinds:
        _DATA[n] = d
    sched = _sched_docs(sub)
    found = _schedule_repeat(sub, sched, 12)
    found += _repeat_and_input(sub, [], must=framed + pair_docs + opc + members + encv + kinds + _fault_docs(sub) + sched)
    found = [b for b in found if (b.case or {}).get("kind") != "modstate"]
    if not found:
        # observer-side obligations (effects inventory, accessor inventory, instance caches) are decided by call sequences
        found += _observer_arg_sequences(sub, [(n, d) for n, d in fx if len(d) < 2_000_000] + opc[:6], must=decks)
    if not found:
        hist = named + [d for d in _history_set(sub, [(n, d) for n, d in fx if len(d) < 300_000], pairs, framed[::4]) + encv + kinds if d[0] not in {n for n, _ in named}]
        found += [b for b in _history(sub, hist) if (b.case or {}).get("kind") == "history"]
    if not found:
        with tempfile.TemporaryDirectory(prefix="s2t_c06s_") as td:
            extra = []
            for i, (n, d) in enumerate(opc + decks + members + encv + kinds):
                p = os.path.join(td, f"g{i}_" + os.path.basename(n))
                with open(p, "wb") as fh:
                    fh.write(d)
                extra.append((n, p))
            found += _repeat_and_input(sub, fx) + _hash_seeds(sub, fx_paths + extra) + _observer_sequences(sub, fx)
    for b in found:
        v = _violation_of(b)
        if v is not None:
            out.append(v)
        if len(out) >= 5:
            break
    return out


def replay(ctx, payload):
    c = payload.get("replay", {})
    fx = dict(corpus.fixtures())
    if "data_b64" in c:
        fx[c["fixture"]] = base64.b64decode(c["data_b64"])
    if c.get("kind") == "history":
        target = (c["doc"]["name"], _doc_bytes(c["doc"]))
        before = [(r["name"], _doc_bytes(r)) for r in c["before"]]
        with tempfile.TemporaryDirectory(prefix="s2t_c06r_") as td:
            fresh, after = _history_digests(td, [[target], before + [target]])
        if not fresh or not after:
            return False, "history worker failed"
        f, a = fresh["pass1"].get(target[0]), after["pass1"].get(target[0])
        names = [b[0] for b in before]
        if f != a:
            return False, f"{target[0]} yields {str(a)[:16]} after {names} were extracted in the same process, {str(f)[:16]} in a fresh process"
        return True, f"{target[0]} yields the same in a fresh process and after {names}"
    if c.get("kind") == "observe2":
        return _replay_observe2(c, fx[c["fixture"]])
    if c.get("kind") == "env":
        worker = os.path.join(VERIF, "harness", "workers", "c06_digest.py")
        with tempfile.TemporaryDirectory(prefix="s2t_c06_") as td:
            p = os.path.join(corpus.RES, c["fixture"])
            if "data_b64" in c:
                p = os.path.join(td, os.path.basename(c["fixture"]).replace("~", "_"))
                with open(p, "wb") as fh:
                    fh.write(fx[c["fixture"]])
            ta, tb = c06_env.run_digests(worker, c["envs"], [[c["fixture"], p]], REPO)
        if not ta or not tb:
            return False, "digest worker failed"
        a, b = ta.get(c["fixture"]), tb.get(c["fixture"])
        msg = f"{c['fixture']}: digest {str(a)[:16]} under [{c06_env.describe(c['envs'][0])}], {str(b)[:16]} under [{c06_env.describe(c['envs'][1])}]"
        return a == b, msg
    if c.get("kind") == "seed" and "data_b64" in c:
        with tempfile.TemporaryDirectory(prefix="s2t_c06_") as td:
            p = os.path.join(td, os.path.basename(c["fixture"]))
            with open(p, "wb") as fh:
                fh.write(fx[c["fixture"]])
            b = _hash_seeds(type(ctx)(ctx.prop, "thorough", ctx.seed), [(c["fixture"], p)])
            return (not b), "; ".join(x.detail for x in b) or "digests agree across hash seeds"
    if c.get("kind") == "seed":
        p = [(c["fixture"], os.path.join(corpus.RES, c["fixture"]))]
        b = _hash_seeds(type(ctx)(ctx.prop, "thorough", ctx.seed), p)
        return (not b), "; ".join(x.detail for x in b) or "digests agree across hash seeds"
    if c.get("kind") == "observe":
        name = c["fixture"]
        rs = _results_of(name, fx[name]) or []
        for r in rs[:3]:
            base = _full_json(r)
            seen = {}
            for ob in c["seq"]:
                out = _observe(r, ob)
                if ob in seen and seen[ob] != out:
                    return False, f"observer {ob} not idempotent"
                seen.setdefault(ob, out)
                if _full_json(r) != base:
                    return False, f"to_json changed after {ob}"
        return True, "observation leaves the result unchanged"
    if c.get("kind") == "schedrepeat":
        b = _schedule_repeat(type(ctx)(ctx.prop, "thorough", ctx.seed), [(c["fixture"], fx[c["fixture"]])], min(int(c.get("runs", 12)), 40))
        return (not b), "; ".join(x.detail for x in b) or f"{c.get('runs', 12)} extractions under different thread schedules yield the same sequence of results"
    if c.get("kind") == "repeat":
        b = _repeat_and_input(type(ctx)(ctx.prop, "thorough", ctx.seed), [(c["fixture"], fx[c["fixture"]])])
        b = [x for x in b if x.name != "c06.modstate"]      # a frame obligation, not the property statement
        return (not b), "; ".join(x.detail for x in b) or "repeatable, input untouched"
    return False, "replay names a broken obligation, not an input: " + payload.get("what", "")
