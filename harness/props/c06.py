"""C06 — determinism, purity, idempotent observation."""
from __future__ import annotations

import base64
import copy
import io
import json
import os
import subprocess
import sys
import tempfile

import corpus
from run import Broken, Violation, VERIF, REPO

GEN = ["Effects"]
RULE = ("cases = (fixture or generated document x hash seed) digests in fresh interpreters + (result x random observer "
        "sequence) + (payload stream x random op sequence vs the Lean stream model) + repeat/in-place checks; "
        "distinct = distinct (input, seed) / (input, sequence) pairs; non-trivial = result has units/images/tables or "
        "the sequence contains at least two different observers")
ASSUMPTIONS = [
    "third-party parsers are deterministic (only sampled: digests across PYTHONHASHSEED values and fresh processes)",
    "the AST inventories of tools/gen/effects.py find every set-to-ordered conversion, observer-side write, input-stream method and id()/hash() use (local type inference for sets)",
    "io.BytesIO semantics as modelled in S2T/Model/Observe.lean (tied by correspondence on real payload streams)",
]
TRUSTED = ["tools/gen/effects.py (AST inventories)"]

OBS = ["full_text", "units", "images", "tables", "metadata", "to_json"]


def _canon(x):
    return json.dumps(x, sort_keys=True, default=repr)


def _observe(r, what):
    """run one observer completely; return a canonical, comparable rendering of what it returned"""
    from sharepoint2text.parsing.extractors.serialization import serialize_extraction
    if what == "full_text":
        return r.get_full_text()
    if what == "units":
        out = []
        for u in r.iterate_units():
            out.append([u.get_text(), _canon(serialize_extraction(u, include_binary=True)),
                        [_canon(serialize_extraction(i, include_binary=True)) for i in u.get_images()] if hasattr(u, "get_images") else None,
                        _canon(serialize_extraction(u.get_metadata(), include_binary=True)) if hasattr(u, "get_metadata") else None])
        return out
    if what == "images":
        out = []
        for i in r.iterate_images():
            b = i.get_bytes()
            head = b.read(7)
            out.append([base64.b64encode(head).decode(), i.get_content_type(), _canon(serialize_extraction(i.get_metadata(), include_binary=True))])
        return out
    if what == "tables":
        return [[_canon(t.get_table()), repr(t.get_dim())] for t in r.iterate_tables()]
    if what == "metadata":
        return _canon(serialize_extraction(r.get_metadata(), include_binary=True))
    if what == "to_json":
        return _canon(r.to_json())
    raise KeyError(what)


_DATA = {}


def _results_of(name, data):
    _DATA[name] = data
    ft = corpus.file_type_of(name)
    from sharepoint2text.parsing import router
    if ft is None:
        return None
    m, f = router._EXTRACTOR_REGISTRY[ft]
    r = corpus.run_extractor(corpus.extractor(m, f), data, path=name)
    return r[1] if r[0] == "ok" else None


def _full_json(r):
    from sharepoint2text.parsing.extractors.serialization import serialize_extraction
    return _canon(serialize_extraction(r, include_binary=True))


def _observer_sequences(ctx, fx):
    broken = []
    rng = ctx.rng
    picks = [(n, d) for n, d in fx if len(d) < 500_000 and "password" not in n]
    if not ctx.thorough:
        picks = rng.sample(picks, min(30, len(picks)))
    for name, data in picks:
        results = _results_of(name, data)
        if not results:
            continue
        for r in results[:3]:
            base = _full_json(r)
            first = {}
            seq = [rng.choice(OBS) for _ in range(ctx.n(6, 14))]
            nontriv = len(set(seq)) >= 2
            for i, ob in enumerate(seq):
                try:
                    out = _observe(r, ob)
                except Exception as e:
                    broken.append(Broken("correspondence", "c06.observe", f"{name}: observer {ob} raised {type(e).__name__}: {e}", case={"kind": "observe", "fixture": name, "seq": seq[: i + 1]}))
                    break
                if ob in first and first[ob] != out:
                    broken.append(Broken("correspondence", "c06.idempotent", f"{name}: observer {ob} returned something else the second time (sequence {seq[:i+1]})",
                                         case={"kind": "observe", "fixture": name, "seq": seq[: i + 1]}))
                    break
                first.setdefault(ob, out)
                now = _full_json(r)
                if now != base:
                    broken.append(Broken("correspondence", "c06.readonly", f"{name}: to_json changed after observing {ob} (sequence {seq[:i+1]})",
                                         case={"kind": "observe", "fixture": name, "seq": seq[: i + 1]}))
                    break
            ctx.case(("observe", name, tuple(seq)), nontrivial=nontriv)
            ctx.count(f"observe/{type(r).__name__}")
    return broken


def _repeat_and_input(ctx, fx):
    broken = []
    picks = [(n, d) for n, d in fx if len(d) < 500_000]
    if not ctx.thorough:
        picks = ctx.rng.sample(picks, min(25, len(picks)))
    from sharepoint2text.parsing import router
    for name, data in picks:
        ft = corpus.file_type_of(name)
        if ft is None:
            continue
        m, f = router._EXTRACTOR_REGISTRY[ft]
        fn = corpus.extractor(m, f)
        buf = io.BytesIO(data)
        outs = []
        for _ in range(2):
            try:
                outs.append([_full_json(r) for r in fn(buf, name)])
            except corpus.family() as e:
                outs.append("ERR:" + type(e).__name__)
        ctx.case(("repeat", name))
        ctx.count("repeat/" + ("ok" if isinstance(outs[0], list) else "family"))
        if outs[0] != outs[1]:
            broken.append(Broken("correspondence", "c06.repeat", f"{name}: two extractions of the same buffer in one process differ", case={"kind": "repeat", "fixture": name}))
        if buf.getvalue() != data:
            broken.append(Broken("correspondence", "c06.input", f"{name}: the caller's buffer content changed", case={"kind": "repeat", "fixture": name}))
    return broken


def _hash_seeds(ctx, fx_paths):
    """digests of every fixture in fresh interpreters under different PYTHONHASHSEED values"""
    broken = []
    seeds = ["0", "1", "2", "12345"] if not ctx.thorough else ["0", "1", "2", "3", "5", "77", "12345", "random"]
    worker = os.path.join(VERIF, "harness", "workers", "c06_digest.py")
    tables = {}
    procs = []
    for s in seeds:
        env = dict(os.environ, PYTHONHASHSEED=s, S2T_REPO=REPO, PYTHONPATH=REPO)
        p = subprocess.Popen(["/venv/bin/python", worker], stdin=subprocess.PIPE, stdout=subprocess.PIPE, stderr=subprocess.DEVNULL, env=env)
        p.stdin.write(json.dumps(fx_paths).encode())
        p.stdin.close()
        procs.append((s, p))
    for s, p in procs:
        out = p.stdout.read()
        p.wait()
        try:
            tables[s] = json.loads(out)
        except Exception:
            broken.append(Broken("correspondence", "c06.worker", f"digest worker failed for seed {s}"))
    if len(tables) >= 2:
        ref_seed = seeds[0]
        for rel, _ in fx_paths:
            vals = {s: tables[s].get(rel) for s in tables}
            ctx.case(("seed", rel, tuple(sorted(tables))), nontrivial=not str(vals[ref_seed]).startswith(("ERR", "OTHER")))
            ctx.count("hashseed/" + ("same" if len(set(vals.values())) == 1 else "DIFFERENT"))
            if len(set(vals.values())) != 1:
                broken.append(Broken("correspondence", "c06.hashseed", f"{rel}: to_json digest differs between hash seeds {vals}",
                                     case={"kind": "seed", "fixture": rel, "seeds": sorted(tables)}))
    ctx.sample({"hash_seeds": seeds, "files": len(fx_paths)})
    return broken


def _stream_model(ctx, fx):
    """real payload streams (image bytes of real results) vs the Lean stream model"""
    broken = []
    rng = ctx.rng
    from sharepoint2text.parsing.extractors.serialization import serialize_extraction
    imgs = []
    for name, data in fx:
        if len(data) > 400_000 or "password" in name:
            continue
        rs = _results_of(name, data) or []
        for r in rs:
            for i in list(r.iterate_images())[:2]:
                try:
                    if i.get_bytes().getbuffer().nbytes > 0:
                        imgs.append((name, i))
                except Exception:
                    pass
        if len(imgs) > ctx.n(12, 60):
            break
    reqs, runs = [], []
    for name, img in imgs:
        content = list(img.get_bytes().getvalue()[:64])
        # work on a small synthetic payload of the same class so the protocol stays small
        im = copy.copy(img)
        for fld in ("data", "image_data"):
            if hasattr(im, fld) and isinstance(getattr(im, fld), io.BytesIO):
                setattr(im, fld, io.BytesIO(bytes(content)))
                break
        else:
            continue
        ops, real = [], []
        handed = None
        for _ in range(rng.randint(3, 10)):
            o = rng.choice(["getBytes", "read", "readAll", "seek", "tell", "toJson", "getvalue"])
            if o == "getBytes":
                handed = im.get_bytes()
                ops.append(["getBytes"])
                real.append({"bytes": list(handed.getvalue()) if handed.tell() == 0 else ["NOT-AT-0", handed.tell()]})
            elif handed is None:
                continue
            elif o == "read":
                k = rng.randint(0, 80)
                ops.append(["read", k])
                real.append({"bytes": list(handed.read(k))})
            elif o == "readAll":
                ops.append(["readAll"])
                real.append({"bytes": list(handed.read())})
            elif o == "seek":
                p = rng.randint(0, 90)
                handed.seek(p)
                ops.append(["seek", p])
                real.append({"pos": p})
            elif o == "tell":
                ops.append(["tell"])
                real.append({"pos": handed.tell()})
            elif o == "getvalue":
                ops.append(["getvalue"])
                real.append({"bytes": list(handed.getvalue())})
            else:
                j = serialize_extraction(im, include_binary=True)
                blob = None
                for v in j.values():
                    if isinstance(v, dict) and ("_bytes" in v or "_bytesio" in v):
                        blob = v.get("_bytes") or v.get("_bytesio")
                ops.append(["toJson"])
                real.append({"json": list(base64.b64decode(blob)) if blob is not None else None})
        reqs.append({"op": "c06.stream", "content": content, "ops": ops})
        runs.append((name, type(img).__name__, real, handed.tell() if handed else 0))
    outs = ctx.drive(reqs)
    for (name, cls, real, pos), o, rq in zip(runs, outs, reqs):
        ctx.case(("stream", name, cls, json.dumps(rq["ops"])), nontrivial=len(rq["ops"]) >= 3)
        ctx.count(f"stream/{cls}")
        if "drv_error" in o or o["answers"] != real or (rq["ops"] and o["pos"] != pos):
            broken.append(Broken("correspondence", "c06.stream", f"{name} {cls}: real={real} pos={pos} model={o}", case={"kind": "stream", "ops": rq["ops"], "cls": cls}))
    if reqs:
        ctx.sample({"stream_case": reqs[0], "model": outs[0]})
    return broken


def _accepted_variants(ctx, fx, per):
    """mutated-but-accepted inputs: mutations of fixtures that still extract to results"""
    out = []
    small = [(n, d) for n, d in fx if len(d) < 200_000 and "password" not in n and corpus.file_type_of(n)]
    for name, data in small:
        for i, (kind, b) in enumerate(corpus.mutations(ctx.rng, name, data, small, per)):
            if _results_of(name, b):
                root, ext = os.path.splitext(name)
                out.append((f"{root}~{kind}{i}{ext}", b))
    return out


def _generated_docs(ctx):
    """documents whose result passes through hash-ordered collections: many style names, names equal up to case,
    names with equal casefold / equal length (whatever a key function could collapse)"""
    from builders import mini
    rng = ctx.rng
    out = []
    pools = [["P1", "p1", "Heading 1", "heading 1", "HEADING 1", "Title", "TITLE"],
             ["a", "b", "c", "d", "e", "f", "g", "h", "i", "j"],
             ["Stra\u00dfe", "STRASSE", "strasse", "\u0130stanbul", "istanbul", "I\u0307stanbul"],
             ["T%d" % i for i in range(40)]]
    for k in range(ctx.n(8, 24)):
        pool = pools[k % len(pools)]
        # the whole pool first (all collisions present), random subsets afterwards
        names = list(pool) if k < len(pools) else rng.sample(pool, min(len(pool), rng.randint(2, len(pool))))
        rng.shuffle(names)
        out.append((f"generated/styles{k}.docx", mini.docx([(n, f"text {i}") for i, n in enumerate(names)])))
        out.append((f"generated/styles{k}.odt", mini.odt(names, [f"p{i}" for i in range(len(names))])))
    return out


def correspondence(ctx):
    fx = corpus.fixtures()
    broken = []
    variants = _accepted_variants(ctx, fx, ctx.n(1, 8)) + _generated_docs(ctx)
    ctx.count("variants/accepted", len(variants))
    with tempfile.TemporaryDirectory(prefix="s2t_c06_") as td:
        fx_paths = [(rel, os.path.join(corpus.RES, rel)) for rel, d in fx if len(d) < (2_600_000 if ctx.thorough else 450_000)]
        for i, (name, b) in enumerate(variants):
            p = os.path.join(td, f"v{i}_" + os.path.basename(name))
            with open(p, "wb") as fh:
                fh.write(b)
            fx_paths.append((name, p))
        broken += _hash_seeds(ctx, fx_paths)
    broken += _repeat_and_input(ctx, fx + variants)
    broken += _observer_sequences(ctx, fx + variants)
    broken += _stream_model(ctx, fx)
    return {"broken": broken, "violations": []}


def search(ctx, broken):
    """the property statement on the real code: digests across seeds, repeat, observers"""
    out = []
    fx = corpus.fixtures()
    for b in broken:
        c = b.case or {}
        if b.kind == "correspondence" and c.get("kind") in ("seed", "repeat", "observe"):
            if ("~" in c.get("fixture", "") or c.get("fixture", "").startswith("generated/")) and c["fixture"] in _DATA:
                c["data_b64"] = base64.b64encode(_DATA[c["fixture"]]).decode()
            out.append(Violation(b.name.replace("c06.", "") + ":" + os.path.basename(c.get("fixture", "?")), b.detail, c))
    if out:
        return out
    # an inventory / theorem broke: run the full oracles
    sub = type(ctx)(ctx.prop, "thorough", ctx.seed)
    fx_paths = [(rel, os.path.join(corpus.RES, rel)) for rel, d in fx if len(d) < 2_600_000]
    for b in _hash_seeds(sub, fx_paths) + _repeat_and_input(sub, fx) + _observer_sequences(sub, fx):
        c = b.case or {}
        out.append(Violation(b.name.replace("c06.", "") + ":" + os.path.basename(c.get("fixture", "?")), b.detail, c))
        if len(out) >= 5:
            break
    return out


def replay(ctx, payload):
    c = payload.get("replay", {})
    fx = dict(corpus.fixtures())
    if "data_b64" in c:
        fx[c["fixture"]] = base64.b64decode(c["data_b64"])
    if c.get("kind") == "seed" and "data_b64" in c:
        with tempfile.TemporaryDirectory(prefix="s2t_c06_") as td:
            p = os.path.join(td, os.path.basename(c["fixture"]))
            with open(p, "wb") as fh:
                fh.write(fx[c["fixture"]])
            b = _hash_seeds(type(ctx)(ctx.prop, "thorough", ctx.seed), [(c["fixture"], p)])
            return (not b), "; ".join(x.detail for x in b) or "digests agree across hash seeds"
    if c.get("kind") == "seed":
        p = [(c["fixture"], os.path.join(corpus.RES, c["fixture"]))]
        b = _hash_seeds(type(ctx)(ctx.prop, "thorough", ctx.seed), p)
        return (not b), "; ".join(x.detail for x in b) or "digests agree across hash seeds"
    if c.get("kind") == "observe":
        name = c["fixture"]
        rs = _results_of(name, fx[name]) or []
        for r in rs[:3]:
            base = _full_json(r)
            seen = {}
            for ob in c["seq"]:
                out = _observe(r, ob)
                if ob in seen and seen[ob] != out:
                    return False, f"observer {ob} not idempotent"
                seen.setdefault(ob, out)
                if _full_json(r) != base:
                    return False, f"to_json changed after {ob}"
        return True, "observation leaves the result unchanged"
    if c.get("kind") == "repeat":
        b = _repeat_and_input(type(ctx)(ctx.prop, "thorough", ctx.seed), [(c["fixture"], fx[c["fixture"]])])
        return (not b), "; ".join(x.detail for x in b) or "repeatable, input untouched"
    return False, "replay names a broken obligation, not an input: " + payload.get("what", "")
