"""C15 — isolation: results independent of history and of concurrent work.

Correspondence (model S2T.Patch / S2T.Cache / S2T.AesPatch / S2T.TempScope vs. the real code):
  * k real `_patched_build_char_map()` sections run under a controlled scheduler (threads pause before
    every read / write of the patched pypdf attribute, every acquire / release of a module-level lock of
    pdf_extractor, and the body) following schedules emitted by the model (`c15.patch_cover`: a walk of
    the whole coarse-turn state graph for k <= 3; random schedules for k = 4, 5); compared per turn:
    kind of event executed / blocked, wrapper depth of the installed function afterwards; at the end:
    depth, depths seen inside the bodies (bodies that raise included).
  * `_get_round_keys` histories vs. `c15.lru`; `_ttf_get_glyph_features` histories on synthetic TrueType
    fonts vs. `c15.font`; extraction sequences over generated plain / RC4 / AES-128 / AES-256 / locked PDFs
    from a pristine pypdf provider vs. `c15.aes`; the 7z generator under exhaust / close / throw consumers
    vs. `c15.temp`.
Oracle of the property statement itself (always run; independent of the Lean model):
  * every document (fixtures + generated, failing ones included) is extracted alone in a forked child
    (isolated baseline, same hash seed); then random sequences and random preemptive thread workloads
    in-process: each digest must equal the baseline, and afterwards the patched pypdf attributes are the
    originals, every module-level value of the package outside the declared transparent caches is
    unchanged, the private temp root is empty, the fd count, cwd, environ, recursion limit are unchanged;
  * search(): interleavings of real sections explored directly (phase granularity exhaustively for
    k <= 3, event granularity depth-first for k = 2, random beyond), font-cache and AES history checks.
"""
from __future__ import annotations

import gc
import hashlib
import importlib
import io
import itertools
import json
import os
import re
import shutil
import signal
import struct
import sys
import tempfile
import threading
import time
import types

from run import Broken, Violation, Infra

GEN = ["GlobalWrites"]
RULE = ("patch section: every edge of the model's coarse-turn state graph for k<=3 threads (+random k=4,5), bodies raise at random; "
        "caches: random key / (font, glyph ids) histories with repeats, evictions and failing keys; AES: all orders of "
        "generated plain/RC4/AES-128/AES-256/locked PDFs from a pristine provider; sequences / threads: random orders of "
        "fixtures + generated + damaged documents. distinct = distinct (schedule | history | sequence); non-trivial = "
        "at least two sections overlap | a repeated key | a sequence of >= 2 documents")
ASSUMPTIONS = [
    "threads are preempted only between the observable events of the section (attribute read/write, lock acquire/release); "
    "the silent steps between them touch only _CHAR_MAP_PATCH_USERS under the lock",
    "make_wrapper(f) is a closure over f (wrapper depth is read from __closure__/__wrapped__)",
    "functools.lru_cache and collections.OrderedDict behave as documented (modelled by S2T.Cache.lruGet)",
    "the functions behind the caches (_expand_key, mimetypes.guess_type with an unchanged database, router lookups, "
    "_ttf_parse_font) are pure",
    "pypdf: /V 5 needs AES in PdfReader(), /V 4 only when strings/streams are decrypted (tied by the AES correspondence)",
    "the AES provider patch is one-way by design of the library (open known finding aes.provider-patch-not-restored)",
    "one patched cell: pypdf < 6.6 (pypdf._page.build_char_map); checked by the theorem inventory_side_conditions",
]
TRUSTED = ["controlled scheduler + attribute/lock instrumentation in harness/props/c15.py",
           "tools/gen/globalwrites.py (AST inventory of global writes)",
           "CPython threading.Lock, contextlib.contextmanager, try/finally, generator close semantics"]

REPO = os.environ.get("S2T_REPO", "/repo")
RES = os.path.join(REPO, "sharepoint2text", "tests", "resources")


def _pe():
    return importlib.import_module("sharepoint2text.parsing.extractors.pdf.pdf_extractor")


# =============================================================================================
#  wrapper depth of a function object over an original
# =============================================================================================
def depth_of(fn, orig, _lim=40):
    """number of wrappers between fn and orig (0 = fn is orig), -1 if orig is not reachable"""
    if fn is orig:
        return 0
    if _lim == 0 or not callable(fn):
        return -1
    nxt = []
    w = getattr(fn, "__wrapped__", None)
    if w is not None:
        nxt.append(w)
    for cell in getattr(fn, "__closure__", None) or ():
        try:
            v = cell.cell_contents
        except ValueError:
            continue
        if callable(v):
            nxt.append(v)
    best = -1
    for v in nxt:
        d = depth_of(v, orig, _lim - 1)
        if d >= 0 and (best < 0 or d + 1 < best):
            best = d + 1
    return best


# =============================================================================================
#  controlled scheduler for real `_patched_build_char_map()` sections
# =============================================================================================
class Stuck(Exception):
    pass


class Controlled:
    """Runs k real sections; `turn(t)` lets thread t execute its pending observable event and run to the next one."""

    TIMEOUT = 8.0

    def __init__(self, k, raises=None, lines=False):
        self.pe = _pe()
        self.k = k
        self.lines = lines       # also pause before every source line of the section (sys.settrace)
        f = self.pe._patched_build_char_map
        self.code = getattr(getattr(f, "__wrapped__", f), "__code__", None)
        self.raises = list(raises or [False] * k)
        self.targets = [(m, a) for (m, a) in self.pe._get_pypdf_char_map_patcher()[0]]
        self.mod, self.attr = self.targets[0]
        self.orig = self.mod.__dict__[self.attr]
        self.go = [threading.Semaphore(0) for _ in range(k)]
        self.arrived = [threading.Semaphore(0) for _ in range(k)]
        self.pending = [None] * k
        self.blocked = [False] * k
        self.finished = [False] * k
        self.seen = [None] * k
        self.errors = [None] * k
        self.tls = threading.local()
        self.free = False
        self.threads = []
        self._saved_cls = []
        self._saved_locks = []

    # ---- instrumentation
    def tid(self):
        return getattr(self.tls, "tid", None)

    def event(self, kind):
        t = self.tid()
        if t is None or self.free:
            return
        self.pending[t] = kind
        self.arrived[t].release()
        self.go[t].acquire()

    def _instrument(self):
        ctl = self
        for mod, attr in self.targets:
            def mk(attr):
                def fget(self_):
                    ctl.event("read")
                    try:
                        return self_.__dict__[attr]
                    except KeyError:
                        raise AttributeError(attr)

                def fset(self_, v):
                    ctl.event("write")
                    self_.__dict__[attr] = v

                def fdel(self_):
                    ctl.event("write")
                    del self_.__dict__[attr]
                return property(fget, fset, fdel)
            cls = type("InstrumentedModule", (types.ModuleType,), {attr: mk(attr)})
            self._saved_cls.append((mod, mod.__class__))
            mod.__class__ = cls
        lock_types = (type(threading.Lock()), type(threading.RLock()))
        for name, val in list(vars(self.pe).items()):
            if isinstance(val, lock_types):
                self._saved_locks.append((name, val))
                setattr(self.pe, name, _LockProxy(val, self))

    def _restore_instrumentation(self):
        for mod, cls in self._saved_cls:
            mod.__class__ = cls
        for name, val in self._saved_locks:
            setattr(self.pe, name, val)
        self._saved_cls, self._saved_locks = [], []

    # ---- threads
    def _tracer(self, frame, event, arg):
        return self._local if frame.f_code is self.code else None

    def _local(self, frame, event, arg):
        if event == "line":
            self.event("line")
        return self._local

    def _worker(self, t):
        self.tls.tid = t
        if self.lines and self.code is not None:
            sys.settrace(self._tracer)
        try:
            with self.pe._patched_build_char_map():
                self.event("body")
                self.seen[t] = depth_of(self.mod.__dict__[self.attr], self.orig)
                if self.raises[t]:
                    raise _BodyFailed()
        except _BodyFailed:
            pass
        except BaseException as e:  # noqa: BLE001 - reported, not swallowed
            self.errors[t] = repr(e)
        finally:
            sys.settrace(None)
            self.finished[t] = True
            self.arrived[t].release()

    def start(self):
        self._instrument()
        for t in range(self.k):
            th = threading.Thread(target=self._worker, args=(t,), daemon=True)
            self.threads.append(th)
            th.start()
        for t in range(self.k):
            self._wait(t)

    def _wait(self, t):
        if not self.arrived[t].acquire(timeout=self.TIMEOUT):
            raise Stuck(f"thread {t} did not reach its next observable event within {self.TIMEOUT}s")

    def depth(self):
        return depth_of(self.mod.__dict__.get(self.attr), self.orig)

    def turn(self, t):
        """(kind, depth after)"""
        if t >= self.k or self.finished[t]:
            return ("done", self.depth())
        kind = self.pending[t]
        self.blocked[t] = False
        self.go[t].release()
        self._wait(t)
        if self.blocked[t]:
            return ("blocked", self.depth())
        return (kind, self.depth())

    def all_done(self):
        return all(self.finished)

    def enabled(self):
        return [t for t in range(self.k) if not self.finished[t]]

    def finish(self):
        """let everything run to completion uncontrolled, restore instrumentation; returns leftover depth"""
        self.free = True
        for t in range(self.k):
            if not self.finished[t]:
                self.go[t].release()
        for th in self.threads:
            th.join(timeout=self.TIMEOUT)
        alive = [i for i, th in enumerate(self.threads) if th.is_alive()]
        self._restore_instrumentation()
        d = self.depth()
        return d, alive


class _BodyFailed(Exception):
    pass


class _LockProxy:
    def __init__(self, inner, ctl):
        self.inner, self.ctl = inner, ctl

    def acquire(self, blocking=True, timeout=-1):
        t = self.ctl.tid()
        if t is None:
            return self.inner.acquire(blocking, timeout)
        while True:
            if self.ctl.free:
                return self.inner.acquire(blocking, timeout)
            self.ctl.event("acq")
            if self.ctl.free:
                return self.inner.acquire(blocking, timeout)
            if self.inner.acquire(False):
                return True
            self.ctl.blocked[t] = True

    def release(self):
        self.ctl.event("rel")
        self.inner.release()

    def __enter__(self):
        self.acquire()
        return self

    def __exit__(self, *a):
        self.release()
        return False

    def locked(self):
        return self.inner.locked()


def _bookkeeping_snapshot():
    """module-level ints / lists / dicts of pdf_extractor that are not declared caches or constant tables"""
    pe = _pe()
    out = {}
    for n, v in vars(pe).items():
        if n.startswith("__") or n == "_FONT_CACHE":
            continue
        if type(v) in (int, bool, list):
            out[n] = (type(v).__name__, repr(v) if not isinstance(v, list) else len(v))
    return out


def _bookkeeping_reset(snap_values):
    pe = _pe()
    for n, v in snap_values.items():
        cur = getattr(pe, n)
        if isinstance(cur, list):
            cur[:] = v
        else:
            setattr(pe, n, v)


def _bookkeeping_values():
    pe = _pe()
    return {n: (list(v) if isinstance(v, list) else v) for n, v in vars(pe).items()
            if not n.startswith("__") and n != "_FONT_CACHE" and type(v) in (int, bool, list)}


def run_real_schedule(k, sched, raises=None, stop_when_done=False):
    """Runs the schedule on the real code. Returns dict(trace, F, seen, leftover, bookkeeping_changed, errors)."""
    values0 = _bookkeeping_values()
    snap0 = _bookkeeping_snapshot()
    ctl = Controlled(k, raises)
    trace = []
    stuck = None
    try:
        ctl.start()
        for t in sched:
            kind, d = ctl.turn(t)
            trace.append([t, kind, d])
            if stop_when_done and ctl.all_done():
                break
    except Stuck as e:
        stuck = str(e)
    all_done = ctl.all_done()
    f_at_end = ctl.depth()
    seen = list(ctl.seen)
    snap_end = _bookkeeping_snapshot()
    left, alive = ctl.finish()
    changed = sorted(n for n in snap0 if snap0.get(n) != snap_end.get(n))
    # put the process back into a sane state for the next run, whatever the code under test did
    ctl.mod.__dict__[ctl.attr] = ctl.orig
    _bookkeeping_reset(values0)
    return {"trace": trace, "F": f_at_end, "allDone": all_done, "seen": seen, "leftover": left,
            "bookkeeping_changed": changed, "errors": [e for e in ctl.errors if e], "stuck": stuck, "alive": alive}


def real_signature(lines=False):
    ctl = Controlled(1, lines=lines)
    ev = []
    try:
        ctl.start()
        for _ in range(64):
            if ctl.all_done():
                break
            kind, _d = ctl.turn(0)
            ev.append(kind)
    except Stuck as e:
        ev.append("stuck:" + str(e))
    ctl.finish()
    ctl.mod.__dict__[ctl.attr] = ctl.orig
    return ev


# =============================================================================================
#  oracle for interleavings (property statement on the real sections; no model involved)
# =============================================================================================
def check_interleaving(k, sched, raises=None, phase=False, lines=False):
    """Runs real sections under `sched`; returns (ok, what, result).  With phase=True an entry t means
    'run thread t until it is about to run its body / until it is finished' (two entries per thread)."""
    values0 = _bookkeeping_values()
    snap0 = _bookkeeping_snapshot()
    ctl = Controlled(k, raises, lines=lines)
    problems = []
    trace = []
    try:
        ctl.start()
        if phase:
            for t in sched:
                if ctl.finished[t]:
                    continue
                first = ctl.pending[t] != "body"
                for _ in range(200):
                    if ctl.finished[t]:
                        break
                    if first and ctl.pending[t] == "body":
                        break
                    kind, d = ctl.turn(t)
                    trace.append([t, kind, d])
                    if kind == "blocked":
                        problems.append(f"thread {t} blocked at phase granularity (lock held across the body?)")
                        break
        else:
            for t in sched:
                kind, d = ctl.turn(t)
                trace.append([t, kind, d])
        # drain: lowest unfinished thread first
        for _ in range(400):
            if ctl.all_done():
                break
            progressed = False
            for t in ctl.enabled():
                kind, d = ctl.turn(t)
                trace.append([t, kind, d])
                if kind != "blocked":
                    progressed = True
                    break
            if not progressed:
                problems.append("deadlock: every unfinished thread is blocked")
                break
    except Stuck as e:
        problems.append("stuck: " + str(e))
    done = ctl.all_done()
    f_end = ctl.depth()
    left, alive = ctl.finish()
    snap1 = _bookkeeping_snapshot()
    ctl.mod.__dict__[ctl.attr] = ctl.orig
    _bookkeeping_reset(values0)
    if done and f_end != 0:
        problems.append(f"after all sections ended {ctl.mod.__name__}.{ctl.attr} is wrapped {f_end}x instead of being the original"
                        if f_end > 0 else f"after all sections ended {ctl.mod.__name__}.{ctl.attr} is neither the original nor a wrapper of it")
    for t, d in enumerate(ctl.seen):
        if d is not None and d != 1:
            problems.append(f"thread {t} extracted with wrapper depth {d} (expected exactly 1)")
    if done:
        ch = sorted(n for n in snap0 if snap0.get(n) != snap1.get(n))
        if ch:
            problems.append("module-level state of pdf_extractor not restored: " + ", ".join(f"{n}: {snap0[n][1]} -> {snap1[n][1]}" for n in ch))
    if ctl.errors and any(ctl.errors):
        problems.append("section raised: " + "; ".join(e for e in ctl.errors if e))
    return (not problems, "; ".join(problems), {"trace": trace, "seen": list(ctl.seen), "F": f_end})


def search_interleavings(ctx, budget_s=40.0, first_only=True):
    """phase-granularity permutations for k = 2, 3 (exhaustive), then event-granularity DFS for k = 2, then random."""
    t0 = time.time()
    found = []

    def report(k, sched, raises, phase, what):
        found.append(Violation("patch.interleaving-not-isolated",
                               f"k={k} {'phase' if phase else 'event'} schedule {sched}: {what}",
                               {"kind": "interleaving", "k": k, "schedule": list(sched), "raises": list(raises), "phase": phase}))

    for k in (2, 3):
        base = [t for t in range(k) for _ in range(2)]
        for sched in sorted(set(itertools.permutations(base))):
            for raises in ([False] * k, [True] + [False] * (k - 1)):
                ok, what, _ = check_interleaving(k, list(sched), raises, phase=True)
                ctx.case(("oracle-phase", k, sched, tuple(raises)), nontrivial=True)
                if not ok:
                    report(k, sched, raises, True, what)
                    if first_only:
                        return found
            if time.time() - t0 > budget_s:
                return found
    # event granularity, preemption-bounded: A runs i events, B runs j events, then everything drains (A first)
    sig_len = len(real_signature())
    total = 2 * sig_len
    for a, b in ((0, 1), (1, 0)):
        for i in range(1, sig_len + 1):
            for j in range(1, sig_len + 1):
                sched = [a] * i + [b] * j
                ok, what, _ = check_interleaving(2, sched, [False, False])
                ctx.case(("oracle-bounded", tuple(sched)), nontrivial=True)
                if not ok:
                    report(2, sched, [False, False], False, what)
                    if first_only:
                        return found
        if time.time() - t0 > budget_s:
            return found
    if ctx.thorough:
        for i in range(1, sig_len + 1):
            for j in range(1, sig_len + 1):
                for l in range(1, sig_len + 1, 2):
                    sched = [0] * i + [1] * j + [2] * l
                    ok, what, _ = check_interleaving(3, sched, [False, False, False])
                    ctx.case(("oracle-bounded3", tuple(sched)), nontrivial=True)
                    if not ok:
                        report(3, sched, [False, False, False], False, what)
                        if first_only:
                            return found
            if time.time() - t0 > budget_s:
                break
    # event granularity, k = 2: DFS over schedules (threads re-run from scratch for every schedule)

    def dfs(prefix, counts):
        if found and first_only:
            return
        if time.time() - t0 > budget_s:
            return
        if len(prefix) >= total:
            return
        for t in (0, 1):
            if counts[t] >= sig_len:
                continue
            sched = prefix + [t]
            if len(sched) >= 4 and len(sched) % 2 == 0 or len(sched) == total:
                ok, what, _ = check_interleaving(2, sched, [False, False])
                ctx.case(("oracle-event", tuple(sched)), nontrivial=True)
                if not ok:
                    report(2, sched, [False, False], False, what)
                    if first_only:
                        return
            c2 = list(counts)
            c2[t] += 1
            dfs(sched, c2)

    dfs([], [0, 0])
    while not found and time.time() - t0 < budget_s:
        k = ctx.rng.choice((3, 4))
        sched = [ctx.rng.randrange(k) for _ in range(ctx.rng.randrange(4, 12 * k))]
        raises = [ctx.rng.random() < 0.3 for _ in range(k)]
        ok, what, _ = check_interleaving(k, sched, raises)
        ctx.case(("oracle-random", k, tuple(sched)), nontrivial=True)
        if not ok:
            report(k, sched, raises, False, what)
    return found


def oracle_lines(ctx, budget_s):
    """always-on: the real sections with pause points before every *source line* of the section as well
    (finer than the model's observable events); all schedules 'A runs i steps, B runs j steps, A finishes,
    B finishes' for two threads, both role assignments; random three-thread schedules with the remaining time."""
    t0 = time.time()
    n = len(real_signature(lines=True))
    ctx.coverage["section_steps_line_granularity"] = n
    for a, b in ((0, 1),):          # the threads run the same code: one role assignment suffices
        for i in range(1, n + 1):
            for j in range(1, n + 1):
                if time.time() - t0 > budget_s:
                    ctx.notes.append(f"line-granularity exploration stopped by its time budget at i={i}/{n}")
                    return []
                sched = [a] * i + [b] * j
                ok, what, _ = check_interleaving(2, sched, [False, False], lines=True)
                ctx.case(("oracle-lines", tuple(sched)), nontrivial=True)
                ctx.count("lines/k=2")
                if not ok:
                    return [Violation("patch.interleaving-not-isolated", f"k=2 line-granularity schedule {sched}: {what}",
                                      {"kind": "interleaving", "k": 2, "schedule": sched, "raises": [False, False], "phase": False, "lines": True})]
    t_rand = time.time()
    while time.time() - t0 < budget_s and time.time() - t_rand < ctx.n(2, 30):
        sched = [ctx.rng.randrange(3) for _ in range(ctx.rng.randrange(6, 3 * n))]
        raises = [ctx.rng.random() < 0.3 for _ in range(3)]
        ok, what, _ = check_interleaving(3, sched, raises, lines=True)
        ctx.case(("oracle-lines3", tuple(sched)), nontrivial=True)
        ctx.count("lines/k=3")
        if not ok:
            return [Violation("patch.interleaving-not-isolated", f"k=3 line-granularity schedule {sched}: {what}",
                              {"kind": "interleaving", "k": 3, "schedule": sched, "raises": raises, "phase": False, "lines": True})]
    return []


# =============================================================================================
#  correspondence: patch section
# =============================================================================================
def corr_patch(ctx):
    broken = []
    outs = ctx.drive([{"op": "c15.patch_signature"}] + [{"op": "c15.patch_cover", "k": k} for k in (1, 2, 3)])
    model_sig = outs[0].get("events")
    sig = real_signature()
    ctx.coverage["section_signature"] = sig
    if sig != model_sig:
        broken.append(Broken("correspondence", "c15.patch_signature",
                             f"observable events of one real section {sig} differ from the model's {model_sig}",
                             case={"real": sig, "model": model_sig}))
        return broken
    scheds = []
    for k, o in zip((1, 2, 3), outs[1:]):
        ss = o["schedules"]
        ctx.coverage[f"model_states_k{k}"] = o["states"]
        if k == 3 and not ctx.thorough:
            ss = ctx.rng.sample(ss, min(len(ss), 110))
        scheds += [(k, s) for s in ss]
    for k in (4, 5):
        for _ in range(ctx.n(12, 150)):
            scheds.append((k, [ctx.rng.randrange(k) for _ in range(ctx.rng.randrange(8, 14 * k))]))
    # A.enter B.enter A.exit B.exit and friends, always
    scheds.append((2, [0] * 5 + [1] * 3 + [0] * 4 + [1] * 6))
    reqs = [{"op": "c15.patch_run", "k": k, "sched": s} for k, s in scheds]
    mouts = ctx.drive(reqs)
    bad = 0
    for (k, s), mo in zip(scheds, mouts):
        if "drv_error" in mo:
            broken.append(Broken("correspondence", "driver", mo["drv_error"], case={"k": k, "sched": s}))
            continue
        raises = [ctx.rng.random() < 0.35 for _ in range(k)]
        r = run_real_schedule(k, s, raises)
        overlap = any(x[2] == 1 and x[1] == "acq" for x in mo["trace"]) or k > 1
        ctx.case(("patch", k, tuple(s)), nontrivial=overlap)
        ctx.count(f"patch/k={k}/" + ("blocked-turns" if any(x[1] == "blocked" for x in mo["trace"]) else "no-blocking"))
        real_obs = sorted([t, d] for t, d in enumerate(r["seen"]) if d is not None)
        model_obs = sorted(mo["obs"])
        diff = None
        if r["stuck"] or r["alive"]:
            diff = f"real threads stuck: {r['stuck']} alive={r['alive']}"
        elif r["trace"] != mo["trace"]:
            i = next((i for i, (a, b) in enumerate(zip(r["trace"], mo["trace"])) if a != b), min(len(r["trace"]), len(mo["trace"])))
            diff = f"turn {i}: real {r['trace'][i] if i < len(r['trace']) else None} model {mo['trace'][i] if i < len(mo['trace']) else None}"
        elif r["F"] != mo["F"] or r["allDone"] != mo["allDone"]:
            diff = f"final depth/allDone real ({r['F']},{r['allDone']}) model ({mo['F']},{mo['allDone']})"
        elif real_obs != model_obs:
            diff = f"depths seen inside bodies real {real_obs} model {model_obs}"
        elif r["allDone"] and r["bookkeeping_changed"]:
            diff = f"module-level bookkeeping not restored after all sections ended: {r['bookkeeping_changed']}"
        elif r["errors"]:
            diff = f"section raised {r['errors']}"
        if diff:
            bad += 1
            if bad <= 8:
                broken.append(Broken("correspondence", "c15.patch_run", diff, case={"k": k, "sched": s, "raises": raises}))
    ctx.sample({"patch_schedule": scheds[len(scheds) // 2][1], "k": scheds[len(scheds) // 2][0],
                "model_trace_head": mouts[len(scheds) // 2].get("trace", [])[:6]})
    ctx.coverage["patch_schedules"] = len(scheds)
    ctx.coverage["patch_mismatches"] = bad
    return broken


# =============================================================================================
#  caches
# =============================================================================================
def _keys_pool():
    pool = {}
    for i in range(7):
        n = (16, 24, 32)[i % 3]
        pool[i] = bytes((i * 37 + j) % 256 for j in range(n))
    pool[7] = b"short"              # invalid lengths: _expand_key raises ValueError
    pool[8] = bytes(17)
    pool[9] = pool[0] + bytes(range(8))      # AES-192 / AES-256 keys that share their first 16 bytes with key 0
    pool[10] = pool[0] + bytes(range(16))
    pool[11] = pool[1][:16] + pool[1][16:][::-1]   # same first 16 bytes as key 1, same length
    return pool, [7, 8]


def corr_lru(ctx):
    aes = importlib.import_module("sharepoint2text.parsing.extractors.pdf._pypdf_aes_fallback")
    broken, violations = [], []
    pool, bad = _keys_pool()
    inv = {v: k for k, v in pool.items()}
    cases = []
    for _ in range(ctx.n(40, 600)):
        n = ctx.rng.randrange(1, 14)
        width = ctx.rng.choice((3, 5, 9, 12))
        cases.append([ctx.rng.randrange(width) for _ in range(n)])
    cases.append([0, 1, 2, 3, 0, 4, 7, 1, 5, 6, 0])
    cases.append([0, 9, 10, 0, 1, 11, 1, 9])
    outs = ctx.drive([{"op": "c15.lru", "cap": aes._ROUND_KEY_CACHE_MAX, "keys": ks, "bad": bad} for ks in cases])
    saved = list(aes._ROUND_KEY_CACHE.items())
    nbad = 0
    for ks, mo in zip(cases, outs):
        aes._ROUND_KEY_CACHE.clear()
        ctx.case(("lru", tuple(ks)), nontrivial=len(set(ks)) < len(ks))
        ctx.count("lru/" + ("evicting" if len(set(k for k in ks if k not in bad)) > aes._ROUND_KEY_CACHE_MAX else "fits"))
        for i, (kid, st) in enumerate(zip(ks, mo["steps"])):
            key = pool[kid]
            try:
                got = aes._get_round_keys(key)
                res = "ok"
            except ValueError:
                got, res = None, "err"
            order = [inv.get(k, "unknown-key:" + bytes(k).hex()[:12]) for k in aes._ROUND_KEY_CACHE.keys()]
            # oracle: transparency — the cached answer is what the uncached function gives
            if res == "ok" and got != aes._expand_key(key):
                violations.append(Violation("cache.round-keys-not-transparent",
                                            f"_get_round_keys(bytes.fromhex('{key.hex()}')) after the history of keys {[pool[x].hex() for x in ks[:i]]} "
                                            f"differs from _expand_key of the same key",
                                            {"kind": "lru", "keys": ks[: i + 1]}))
            mres = "err" if st["res"] == "err" else "ok"
            if res != mres or order != st["order"]:
                nbad += 1
                if nbad <= 5:
                    broken.append(Broken("correspondence", "c15.lru", f"step {i}: real ({res},{order}) model ({mres},{st['order']})",
                                         case={"keys": ks}))
                break
    aes._ROUND_KEY_CACHE.clear()
    aes._ROUND_KEY_CACHE.update(saved)
    return broken, violations


def make_ttf(n_glyphs, salt=0, loc_format=1):
    """minimal TrueType font: head, maxp, loca, glyf with distinct bounding boxes per glyph"""
    glyphs = [struct.pack(">hhhhh", 1, 0, 0, 100 * (i + 1) + salt, 200 * (i + 1) + salt) + b"\0\0" for i in range(n_glyphs)]
    glyf = b"".join(glyphs)
    if loc_format == 1:
        loca = b"".join(struct.pack(">I", 12 * i) for i in range(n_glyphs + 1))
    else:
        loca = b"".join(struct.pack(">H", 6 * i) for i in range(n_glyphs + 1))
    head = bytearray(54)
    head[18:20] = struct.pack(">H", 2048)
    head[50:52] = struct.pack(">h", loc_format)
    maxp = struct.pack(">IH", 0x10000, n_glyphs)
    tabs = [(b"head", bytes(head)), (b"maxp", maxp), (b"loca", loca), (b"glyf", glyf)]
    off = 12 + 16 * len(tabs)
    d = body = b""
    for t, c in tabs:
        d += struct.pack(">4sIII", t, 0, off + len(body), len(c))
        body += c
    return struct.pack(">IHHHH", 0x10000, len(tabs), 0, 0, 0) + d + body


def _fonts():
    return {0: make_ttf(4), 1: make_ttf(6, salt=7), 2: make_ttf(5, loc_format=0), 3: b"\0" * 8, 4: make_ttf(3, salt=1)[:-20]}


def _font_call(pe, font, gids):
    r = pe._ttf_get_glyph_features(font, list(gids))
    return None if r is None else (r[0], dict(r[1]))


_FONT_ALONE = {}
_FONT_SCRIPT = r"""
import sys, json, os
sys.path.insert(0, sys.argv[1])
import logging; logging.disable(logging.CRITICAL)
from sharepoint2text.parsing.extractors.pdf import pdf_extractor as pe
out = []
for font_hex, gids in json.load(sys.stdin):
    r, w = os.pipe()
    pid = os.fork()
    if pid == 0:
        try:
            res = pe._ttf_get_glyph_features(bytes.fromhex(font_hex), list(gids))
            os.write(w, json.dumps(None if res is None else [res[0], sorted([k, list(v)] for k, v in res[1].items())]).encode())
        finally:
            os._exit(0)
    os.close(w)
    data = b""
    while True:
        b = os.read(r, 65536)
        if not b:
            break
        data += b
    os.close(r)
    os.waitpid(pid, 0)
    out.append(json.loads(data))
print(json.dumps(out))
"""


def _norm_font(res):
    return None if res is None else [res[0], sorted([k, list(v)] for k, v in res[1].items())]


def font_alone(calls):
    """{(font id, gids): result} of each call made alone in a pristine interpreter (one fresh process, one fork per call):
    independent of every cache the library may keep, known to this harness or not"""
    import subprocess
    fonts = _fonts()
    need = sorted({(f, tuple(g)) for f, g in calls} - set(_FONT_ALONE))
    if need:
        p = subprocess.run([sys.executable, "-c", _FONT_SCRIPT, REPO], input=json.dumps([[fonts[f].hex(), list(g)] for f, g in need]).encode(),
                           capture_output=True, timeout=300)
        if p.returncode != 0:
            raise Infra("isolated font evaluation failed: " + p.stderr.decode()[-400:])
        for key, res in zip(need, json.loads(p.stdout.decode().strip().splitlines()[-1])):
            _FONT_ALONE[key] = res
    return {(f, tuple(g)): _FONT_ALONE[(f, tuple(g))] for f, g in calls}


def check_font_history(calls):
    """oracle: every call in the history returns what it returns alone in a pristine process"""
    pe = _pe()
    fonts = _fonts()
    alone = font_alone(calls)
    saved = dict(pe._FONT_CACHE)
    pe._FONT_CACHE.clear()
    try:
        for i, (f, gids) in enumerate(calls):
            got = _norm_font(_font_call(pe, fonts[f], gids))
            want = alone[(f, tuple(gids))]
            if got != want:
                return False, (f"_ttf_get_glyph_features(font#{f}, {list(gids)}) after history {[(a, list(b)) for a, b in calls[:i]]} returned {got}, "
                               f"alone in a fresh process it returns {want}")
        return True, "every call equals its isolated result"
    finally:
        pe._FONT_CACHE.clear()
        pe._FONT_CACHE.update(saved)


def _font_histories(ctx, n):
    nglyph = {0: 4, 1: 6, 2: 5, 3: 0, 4: 3}
    cases = []
    for _ in range(n):
        calls = []
        for _ in range(ctx.rng.randrange(1, 7)):
            f = ctx.rng.choice((0, 0, 1, 2))
            gids = sorted(ctx.rng.sample(range(nglyph[f]), ctx.rng.randrange(0, nglyph[f] + 1)))
            calls.append((f, gids))
        cases.append(calls)
    cases.append([(0, [0]), (0, [1, 2]), (1, [5]), (0, [0, 3])])
    cases.append([(2, [1]), (2, [2]), (2, [1])])
    return cases


def corr_font(ctx):
    pe = _pe()
    fonts = _fonts()
    broken, violations = [], []
    cases = _font_histories(ctx, ctx.n(40, 500))
    font_alone([c for calls in cases for c in calls])          # one pristine process for all distinct calls
    outs = ctx.drive([{"op": "c15.font", "calls": [{"font": f, "gids": g} for f, g in calls]} for calls in cases])
    saved = dict(pe._FONT_CACHE)
    nbad = 0
    for calls, mo in zip(cases, outs):
        pe._FONT_CACHE.clear()
        ctx.case(("font", tuple((f, tuple(g)) for f, g in calls)), nontrivial=len({f for f, _ in calls}) < len(calls))
        ctx.count("font/" + ("repeated-font" if len({f for f, _ in calls}) < len(calls) else "distinct-fonts"))
        for i, ((f, gids), want) in enumerate(zip(calls, mo["results"])):
            got = _font_call(pe, fonts[f], gids)
            keys = None if got is None else list(got[1].keys())
            if keys != want:
                nbad += 1
                if nbad <= 5:
                    broken.append(Broken("correspondence", "c15.font", f"call {i}: real glyph ids {keys} model {want}",
                                         case={"calls": [[f, g] for f, g in calls]}))
                break
        ok, what = check_font_history(calls)                     # the statement itself, against the pristine process
        if not ok and not violations:
            violations.append(Violation("cache.font-features-depend-on-history", what, {"kind": "font", "calls": [[f, g] for f, g in calls]}))
    pe._FONT_CACHE.clear()
    pe._FONT_CACHE.update(saved)
    # damaged fonts: cached None must stay None and be what the uncached call gives
    for f in (3, 4):
        ok, what = check_font_history([(f, [0]), (f, [0, 1])])
        ctx.case(("font-damaged", f))
        if not ok:
            violations.append(Violation("cache.font-features-depend-on-history", what, {"kind": "font", "calls": [[f, [0]], [f, [0, 1]]]}))
    return broken, violations


def corr_lru_decorated(ctx):
    """functools caches: cached(x) == __wrapped__(x) over histories; the registry is stable"""
    violations = []
    arch = importlib.import_module("sharepoint2text.parsing.extractors.archive_extractor")
    epub = importlib.import_module("sharepoint2text.parsing.extractors.epub_extractor")
    shared = importlib.import_module("sharepoint2text.parsing.extractors.open_office._shared")
    ser = importlib.import_module("sharepoint2text.parsing.extractors.serialization")
    names = ["a.docx", "b.PDF", "x/y.tar.gz", "noext", "p.png", "q.xhtml", "w.7z", ".hidden", "z.unknownext", "m.eml", "t.txt", "s.svg"]
    fns = [(arch._is_supported_file_cached, False), (arch._get_file_extractor_cached, True), (epub._guess_content_type, False), (shared.guess_content_type, False)]
    for fn, may_raise in fns:
        for _ in range(ctx.n(3, 20)):
            hist = [ctx.rng.choice(names) for _ in range(ctx.rng.randrange(1, 12))]
            for i, x in enumerate(hist):
                def call(g):
                    try:
                        return ("ok", g(x))
                    except Exception as e:  # noqa: BLE001
                        return ("err", type(e).__name__)
                a, b = call(fn), call(fn.__wrapped__)
                ctx.case(("lru-deco", fn.__name__, tuple(hist[: i + 1])), nontrivial=i > 0)
                if a != b:
                    violations.append(Violation("cache.lru-not-transparent", f"{fn.__name__}({x!r}) after {hist[:i]} = {a}, uncached {b}",
                                                {"kind": "lru-deco", "fn": fn.__name__, "hist": hist[: i + 1]}))
    r1 = dict(ser._get_type_registry())
    r2 = dict(ser._get_type_registry())
    if r1 != r2:
        violations.append(Violation("cache.type-registry-unstable", "two calls of _get_type_registry differ", {"kind": "registry"}))
    return violations


# =============================================================================================
#  generated documents
# =============================================================================================
class Workdir:
    def __init__(self):
        self.root = tempfile.mkdtemp(prefix="s2t_c15_")
        self.docs = os.path.join(self.root, "docs")
        self.tmp = os.path.join(self.root, "tmp")
        os.makedirs(self.docs)
        os.makedirs(self.tmp)

    def close(self):
        shutil.rmtree(self.root, ignore_errors=True)


def _aes_cells():
    """(object, attribute) cells written by patch_pypdf_fallback_aes — names from the source via AST"""
    import ast
    import pypdf._crypt_providers as providers
    import pypdf._crypt_providers._fallback as fb
    import pypdf._encryption as enc
    aes = importlib.import_module("sharepoint2text.parsing.extractors.pdf._pypdf_aes_fallback")
    env = {"fb": fb, "providers": providers, "enc": enc}
    with open(aes.__file__, encoding="utf-8") as fh:
        tree = ast.parse(fh.read())
    cells = []
    for f in ast.walk(tree):
        if isinstance(f, ast.FunctionDef) and f.name == "patch_pypdf_fallback_aes":
            for n in ast.walk(f):
                if isinstance(n, ast.Assign):
                    for t in n.targets:
                        if isinstance(t, ast.Attribute):
                            parts = ast.unparse(t).split(".")
                            if parts[0] in env:
                                obj = env[parts[0]]
                                for p in parts[1:-1]:
                                    obj = getattr(obj, p)
                                cells.append((obj, parts[-1], ast.unparse(t)))
    return cells


class AesState:
    """pristine snapshot of the AES provider cells; reset() puts pypdf back to unpatched"""

    def __init__(self):
        self.cells = _aes_cells()
        self.pristine = [(o, a, o.__dict__.get(a, getattr(o, a, None))) for o, a, _ in self.cells]
        self.was_pristine = self.is_pristine_by_origin()

    def is_pristine_by_origin(self):
        import pypdf._crypt_providers._fallback as fb
        return getattr(fb.aes_cbc_decrypt, "__module__", "") == fb.__name__

    def reset(self):
        for o, a, v in self.pristine:
            setattr(o, a, v)

    def patched(self):
        return any(getattr(o, a) is not v for o, a, v in self.pristine)

    def changed_cells(self):
        return [name for (o, a, v), (_, _, name) in zip(self.pristine, self.cells) if getattr(o, a) is not v]


def build_pdfs(wd, aes_state):
    """plain / RC4 / AES-128 / AES-256 (empty user password) and locked variants, written with pypdf itself.
    Writing the AES-256 ones costs ~10 s on the pure-python provider, so the bytes are kept in lean/.lake/c15-cache
    (keyed by the source page, the pypdf version and the variant) and copied into the work directory."""
    aes = importlib.import_module("sharepoint2text.parsing.extractors.pdf._pypdf_aes_fallback")
    import pypdf
    from pypdf import PdfReader, PdfWriter
    src = os.path.join(RES, "pdf", "sample.pdf")
    with open(src, "rb") as fh:
        src_hash = hashlib.sha1(fh.read()).hexdigest()[:12]
    cache = os.path.join(os.path.dirname(os.path.dirname(os.path.dirname(os.path.abspath(__file__)))), "lean", ".lake", "c15-cache")
    os.makedirs(cache, exist_ok=True)
    out = {}
    variants = [("plain", None, ""), ("rc4", "RC4-128", ""), ("aesV4", "AES-128", ""), ("aesV5", "AES-256", ""),
                ("rc4-locked", "RC4-128", "secret"), ("aesV4-locked", "AES-128", "secret"), ("aesV5-locked", "AES-256", "secret")]
    reader = None
    try:
        for name, alg, user in variants:
            p = os.path.join(wd.docs, f"gen_{name}.pdf")
            c = os.path.join(cache, f"{src_hash}-{pypdf.__version__}-{name}.pdf")
            if not (os.path.exists(c) and os.path.getsize(c) > 1000):
                if reader is None:
                    aes.patch_pypdf_fallback_aes()      # needed to *write* AES documents on the fallback provider
                    reader = PdfReader(src)
                w = PdfWriter()
                w.add_page(reader.pages[0])
                if alg:
                    w.encrypt(user_password=user, owner_password="owner", algorithm=alg)
                tmp = c + f".{os.getpid()}.tmp"
                with open(tmp, "wb") as fh:
                    w.write(fh)
                os.replace(tmp, c)
            shutil.copyfile(c, p)
            enc = "none" if alg is None else ("rc4" if alg.startswith("RC4") else ("aesV4" if alg == "AES-128" else "aesV5"))
            out[name] = {"path": p, "enc": enc, "emptyPw": user == ""}
    finally:
        aes_state.reset()
    return out


def extract_kind(path):
    import sharepoint2text
    from sharepoint2text.parsing.exceptions import ExtractionFileEncryptedError, ExtractionFailedError
    try:
        list(sharepoint2text.read_file(path))
        return "ok"
    except ExtractionFileEncryptedError:
        return "encrypted"
    except ExtractionFailedError:
        return "failed"
    except Exception as e:  # noqa: BLE001
        return "other:" + type(e).__name__


def check_aes_history(pdfs, aes_state, names):
    """oracle: each document's outcome in the sequence (from a pristine provider) equals its outcome alone"""
    alone = {}
    for n in set(names):
        aes_state.reset()
        alone[n] = extract_kind(pdfs[n]["path"])
    aes_state.reset()
    try:
        for i, n in enumerate(names):
            got = extract_kind(pdfs[n]["path"])
            if got != alone[n]:
                return False, (f"gen_{n}.pdf extracted after {names[:i]} gives '{got}', alone in a fresh process state it gives '{alone[n]}'")
        return True, "every outcome equals the isolated one"
    finally:
        aes_state.reset()


def corr_aes(ctx, pdfs, aes_state):
    import pypdf._crypt_providers as providers
    broken, violations = [], []
    prov = "fallback" if providers.crypt_provider[0] == "local_crypt_fallback" else "native"
    names = sorted(pdfs)
    if ctx.thorough:
        # every AES-256 extraction costs ~6 s on the pure-python provider: half of the 24 orders (every document
        # occurs at every position), chosen by the seed, and 30 random histories keep the tier under 15 minutes
        perms = [list(p) for p in itertools.permutations(["aesV4", "aesV5", "rc4", "plain"])]
        seqs = perms[ctx.seed % 2::2]
        for _ in range(30):
            seqs.append([ctx.rng.choice(names) for _ in range(ctx.rng.randrange(1, 6))])
        seqs += [[n] for n in names]
    else:   # one AES-256 extraction (~6 s) only
        cheap = [n for n in names if pdfs[n]["enc"] != "aesV5"]
        seqs = [["aesV4"], ["aesV5", "aesV4", "rc4"], ["rc4", "aesV4"], ["plain", "aesV4-locked", "aesV4"], ["rc4-locked", "rc4", "plain"]]
        for _ in range(16):
            seqs.append([ctx.rng.choice(cheap) for _ in range(ctx.rng.randrange(1, 6))])
    outs = ctx.drive([{"op": "c15.aes", "provider": prov, "patched": False,
                       "docs": [{"enc": pdfs[n]["enc"], "emptyPw": pdfs[n]["emptyPw"]} for n in s]} for s in seqs])
    nbad = 0
    for s, mo in zip(seqs, outs):
        aes_state.reset()
        ctx.case(("aes", tuple(s)), nontrivial=len(s) > 1)
        ctx.count("aes/len=%d" % len(s))
        for i, (n, st) in enumerate(zip(s, mo["steps"])):
            got = extract_kind(pdfs[n]["path"])
            pat = aes_state.patched()
            if got != st["res"] or pat != st["patched"]:
                nbad += 1
                if nbad <= 5:
                    broken.append(Broken("correspondence", "c15.aes", f"step {i} ({n}): real ({got}, patched={pat}) model ({st['res']}, patched={st['patched']})",
                                         case={"seq": s}))
                break
    aes_state.reset()
    return broken, violations


# =============================================================================================
#  isolated baseline + sequences + threads (oracle of the property statement)
# =============================================================================================
_ADDR = re.compile(r"0x[0-9a-fA-F]+")


_INDIRECT = re.compile(r"IndirectObject\((\d+), (\d+), \d+\)")
_STAMP = re.compile(r"(\d{4}-\d{2}-\d{2})[T ]\d{2}:\d{2}:\d{2}(\.\d+)?")


def _digest_results(results):
    """digest of the to_json() forms; wall-clock stamps of today (a missing 'created' is filled with now() by
    openpyxl — C06's business, not C15's) and object addresses are canonicalised"""
    import datetime
    today = datetime.date.today()
    near = {(today + datetime.timedelta(days=d)).isoformat() for d in (-1, 0, 1)}

    def dflt(o):
        return type(o).__name__ + ":" + _ADDR.sub("0x", str(o))
    blob = json.dumps([r.to_json() for r in results], sort_keys=True, default=dflt, ensure_ascii=True)
    blob = _STAMP.sub(lambda m: "<now>" if m.group(1) in near else m.group(0), blob)
    blob = _INDIRECT.sub(r"IndirectObject(\1, \2, <id>)", blob)      # repr of a pypdf object carries id(reader)
    return hashlib.sha1(blob.encode()).hexdigest()[:16]


def extract_digest(path, consume="all"):
    import sharepoint2text
    try:
        gen = sharepoint2text.read_file(path)
        if consume == "all":
            return _digest_results(list(gen))
        first = next(gen, None)
        gen.close()
        return "first:" + (_digest_results([first]) if first is not None else "none")
    except Exception as e:  # noqa: BLE001
        c = e.__cause__
        return "ERR:" + type(e).__name__ + (":" + type(c).__name__ if c is not None else "")


def isolated_digest(path, timeout=120):
    """digest of the document extracted alone in a forked child of this process (nothing extracted before)"""
    r, w = os.pipe()
    pid = os.fork()
    if pid == 0:
        try:
            os.close(r)
            signal.alarm(timeout)
            d = extract_digest(path)
            os.write(w, d.encode())
        except BaseException as e:  # noqa: BLE001
            try:
                os.write(w, ("CHILD-CRASH:" + type(e).__name__).encode())
            except Exception:
                pass
        finally:
            os._exit(0)
    os.close(w)
    chunks = []
    while True:
        b = os.read(r, 65536)
        if not b:
            break
        chunks.append(b)
    os.close(r)
    os.waitpid(pid, 0)
    return b"".join(chunks).decode() or "CHILD-NO-OUTPUT"


def _preimport():
    """import (not run) every extractor module so that the forked baseline children do not pay for it"""
    from sharepoint2text.parsing import router
    for _ft, (modname, _fn) in router._EXTRACTOR_REGISTRY.items():
        try:
            importlib.import_module(modname)
        except Exception:  # noqa: BLE001 - C07 checks importability
            pass


def corpus(ctx, wd, pdfs):
    """[(name, path)]: fixtures (<= 400 kB) + generated PDFs + damaged copies (failing inputs)"""
    docs = []
    for root, ds, fs in os.walk(RES):
        ds.sort()
        for f in sorted(fs):
            p = os.path.join(root, f)
            if 0 < os.path.getsize(p) <= 400_000:
                docs.append((os.path.relpath(p, RES), p))
    if not ctx.thorough:   # quick tier: a seeded sample of the fixtures, the PDFs always
        keep = [d for d in docs if d[0].endswith(".pdf") or d[0].startswith("archives/")]
        rest = [d for d in docs if d not in keep]
        docs = sorted(keep + ctx.rng.sample(rest, min(len(rest), 26)))
    for n, d in sorted(pdfs.items()):
        if d["enc"] == "aesV5" and not ctx.thorough:
            continue        # AES-256 on the pure-python fallback costs ~6 s per extraction (password hash 2.B)
        docs.append(("gen/" + os.path.basename(d["path"]), d["path"]))
    # damaged copies: truncated / bit-flipped fixtures of several formats
    picks = [d for d in docs if d[0].endswith((".pdf", ".docx", ".xlsx", ".odt", ".zip", ".7z", ".epub", ".eml", ".rtf", ".doc", ".pptx"))]
    for name, p in ctx.rng.sample(picks, min(len(picks), 10)):
        with open(p, "rb") as fh:
            data = bytearray(fh.read())
        mode = ctx.rng.choice(("truncate", "flip", "zero"))
        if mode == "truncate":
            data = data[: max(8, len(data) // ctx.rng.choice((2, 3, 5)))]
        elif mode == "flip":
            for _ in range(20):
                i = ctx.rng.randrange(len(data))
                data[i] ^= 1 << ctx.rng.randrange(8)
        else:
            i = ctx.rng.randrange(len(data))
            data[i: i + 64] = bytes(min(64, len(data) - i))
        q = os.path.join(wd.docs, f"damaged_{mode}_{os.path.basename(p)}")
        with open(q, "wb") as fh:
            fh.write(bytes(data))
        docs.append(("damaged/" + os.path.basename(q), q))
    return docs


DECLARED_CACHES = {("sharepoint2text.parsing.extractors.pdf.pdf_extractor", "_FONT_CACHE"),
                   ("sharepoint2text.parsing.extractors.pdf._pypdf_aes_fallback", "_ROUND_KEY_CACHE"),
                   ("sharepoint2text.parsing.extractors.serialization", "_TYPE_REGISTRY")}
_PLAIN = (int, float, bool, str, bytes, type(None), tuple, list, dict, set, frozenset, bytearray)


def _plain_repr(v, depth=0):
    if depth > 4:
        return "..."
    if isinstance(v, (int, float, bool, str, bytes, type(None), bytearray)):
        return repr(v) if not isinstance(v, (bytes, bytearray, str)) or len(v) < 200 else hashlib.sha1(repr(v).encode()).hexdigest()
    if isinstance(v, (tuple, list)):
        return type(v).__name__ + "[" + ",".join(_plain_repr(x, depth + 1) for x in v) + "]"
    if isinstance(v, (set, frozenset)):
        return "set{" + ",".join(sorted(_plain_repr(x, depth + 1) for x in v)) + "}"
    if isinstance(v, dict):
        return "dict{" + ",".join(sorted(_plain_repr(k, depth + 1) + ":" + _plain_repr(x, depth + 1) for k, x in v.items())) + "}"
    return "<" + type(v).__name__ + ">"


class GlobalSnapshot:
    """what the property calls 'the process-global state the library touches'"""

    def __init__(self, wd):
        self.wd = wd

    def take(self):
        gc.collect()
        pe = _pe()
        s = {}
        for (m, a) in pe._get_pypdf_char_map_patcher()[0]:
            s[f"patched:{m.__name__}.{a}"] = id(m.__dict__[a])
        for name, mod in sorted(sys.modules.items()):
            if not name.startswith("sharepoint2text") or mod is None or ".tests" in name:
                continue
            for n, v in sorted(vars(mod).items()):
                if n.startswith("__") or (name, n) in DECLARED_CACHES:
                    continue
                if isinstance(v, _PLAIN) or type(v).__name__ in ("OrderedDict", "defaultdict", "ArchiveConfig"):
                    s[f"mod:{name}.{n}"] = hashlib.sha1((_plain_repr(v) if isinstance(v, _PLAIN) else repr(v)).encode()).hexdigest()[:12]
        s["tmp"] = tuple(sorted(os.listdir(self.wd.tmp)))
        s["fds"] = len(os.listdir("/proc/self/fd"))
        s["cwd"] = os.getcwd()
        s["environ"] = hashlib.sha1(repr(sorted(os.environ.items())).encode()).hexdigest()[:12]
        s["recursionlimit"] = sys.getrecursionlimit()
        s["switchinterval"] = sys.getswitchinterval()
        s["threads"] = threading.active_count()
        import mimetypes
        s["mimetypes"] = hashlib.sha1(repr(sorted(mimetypes.types_map.items())).encode()).hexdigest()[:12]
        import logging
        s["logging.disable"] = logging.root.manager.disable
        return s

    @staticmethod
    def diff(a, b):
        # modules imported lazily in between add keys; only compare keys present in both
        return {k: (a[k], b[k]) for k in a if k in b and a[k] != b[k]}


def seq_oracle(ctx, wd, docs, baseline, aes_state):
    """random sequences (incl. failing inputs, early-closed generators) then random thread workloads"""
    violations = []
    snap = GlobalSnapshot(wd)
    by_name = dict(docs)
    names = [n for n, _ in docs]
    # warm-up: import every extractor once so that lazily imported modules do not look like state changes
    for n in names:
        extract_digest(by_name[n])
    aes_patched_before = aes_state.patched()
    s0 = snap.take()

    def one_sequence(seq, how):
        for i, n in enumerate(seq):
            d = extract_digest(by_name[n])
            if d != baseline[n]:
                return Violation("sequence.result-depends-on-history",
                                 f"{n} extracted after {seq[:i]} has digest {d}, alone in a fresh process {baseline[n]}",
                                 {"kind": "sequence", "seq": seq[: i + 1]})
            if how == "close-early":
                extract_digest(by_name[n], consume="first")
        s1 = snap.take()
        df = snap.diff(s0, s1)
        if df:
            return Violation("sequence.global-state-not-restored",
                             f"after the sequence {seq} process-global state differs: " + "; ".join(f"{k}: {v[0]} -> {v[1]}" for k, v in sorted(df.items())[:6]),
                             {"kind": "sequence", "seq": seq, "how": how})
        return None

    n_seq = ctx.n(14, 100)
    for j in range(n_seq):
        seq = [ctx.rng.choice(names) for _ in range(ctx.rng.randrange(2, 9))]
        how = "close-early" if j % 3 == 2 else "all"
        ctx.case(("seq", tuple(seq), how), nontrivial=True)
        ctx.count("sequence/" + how + ("/with-failing" if any(baseline[n].startswith("ERR") for n in seq) else "/all-ok"))
        v = one_sequence(seq, how)
        if v:
            violations.append(v)
            break
    # threads: preemptive, mixed formats
    old = sys.getswitchinterval()
    try:
        for j in range(ctx.n(3, 15)):
            nthreads = ctx.rng.choice((2, 3, 4, 6))
            work = [[ctx.rng.choice(names) for _ in range(ctx.rng.randrange(2, 7))] for _ in range(nthreads)]
            # make sure PDFs (the patched section) overlap often
            pdfs_ = [n for n in names if n.endswith(".pdf") and not baseline[n].startswith("ERR")]
            for w in work:
                w.insert(ctx.rng.randrange(len(w) + 1), ctx.rng.choice(pdfs_))
            results = [[] for _ in range(nthreads)]
            sys.setswitchinterval(ctx.rng.choice((1e-6, 1e-5, 1e-4)))

            def run(i):
                for n in work[i]:
                    results[i].append((n, extract_digest(by_name[n])))
            ths = [threading.Thread(target=run, args=(i,)) for i in range(nthreads)]
            for th in ths:
                th.start()
            for th in ths:
                th.join(300)
            sys.setswitchinterval(old)
            ctx.case(("threads", tuple(tuple(w) for w in work)), nontrivial=True)
            ctx.count(f"threads/n={nthreads}")
            bad = [(n, d) for res in results for (n, d) in res if d != baseline[n]]
            if bad:
                n, d = bad[0]
                violations.append(Violation("threads.result-depends-on-concurrent-work",
                                            f"{n} extracted concurrently (workload {work}) has digest {d}, alone {baseline[n]}",
                                            {"kind": "threads", "work": work}))
                break
            df = snap.diff(s0, snap.take())
            if df:
                violations.append(Violation("threads.global-state-not-restored",
                                            f"after concurrent workload {work}: " + "; ".join(f"{k}: {v[0]} -> {v[1]}" for k, v in sorted(df.items())[:6]),
                                            {"kind": "threads", "work": work}))
                break
    finally:
        sys.setswitchinterval(old)
    return violations


def oracle_early_exit(ctx, st):
    """every document's generator abandoned after the first result (close) or hit by the consumer's exception
    (throw): no temporary directory and no open descriptor may stay behind"""
    import sharepoint2text
    wd = st["wd"]
    out = []
    gc.collect()
    fds0 = len(os.listdir("/proc/self/fd"))
    for name, path in st["docs"]:
        for how in ("close", "throw", "drop"):
            try:
                gen = sharepoint2text.read_file(path)
                first = next(gen, None)
                if how == "close":
                    gen.close()
                elif how == "throw" and first is not None:
                    try:
                        gen.throw(KeyError("consumer failed"))
                    except (KeyError, StopIteration):
                        pass
                    except Exception:  # noqa: BLE001 - read_file wraps it
                        pass
                del gen
            except Exception:  # noqa: BLE001 - failing inputs are part of the corpus
                pass
            gc.collect()
            live = sorted(os.listdir(wd.tmp))
            fds = len(os.listdir("/proc/self/fd"))
            ctx.case(("early-exit", name, how))
            ctx.count("early-exit/" + how)
            if live:
                out.append(Violation("temp.directory-left-behind",
                                     f"read_file({name}) consumer '{how}' after the first result: {live} left in the temp root",
                                     {"kind": "early-exit", "doc": name, "how": how}))
                for x in live:
                    shutil.rmtree(os.path.join(wd.tmp, x), ignore_errors=True)
                return out
            if fds != fds0:
                out.append(Violation("handles.descriptor-left-open",
                                     f"read_file({name}) consumer '{how}' after the first result: open descriptors {fds0} -> {fds}",
                                     {"kind": "early-exit", "doc": name, "how": how}))
                return out
    return out


def corr_temp(ctx, wd):
    """7z generator under exhaust / close / throw consumers vs. the model; temp root must be empty afterwards"""
    import sharepoint2text
    broken, violations = [], []
    p = os.path.join(RES, "archives", "test_archive.7z")
    if not os.path.exists(p):
        return broken, violations
    n_members = len(list(sharepoint2text.read_file(p)))
    reqs, reals = [], []
    for consumer, k in [("exhaust", 0)] + [("close", i) for i in range(1, n_members + 1)] + [("throw", i) for i in range(1, n_members + 1)]:
        gen = sharepoint2text.read_file(p)
        got = 0
        outcome = "finished"
        try:
            for r in gen:
                got += 1
                if consumer == "close" and got == k:
                    gen.close()
                    outcome = "closed"
                    break
                if consumer == "throw" and got == k:
                    try:
                        gen.throw(KeyError("consumer failed"))
                    except KeyError:
                        outcome = "raised"
                    except StopIteration:
                        outcome = "swallowed"
                    except Exception as e:  # noqa: BLE001
                        outcome = "raised"
                    break
        except Exception:  # noqa: BLE001
            outcome = "raised"
        del gen
        gc.collect()
        live = sorted(os.listdir(wd.tmp))
        reqs.append({"op": "c15.temp", "fails": False, "members": [True] * n_members, "consumer": consumer, "k": k})
        reals.append((consumer, k, outcome, got, live))
    # fault point "unpacking fails after the header and the file list parsed": the fixture with bytes of its packed
    # streams flipped (start header, next-header offset/size/CRC and the header itself stay intact)
    blob = open(p, "rb").read()
    hdr_off = 32 + int.from_bytes(blob[12:20], "little")
    for di, (lo, n) in enumerate([(32 + (hdr_off - 32) // 2, 6), (40, 3), (max(33, hdr_off - 9), 4)]):
        if not (32 < lo and lo + n <= hdr_off):
            continue
        bad = bytearray(blob)
        for i in range(lo, lo + n):
            bad[i] ^= 0xA5
        bp = os.path.join(wd.root, f"damaged{di}.7z")
        with open(bp, "wb") as fh:
            fh.write(bytes(bad))
        for consumer, k in (("exhaust", 0), ("close", 1)):
            got, outcome = 0, "finished"
            gen = sharepoint2text.read_file(bp)
            try:
                for r in gen:
                    got += 1
                    if consumer == "close" and got == k:
                        gen.close()
                        outcome = "closed"
                        break
            except Exception:  # noqa: BLE001
                outcome = "raised"
            del gen
            gc.collect()
            live = sorted(os.listdir(wd.tmp))
            fails = outcome == "raised" and got == 0
            ctx.count("temp/damaged/" + ("unpack-fails" if fails else "unpack-survives"))
            if fails:    # a flip the decoder does not notice is a healthy run and adds nothing
                reqs.append({"op": "c15.temp", "fails": True, "members": [True] * n_members, "consumer": consumer, "k": k})
                reals.append((f"damaged{di}:{consumer}", k, outcome, got, live))
            for x in live:
                if fails:
                    violations.append(Violation("temp.directory-left-behind",
                                                f"7z whose unpacking fails (fixture with {n} bytes flipped at offset {lo}): {live} left in the temp root",
                                                {"kind": "temp", "damaged": [lo, n]}))
                shutil.rmtree(os.path.join(wd.tmp, x), ignore_errors=True)
        os.unlink(bp)
    outs = ctx.drive(reqs)
    for (consumer, k, outcome, got, live), mo in zip(reals, outs):
        ctx.case(("temp", consumer, k))
        ctx.count("temp/" + consumer)
        if live:
            violations.append(Violation("temp.directory-left-behind", f"7z generator, consumer {consumer} after {k}: {live} left in the temp root",
                                        {"kind": "temp", "consumer": consumer, "k": k}))
        if (outcome, got, live) != (mo["outcome"], mo["yielded"], [str(x) for x in mo["live"]]):
            broken.append(Broken("correspondence", "c15.temp", f"{consumer}/{k}: real ({outcome},{got},{live}) model ({mo['outcome']},{mo['yielded']},{mo['live']})",
                                 case={"consumer": consumer, "k": k}))
    return broken, violations


# =============================================================================================
#  entry points
# =============================================================================================
_STATE = {}


def _setup(ctx):
    if "wd" in _STATE:
        return _STATE
    import atexit
    wd = Workdir()
    atexit.register(wd.close)
    aes_state = AesState()
    pdfs = build_pdfs(wd, aes_state)
    _STATE.update(wd=wd, aes_state=aes_state, pdfs=pdfs)
    return _STATE


def _baseline(ctx, st):
    """isolated digests of the corpus; must run before anything is extracted in this process"""
    if "baseline" in st:
        return
    wd, pdfs = st["wd"], st["pdfs"]
    docs = corpus(ctx, wd, pdfs)
    t0 = time.time()
    _preimport()
    baseline = {n: isolated_digest(p) for n, p in docs}
    again = {n: isolated_digest(p) for n, p in docs}
    unstable = sorted(n for n in baseline if baseline[n] != again[n])
    if unstable:   # not deterministic even alone in a fresh process: nothing C15 can be checked against
        ctx.notes.append(f"excluded (two isolated extractions differ): {unstable}")
        docs = [(n, p) for n, p in docs if n not in unstable]
        baseline = {n: d for n, d in baseline.items() if n not in unstable}
    st["docs"], st["baseline"] = docs, baseline
    ctx.coverage["baseline_docs"] = len(docs)
    ctx.coverage["baseline_failing_docs"] = sum(1 for d in baseline.values() if d.startswith("ERR"))
    ctx.coverage["baseline_s"] = round(time.time() - t0, 2)
    crashed = [n for n, d in baseline.items() if d.startswith("CHILD")]
    if crashed:
        raise Infra(f"isolated baseline child failed for {crashed[:3]}")


def model_free_oracles(ctx, st):
    """the property statement on the real code, no Lean model involved: line-granularity interleavings of
    two real sections, cache transparency, sequences and thread workloads against the isolated baseline"""
    wd, aes_state = st["wd"], st["aes_state"]
    violations = []
    old_tmp = tempfile.tempdir
    tempfile.tempdir = wd.tmp
    try:
        _baseline(ctx, st)
        t1 = time.time()
        violations += oracle_lines(ctx, ctx.n(18, 90))
        ctx.coverage["lines_oracle_s"] = round(time.time() - t1, 2)
        violations += corr_lru_decorated(ctx)
        violations += oracle_early_exit(ctx, st)
        t2 = time.time()
        violations += seq_oracle(ctx, wd, st["docs"], st["baseline"], aes_state)
        ctx.coverage["sequences_threads_s"] = round(time.time() - t2, 2)
        st["oracles_ran"] = True
    finally:
        tempfile.tempdir = old_tmp
    return violations


def correspondence(ctx):
    broken, violations = [], []
    st = _setup(ctx)
    wd, aes_state, pdfs = st["wd"], st["aes_state"], st["pdfs"]
    if not aes_state.was_pristine:
        ctx.notes.append("pypdf's fallback provider was already patched when the harness started")
    old_tmp = tempfile.tempdir
    tempfile.tempdir = wd.tmp
    try:
        _baseline(ctx, st)          # first: nothing has been extracted in this process yet
        t1 = time.time()
        broken += corr_patch(ctx)
        ctx.coverage["patch_s"] = round(time.time() - t1, 2)
        t1 = time.time()
        for part in (corr_lru, corr_font):
            b, v = part(ctx)
            broken += b
            violations += v
        b, v = corr_aes(ctx, pdfs, aes_state)
        broken += b
        violations += v
        b, v = corr_temp(ctx, wd)
        broken += b
        violations += v
        ctx.coverage["caches_aes_temp_s"] = round(time.time() - t1, 2)
        ctx.sample({"baseline": dict(list(st["baseline"].items())[:4])})
    finally:
        tempfile.tempdir = old_tmp
    violations += model_free_oracles(ctx, st)
    return {"broken": broken, "violations": violations}


def known_witnesses(ctx):
    """open finding: the AES provider patch is not undone (one-way by design)"""
    st = _setup(ctx)
    aes_state, pdfs = st["aes_state"], st["pdfs"]
    out = []
    aes_state.reset()
    extract_kind(pdfs["rc4"]["path"])
    if aes_state.patched():
        cells = aes_state.changed_cells()
        out.append(Violation("aes.provider-patch-not-restored",
                             f"after extracting one RC4-encrypted PDF (empty password) from a pristine provider, {len(cells)} pypdf attributes stay replaced "
                             f"({', '.join(cells[:3])}, ...): patch_pypdf_fallback_aes is one-way",
                             {"kind": "aes-state", "doc": "rc4"}))
    else:
        ctx.notes.append("known finding aes.provider-patch-not-restored: the witness no longer fails (provider untouched after an RC4 PDF)")
    aes_state.reset()
    return out


def search(ctx, broken):
    """decide on the real code against the property statement, seeded with what broke"""
    st = _setup(ctx)
    aes_state, pdfs = st["aes_state"], st["pdfs"]
    found = []
    names = " ".join(b.name + " " + b.detail[:200] for b in broken).lower()
    only_corr = all(b.kind == "correspondence" for b in broken)

    def relevant(*words):   # a theorem / inventory / build break may come from anywhere: search everything
        return (not only_corr) or any(w in names for w in words)

    # 0. the model-independent oracles of correspondence() if it could not run (driver not built)
    if not st.get("oracles_ran"):
        found += model_free_oracles(ctx, st)
    # 1. font cache histories (cheap, always)
    hist = [[(0, [0]), (0, [1, 2])], [(1, [5]), (1, [0, 1])], [(0, []), (0, [0, 1, 2, 3])], [(2, [1]), (2, [2])]] + _font_histories(ctx, 40)
    font_alone([c for calls in hist for c in calls])
    for calls in hist:
        ok, what = check_font_history(calls)
        ctx.case(("oracle-font", tuple((f, tuple(g)) for f, g in calls)))
        if not ok:
            found.append(Violation("cache.font-features-depend-on-history", what, {"kind": "font", "calls": [[f, g] for f, g in calls]}))
            break
    # 2. interleavings of the real sections
    if relevant("patch", "section", "interleav") and not (found and only_corr):
        found += search_interleavings(ctx, budget_s=ctx.n(40, 300))
    # 3. AES: outcome must not depend on what was opened before (each AES-256 extraction costs ~6 s)
    if relevant("aes") and (not found or "aes" in names):
        for seq in [["rc4", "aesV4"], ["aesV5", "aesV4"], ["aesV4-locked", "aesV4"], ["plain", "aesV4", "aesV5", "aesV4"], ["aesV5-locked", "aesV5", "aesV4"]]:
            ok, what = check_aes_history(pdfs, aes_state, seq)
            ctx.case(("oracle-aes", tuple(seq)))
            if not ok:
                found.append(Violation("aes.result-depends-on-history", what, {"kind": "aes", "seq": seq}))
                break
    # 4. round-key cache with the failing histories of the correspondence
    for b in broken:
        if b.name == "c15.lru" and b.case:
            ok, what = check_lru_history(b.case["keys"])
            if not ok:
                found.append(Violation("cache.round-keys-not-transparent", what, {"kind": "lru", "keys": b.case["keys"]}))
    return found


def check_lru_history(keys):
    aes = importlib.import_module("sharepoint2text.parsing.extractors.pdf._pypdf_aes_fallback")
    pool, bad = _keys_pool()
    saved = list(aes._ROUND_KEY_CACHE.items())
    aes._ROUND_KEY_CACHE.clear()
    try:
        for i, kid in enumerate(keys):
            key = pool[kid]
            try:
                got = ("ok", aes._get_round_keys(key))
            except ValueError:
                got = ("err", None)
            try:
                want = ("ok", aes._expand_key(key))
            except ValueError:
                want = ("err", None)
            if got != want:
                return False, f"_get_round_keys(key #{kid}) after history {keys[:i]} differs from _expand_key"
            if len(aes._ROUND_KEY_CACHE) > aes._ROUND_KEY_CACHE_MAX:
                return True, "cache exceeds its bound (not a C15 matter)"
        return True, "transparent"
    finally:
        aes._ROUND_KEY_CACHE.clear()
        aes._ROUND_KEY_CACHE.update(saved)


def replay(ctx, payload):
    rp = payload.get("replay", payload)
    kind = rp.get("kind")
    st = _setup(ctx)
    if kind == "interleaving":
        ok, what, res = check_interleaving(rp["k"], rp["schedule"], rp.get("raises"), phase=rp.get("phase", False),
                                           lines=rp.get("lines", False))
        return ok, (what or f"restored, depths seen {res['seen']}")
    if kind == "font":
        return check_font_history([(f, g) for f, g in rp["calls"]])
    if kind == "aes":
        return check_aes_history(st["pdfs"], st["aes_state"], rp["seq"])
    if kind == "aes-state":
        st["aes_state"].reset()
        extract_kind(st["pdfs"][rp["doc"]]["path"])
        p = st["aes_state"].patched()
        st["aes_state"].reset()
        return (not p), ("provider untouched" if not p else "pypdf fallback provider stays patched")
    if kind == "lru":
        return check_lru_history(rp["keys"])
    if kind in ("sequence", "threads", "temp", "early-exit", "lru-deco", "registry"):
        wd = st["wd"]
        old_tmp = tempfile.tempdir
        tempfile.tempdir = wd.tmp
        try:
            docs = corpus(ctx, wd, st["pdfs"])
            by = dict(docs)
            if kind == "sequence":
                seq = rp["seq"]
                missing = [n for n in seq if n not in by]
                if missing:
                    return True, f"documents {missing} are generated per seed; re-run with the recorded VERIF_SEED"
                base = {n: isolated_digest(by[n]) for n in set(seq)}
                snap = GlobalSnapshot(wd)
                for n in seq:
                    extract_digest(by[n])
                s0 = snap.take()
                for i, n in enumerate(seq):
                    d = extract_digest(by[n])
                    if d != base[n]:
                        return False, f"{n} after {seq[:i]}: {d} vs isolated {base[n]}"
                df = snap.diff(s0, snap.take())
                return (not df), (f"global state differs: {df}" if df else "digests equal the isolated ones, global state restored")
            if kind == "threads":
                work = rp["work"]
                base = {n: isolated_digest(by[n]) for w in work for n in w if n in by}
                for attempt in range(20):
                    res = [[] for _ in work]

                    def run(i):
                        for n in work[i]:
                            if n in by:
                                res[i].append((n, extract_digest(by[n])))
                    ths = [threading.Thread(target=run, args=(i,)) for i in range(len(work))]
                    old = sys.getswitchinterval()
                    sys.setswitchinterval(1e-6)
                    for th in ths:
                        th.start()
                    for th in ths:
                        th.join(300)
                    sys.setswitchinterval(old)
                    bad = [(n, d) for r in res for n, d in r if d != base[n]]
                    if bad:
                        return False, f"{bad[0][0]}: {bad[0][1]} vs isolated {base[bad[0][0]]} (attempt {attempt})"
                return True, "20 attempts: all digests equal the isolated ones"
            if kind == "early-exit":
                st["docs"] = [(n, p) for n, p in docs if n == rp["doc"]]
                v = oracle_early_exit(ctx, st)
                return (not v), (v[0].what if v else "nothing left behind")
            if kind == "temp":
                b, v = corr_temp(ctx, wd)
                return (not v), (v[0].what if v else "temp root empty after every consumer")
        finally:
            tempfile.tempdir = old_tmp
        return True, "nothing to replay"
    return True, f"unknown replay kind {kind!r}"
