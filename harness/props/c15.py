"""C15 — isolation: results independent of history and of concurrent work.

Correspondence (model S2T.Patch / S2T.Cache / S2T.AesPatch / S2T.TempScope vs. the real code):
  * k real `_patched_build_char_map()` sections run under a controlled scheduler (threads pause before
    every read / write of the patched pypdf attribute, every acquire / release of a module-level lock of
    pdf_extractor, and the body) following schedules emitted by the model (`c15.patch_cover`: a walk of
    the whole coarse-turn state graph for k <= 3; random schedules for k = 4, 5); compared per turn:
    kind of event executed / blocked, wrapper depth of the installed function afterwards; at the end:
    depth, depths seen inside the bodies (bodies that raise included).
  * `_get_round_keys` histories vs. `c15.lru`; `_get_round_keys` called by 2 / 3 real threads under a controlled
    scheduler (pause before each locked region and at the entry of `_expand_key`; every interleaving for two
    threads over same / different / cached / failing / evicting keys) vs. `c15.lru_conc` (model S2T.CacheConc),
    per turn: where the thread stands and the cache order;
    `_ttf_get_glyph_features` histories on synthetic TrueType fonts — including a COLLISION FAMILY of font
    programs of equal length and identical table directory that differ in one table each — vs. `c15.font`
    (glyph ids and WHICH font's analysis answered, read off the units-per-em);
    extraction sequences over generated plain / RC4 / AES-128 / AES-256 / locked PDFs
    from a pristine pypdf provider vs. `c15.aes`; the 7z generator under exhaust / close / throw consumers
    vs. `c15.temp`.
  * every call into the library goes through lib_call / guarded: an exception the harness does not expect is an
    outcome to be judged (Broken -> search -> Violation), never a crash of the machinery.
Oracle of the property statement itself (always run; independent of the Lean model):
  * every document (fixtures + generated, failing ones included) is extracted alone in a forked child
    (isolated baseline, same hash seed); then random sequences and random preemptive thread workloads
    in-process: each digest must equal the baseline, and afterwards the patched pypdf attributes are the
    originals, every module-level value of the package outside the declared transparent caches is
    unchanged, the private temp root is empty, the fd count, cwd, environ, recursion limit are unchanged;
  * single calls (`_get_round_keys(key)`, `_ttf_get_glyph_features(font, gids)`) are judged against the same call made
    alone in a pristine interpreter; round-key calls of two real threads additionally at LINE granularity
    (A runs i lines, B runs j lines or a burst of evicting misses, then everything drains);
  * fresh-process sequences: every ordered pair of the generated documents that go through the same cache with
    different entries (collision-family fonts embedded as CID TrueType fonts whose digits are repaired from the
    glyph outlines; AES-128 documents) is extracted in a forked child of the still-pristine harness process;
  * gated whole extractions: thread T1 is held at the entry / exit of every function called under a declared cache
    (`_expand_key`, the TrueType table readers; from the current source) while T2 extracts the same and a sibling
    document;
  * interpreter-global SETTINGS and REGISTRIES (c15_globals.py): the snapshot contains every setting with a setter (recursion limit,
    locale, decimal contexts, warnings filters, socket / csv defaults, ...) and the registries a module can extend at import time
    or first use (codec registry probed with ~250 non-standard charset labels, email.charset, mimetypes, copyreg, atexit, ...);
    EVERY function of the package that writes such a setting (AST inventory + callers recorded at run time) is put under the
    generic line-granularity scheduler with two real threads extracting real documents, incl. documents nested 1500 levels deep;
    order histories 'document before / after every lazily imported extractor module' run in pristine interpreters (a seeded
    permutation of the router's modules and its reverse, probe documents that declare unknown charset labels);
  * TEMPLATE FAMILIES, SUSPENDED GENERATORS, CACHE WRAPPERS FOUND AT RUN TIME (c15_shared.py): generated documents that share parts
    (rows, names, heads) in different contexts, extracted in fresh processes in pair-covering orders with the returned results digested
    again afterwards; every document's generator held at its yields while the same / another thread extracts the same, a sibling and a
    document of the yielded type (forked child + watchdog: a blocked extraction is a violation, never a hang of the check); every
    functools cache wrapper of the package wrapped by a recorder: handed-out values unmodified, cached == uncached after real histories;
  * search(): interleavings of real sections explored directly (phase granularity exhaustively for
    k <= 3, event granularity depth-first for k = 2, random beyond), font-cache and AES history checks.
"""
from __future__ import annotations

import gc
import hashlib
import importlib
import io
import itertools
import json
import os
import re
import shutil
import signal
import struct
import sys
import tempfile
import threading
import time
import types

from run import Broken, Violation, Infra

sys.path.insert(0, os.path.dirname(os.path.abspath(__file__)))
import c15_globals as G  # noqa: E402  (settings / registries / generic section scheduler / import histories)
import c15_shared as S   # noqa: E402  (template families / suspended generators / cache wrappers found at run time)
import c15_inner as I    # noqa: E402  (source-directed inner-part variants: documents that leave something behind)

GEN = ["GlobalWrites", "Isolation", "SharedState"]
RULE = ("patch section: every edge of the model's coarse-turn state graph for k<=3 threads (+random k=4,5), bodies raise at random; "
        "caches: random key / (font, glyph ids) histories with repeats, evictions and failing keys, all ordered pairs of a family of "
        "font programs with equal length and identical table directory; round-key cache: all region-granularity interleavings of two "
        "threads x 14 key configurations (+random k=3), line-granularity preemption-bounded schedules; gated whole extractions at "
        "every function under a declared cache; AES: all orders of "
        "generated plain/RC4/AES-128/AES-256/locked PDFs from a pristine provider; sequences / threads: random orders of "
        "fixtures + generated + damaged documents + 6 documents nested 1500 levels deep + documents declaring unknown charset labels; "
        "setting sections: for every function that writes an interpreter-global setting all 'A i steps, B j steps' line schedules over "
        "(longest-running doc x deep docs / itself / a second / a failing doc); import histories: a seeded permutation of the router's "
        "extractor modules and its reverse in pristine interpreters, every loaded probe document re-extracted after every step; "
        "template families: ~10 families of small generated documents (RTF / HTML / XLSX / CSV / TXT / ZIP / TAR / EML) that agree byte "
        "for byte on a part (table row, paragraph, file / member name, length + first 4 kB) in different contexts (ragged vs rectangular "
        "table), each extracted in a fresh process in an order that makes every ordered pair adjacent, returned results digested again "
        "at the end; suspended generators: every document's generator held at its first yields (archives / mailboxes: at two, thorough: "
        "three) while the same and another thread extract the same document, a sibling and a document of the yielded result's type, under "
        "a watchdog; every functools cache wrapper found at run time, real argument histories; inner variants: for the smallest fixture "
        "of every zip-based / html format every namespace declaration rebound to every other URI the current source knows for its prefix, "
        "every (x)html part ended inside an open <w> for every element name w the parser-driving modules mention (quick: a seeded sample "
        "of 70 per document), every part cut in the middle — base, variant, base on one thread; all ordered pairs of the 3 smallest "
        "sibling fixtures per format. "
        "distinct = distinct (schedule | history | sequence); non-trivial = "
        "at least two sections overlap | a repeated key | a sequence of >= 2 documents")
ASSUMPTIONS = [
    "threads are preempted only between the observable events of the section (attribute read/write, lock acquire/release); "
    "the silent steps between them touch only _CHAR_MAP_PATCH_USERS under the lock",
    "make_wrapper(f) is a closure over f (wrapper depth is read from __closure__/__wrapped__)",
    "a region inside `with L:` is atomic with respect to every other region inside `with L:` (the two regions of _get_round_keys "
    "are single steps of S2T.CacheConc.Fixed; that ALL accesses of the cell are inside such regions is the generated fact "
    "cache_accesses_locked); single OrderedDict / dict operations are atomic under the GIL",
    "threads in _get_round_keys are preempted at source-line boundaries at the finest (sys.settrace); 2 threads exhaustively at "
    "region granularity, preemption-bounded at line granularity",
    "functools.lru_cache and collections.OrderedDict behave as documented (modelled by S2T.Cache.lruGet)",
    "the functions behind the caches (_expand_key, mimetypes.guess_type with an unchanged database, router lookups, "
    "_ttf_parse_font) are pure",
    "pypdf: /V 5 needs AES in PdfReader(), /V 4 only when strings/streams are decrypted (tied by the AES correspondence)",
    "the AES provider patch is one-way by design of the library (open known finding aes.provider-patch-not-restored)",
    "one patched cell: pypdf < 6.6 (pypdf._page.build_char_map); checked by the theorem inventory_side_conditions",
    "setting sections are preempted at source-line boundaries, one preemption per thread; writers are found syntactically (aliases of "
    "imports resolved) or by wrapped setters at run time — a setter stored in a variable before the recorder is installed escapes both, "
    "not the snapshots",
    "S2T.YieldLock: one lock, non re-entrant, every generator segment needs it; the tie to the source is the generated fact that no "
    "yield of a result generator is lexically inside a `with` over a lock / section and no generator calls .acquire (a lock reached "
    "through a helper function or held by a third-party object is only seen by the suspended-generator oracle)",
    "S2T.CacheAlias: unbounded memo; immutability of cached values is read off the return ANNOTATION of the decorated function (the "
    "run-time recorder compares the handed-out objects themselves on the explored inputs)",
    "S2T.Reuse abstracts an event-driven collector to (output, skip depth); tied by the generated facts that no stateful object is bound "
    "at module / class level and no module-level container reaches a parameter-mutating function (callees resolved by simple name and "
    "argument position; *args / **kwargs forwarding and containers reached through object attributes are not followed)",
    "registry changes made by modules OUTSIDE the package at import / first use (openpyxl: XML namespace prefixes, atexit) are judged "
    "through the probe documents' results only; codec / alias / mimetypes entries are seen through the probed labels and map digests",
]
TRUSTED = ["controlled schedulers (Controlled for sections, CallCtl for calls) + attribute/lock/gate instrumentation in harness/props/c15.py",
           "the font / PDF writers of the harness (assemble_ttf, collision_family, make_font_pdf, make_text_pdf)",
           "tools/gen/globalwrites.py (AST inventory of global writes)",
           "harness/props/c15_globals.py (settings / registries snapshot, SectionCtl scheduler, deep / charset document writers, import-history child)",
           "tools/gen/isolation.py (AST + run-time inventory of yields inside with-blocks, lock-like objects, cache return annotations)",
           "tools/gen/sharedstate.py (AST + run-time inventory of module-/class-level stateful objects, aliased mutations, mutable defaults)",
           "harness/props/c15_inner.py (source-directed inner-part variant writer, new-interpreter children with hard timeout)",
           "harness/props/c15_shared.py (family document writers, forked children with watchdog, CacheRecorder)",
           "CPython threading.Lock, contextlib.contextmanager, try/finally, generator close semantics"]

REPO = os.environ.get("S2T_REPO", "/repo")
RES = os.path.join(REPO, "sharepoint2text", "tests", "resources")


def _pe():
    return importlib.import_module("sharepoint2text.parsing.extractors.pdf.pdf_extractor")


def _aesmod():
    return importlib.import_module("sharepoint2text.parsing.extractors.pdf._pypdf_aes_fallback")


# =============================================================================================
#  calls into the library never crash the harness
# =============================================================================================
def lib_call(fn, *args, **kw):
    """('ok', value) | ('err', exception type name): the outcome of one call into the library.  An exception the
    caller did not expect is an OUTCOME to be judged (Broken / Violation), never a crash of the machinery."""
    try:
        return ("ok", fn(*args, **kw))
    except Exception as e:  # noqa: BLE001
        return ("err", type(e).__name__)


def _from_library(tb):
    """does the traceback pass through a frame of the library under test (tests excluded)?"""
    root = os.path.join(os.path.realpath(REPO), "sharepoint2text") + os.sep
    while tb is not None:
        fn = os.path.realpath(tb.tb_frame.f_code.co_filename)
        if fn.startswith(root) and os.sep + "tests" + os.sep not in fn:
            return True
        tb = tb.tb_next
    return False


def guarded(part_name, fn, *args):
    """runs one part of the correspondence / oracles.  An exception that comes out of the library (a frame of the
    package is on the traceback) means the obligation the part checks no longer checks: it is returned as a Broken
    so that the failing-input search runs; anything else is a genuine crash of the harness and propagates."""
    try:
        return fn(*args), None
    except Infra:
        raise
    except Exception as e:  # noqa: BLE001
        import traceback
        if not _from_library(e.__traceback__):
            raise
        tail = " | ".join(x.strip() for x in traceback.format_exc().strip().splitlines()[-5:])[:500]
        return None, Broken("correspondence", part_name, f"the library raised {type(e).__name__}: {e} where the harness expects none @ {tail}")


# =============================================================================================
#  wrapper depth of a function object over an original
# =============================================================================================
def depth_of(fn, orig, _lim=40):
    """number of wrappers between fn and orig (0 = fn is orig), -1 if orig is not reachable"""
    if fn is orig:
        return 0
    if _lim == 0 or not callable(fn):
        return -1
    nxt = []
    w = getattr(fn, "__wrapped__", None)
    if w is not None:
        nxt.append(w)
    for cell in getattr(fn, "__closure__", None) or ():
        try:
            v = cell.cell_contents
        except ValueError:
            continue
        if callable(v):
            nxt.append(v)
    best = -1
    for v in nxt:
        d = depth_of(v, orig, _lim - 1)
        if d >= 0 and (best < 0 or d + 1 < best):
            best = d + 1
    return best


# =============================================================================================
#  controlled scheduler for real `_patched_build_char_map()` sections
# =============================================================================================
class Stuck(Exception):
    pass


class Controlled:
    """Runs k real sections; `turn(t)` lets thread t execute its pending observable event and run to the next one."""

    TIMEOUT = 8.0

    def __init__(self, k, raises=None, lines=False):
        self.pe = _pe()
        self.k = k
        self.lines = lines       # also pause before every source line of the section (sys.settrace)
        f = self.pe._patched_build_char_map
        self.code = getattr(getattr(f, "__wrapped__", f), "__code__", None)
        self.raises = list(raises or [False] * k)
        self.targets = [(m, a) for (m, a) in self.pe._get_pypdf_char_map_patcher()[0]]
        self.mod, self.attr = self.targets[0]
        self.orig = self.mod.__dict__[self.attr]
        self.go = [threading.Semaphore(0) for _ in range(k)]
        self.arrived = [threading.Semaphore(0) for _ in range(k)]
        self.pending = [None] * k
        self.blocked = [False] * k
        self.finished = [False] * k
        self.seen = [None] * k
        self.errors = [None] * k
        self.tls = threading.local()
        self.free = False
        self.threads = []
        self._saved_cls = []
        self._saved_locks = []

    # ---- instrumentation
    def tid(self):
        return getattr(self.tls, "tid", None)

    def event(self, kind):
        t = self.tid()
        if t is None or self.free:
            return
        self.pending[t] = kind
        self.arrived[t].release()
        self.go[t].acquire()

    def _instrument(self):
        ctl = self
        for mod, attr in self.targets:
            def mk(attr):
                def fget(self_):
                    ctl.event("read")
                    try:
                        return self_.__dict__[attr]
                    except KeyError:
                        raise AttributeError(attr)

                def fset(self_, v):
                    ctl.event("write")
                    self_.__dict__[attr] = v

                def fdel(self_):
                    ctl.event("write")
                    del self_.__dict__[attr]
                return property(fget, fset, fdel)
            cls = type("InstrumentedModule", (types.ModuleType,), {attr: mk(attr)})
            self._saved_cls.append((mod, mod.__class__))
            mod.__class__ = cls
        lock_types = (type(threading.Lock()), type(threading.RLock()))
        for name, val in list(vars(self.pe).items()):
            if isinstance(val, lock_types):
                self._saved_locks.append((name, val))
                setattr(self.pe, name, _LockProxy(val, self))

    def _restore_instrumentation(self):
        for mod, cls in self._saved_cls:
            mod.__class__ = cls
        for name, val in self._saved_locks:
            setattr(self.pe, name, val)
        self._saved_cls, self._saved_locks = [], []

    # ---- threads
    def _tracer(self, frame, event, arg):
        return self._local if frame.f_code is self.code else None

    def _local(self, frame, event, arg):
        if event == "line":
            self.event("line")
        return self._local

    def _worker(self, t):
        self.tls.tid = t
        if self.lines and self.code is not None:
            sys.settrace(self._tracer)
        try:
            with self.pe._patched_build_char_map():
                self.event("body")
                self.seen[t] = depth_of(self.mod.__dict__[self.attr], self.orig)
                if self.raises[t]:
                    raise _BodyFailed()
        except _BodyFailed:
            pass
        except BaseException as e:  # noqa: BLE001 - reported, not swallowed
            self.errors[t] = repr(e)
        finally:
            sys.settrace(None)
            self.finished[t] = True
            self.arrived[t].release()

    def start(self):
        self._instrument()
        for t in range(self.k):
            th = threading.Thread(target=self._worker, args=(t,), daemon=True)
            self.threads.append(th)
            th.start()
        for t in range(self.k):
            self._wait(t)

    def _wait(self, t):
        if not self.arrived[t].acquire(timeout=self.TIMEOUT):
            raise Stuck(f"thread {t} did not reach its next observable event within {self.TIMEOUT}s")

    def depth(self):
        return depth_of(self.mod.__dict__.get(self.attr), self.orig)

    def turn(self, t):
        """(kind, depth after)"""
        if t >= self.k or self.finished[t]:
            return ("done", self.depth())
        kind = self.pending[t]
        self.blocked[t] = False
        self.go[t].release()
        self._wait(t)
        if self.blocked[t]:
            return ("blocked", self.depth())
        return (kind, self.depth())

    def all_done(self):
        return all(self.finished)

    def enabled(self):
        return [t for t in range(self.k) if not self.finished[t]]

    def finish(self):
        """let everything run to completion uncontrolled, restore instrumentation; returns leftover depth"""
        self.free = True
        for t in range(self.k):
            if not self.finished[t]:
                self.go[t].release()
        for th in self.threads:
            th.join(timeout=self.TIMEOUT)
        alive = [i for i, th in enumerate(self.threads) if th.is_alive()]
        self._restore_instrumentation()
        d = self.depth()
        return d, alive


class _BodyFailed(Exception):
    pass


class _LockProxy:
    def __init__(self, inner, ctl):
        self.inner, self.ctl = inner, ctl

    def acquire(self, blocking=True, timeout=-1):
        t = self.ctl.tid()
        if t is None:
            return self.inner.acquire(blocking, timeout)
        while True:
            if self.ctl.free:
                return self.inner.acquire(blocking, timeout)
            self.ctl.event("acq")
            if self.ctl.free:
                return self.inner.acquire(blocking, timeout)
            if self.inner.acquire(False):
                return True
            self.ctl.blocked[t] = True

    def release(self):
        self.ctl.event("rel")
        self.inner.release()

    def __enter__(self):
        self.acquire()
        return self

    def __exit__(self, *a):
        self.release()
        return False

    def locked(self):
        return self.inner.locked()


def _bookkeeping_snapshot():
    """module-level ints / lists / dicts of pdf_extractor that are not declared caches or constant tables"""
    pe = _pe()
    out = {}
    for n, v in vars(pe).items():
        if n.startswith("__") or n == "_FONT_CACHE":
            continue
        if type(v) in (int, bool, list):
            out[n] = (type(v).__name__, repr(v) if not isinstance(v, list) else len(v))
    return out


def _bookkeeping_reset(snap_values):
    pe = _pe()
    for n, v in snap_values.items():
        cur = getattr(pe, n)
        if isinstance(cur, list):
            cur[:] = v
        else:
            setattr(pe, n, v)


def _bookkeeping_values():
    pe = _pe()
    return {n: (list(v) if isinstance(v, list) else v) for n, v in vars(pe).items()
            if not n.startswith("__") and n != "_FONT_CACHE" and type(v) in (int, bool, list)}


def run_real_schedule(k, sched, raises=None, stop_when_done=False):
    """Runs the schedule on the real code. Returns dict(trace, F, seen, leftover, bookkeeping_changed, errors)."""
    values0 = _bookkeeping_values()
    snap0 = _bookkeeping_snapshot()
    ctl = Controlled(k, raises)
    trace = []
    stuck = None
    try:
        ctl.start()
        for t in sched:
            kind, d = ctl.turn(t)
            trace.append([t, kind, d])
            if stop_when_done and ctl.all_done():
                break
    except Stuck as e:
        stuck = str(e)
    all_done = ctl.all_done()
    f_at_end = ctl.depth()
    seen = list(ctl.seen)
    snap_end = _bookkeeping_snapshot()
    left, alive = ctl.finish()
    changed = sorted(n for n in snap0 if snap0.get(n) != snap_end.get(n))
    # put the process back into a sane state for the next run, whatever the code under test did
    ctl.mod.__dict__[ctl.attr] = ctl.orig
    _bookkeeping_reset(values0)
    return {"trace": trace, "F": f_at_end, "allDone": all_done, "seen": seen, "leftover": left,
            "bookkeeping_changed": changed, "errors": [e for e in ctl.errors if e], "stuck": stuck, "alive": alive}


def real_signature(lines=False):
    ctl = Controlled(1, lines=lines)
    ev = []
    try:
        ctl.start()
        for _ in range(64):
            if ctl.all_done():
                break
            kind, _d = ctl.turn(0)
            ev.append(kind)
    except Stuck as e:
        ev.append("stuck:" + str(e))
    ctl.finish()
    ctl.mod.__dict__[ctl.attr] = ctl.orig
    return ev


# =============================================================================================
#  oracle for interleavings (property statement on the real sections; no model involved)
# =============================================================================================
def check_interleaving(k, sched, raises=None, phase=False, lines=False):
    """Runs real sections under `sched`; returns (ok, what, result).  With phase=True an entry t means
    'run thread t until it is about to run its body / until it is finished' (two entries per thread)."""
    values0 = _bookkeeping_values()
    snap0 = _bookkeeping_snapshot()
    ctl = Controlled(k, raises, lines=lines)
    problems = []
    trace = []
    try:
        ctl.start()
        if phase:
            for t in sched:
                if ctl.finished[t]:
                    continue
                first = ctl.pending[t] != "body"
                for _ in range(200):
                    if ctl.finished[t]:
                        break
                    if first and ctl.pending[t] == "body":
                        break
                    kind, d = ctl.turn(t)
                    trace.append([t, kind, d])
                    if kind == "blocked":
                        problems.append(f"thread {t} blocked at phase granularity (lock held across the body?)")
                        break
        else:
            for t in sched:
                kind, d = ctl.turn(t)
                trace.append([t, kind, d])
        # drain: lowest unfinished thread first
        for _ in range(400):
            if ctl.all_done():
                break
            progressed = False
            for t in ctl.enabled():
                kind, d = ctl.turn(t)
                trace.append([t, kind, d])
                if kind != "blocked":
                    progressed = True
                    break
            if not progressed:
                problems.append("deadlock: every unfinished thread is blocked")
                break
    except Stuck as e:
        problems.append("stuck: " + str(e))
    done = ctl.all_done()
    f_end = ctl.depth()
    left, alive = ctl.finish()
    snap1 = _bookkeeping_snapshot()
    ctl.mod.__dict__[ctl.attr] = ctl.orig
    _bookkeeping_reset(values0)
    if done and f_end != 0:
        problems.append(f"after all sections ended {ctl.mod.__name__}.{ctl.attr} is wrapped {f_end}x instead of being the original"
                        if f_end > 0 else f"after all sections ended {ctl.mod.__name__}.{ctl.attr} is neither the original nor a wrapper of it")
    for t, d in enumerate(ctl.seen):
        if d is not None and d != 1:
            problems.append(f"thread {t} extracted with wrapper depth {d} (expected exactly 1)")
    if done:
        ch = sorted(n for n in snap0 if snap0.get(n) != snap1.get(n))
        if ch:
            problems.append("module-level state of pdf_extractor not restored: " + ", ".join(f"{n}: {snap0[n][1]} -> {snap1[n][1]}" for n in ch))
    if ctl.errors and any(ctl.errors):
        problems.append("section raised: " + "; ".join(e for e in ctl.errors if e))
    return (not problems, "; ".join(problems), {"trace": trace, "seen": list(ctl.seen), "F": f_end})


def search_interleavings(ctx, budget_s=40.0, first_only=True):
    """phase-granularity permutations for k = 2, 3 (exhaustive), then event-granularity DFS for k = 2, then random."""
    t0 = time.time()
    found = []

    def report(k, sched, raises, phase, what):
        found.append(Violation("patch.interleaving-not-isolated",
                               f"k={k} {'phase' if phase else 'event'} schedule {sched}: {what}",
                               {"kind": "interleaving", "k": k, "schedule": list(sched), "raises": list(raises), "phase": phase}))

    for k in (2, 3):
        base = [t for t in range(k) for _ in range(2)]
        for sched in sorted(set(itertools.permutations(base))):
            for raises in ([False] * k, [True] + [False] * (k - 1)):
                ok, what, _ = check_interleaving(k, list(sched), raises, phase=True)
                ctx.case(("oracle-phase", k, sched, tuple(raises)), nontrivial=True)
                if not ok:
                    report(k, sched, raises, True, what)
                    if first_only:
                        return found
            if time.time() - t0 > budget_s:
                return found
    # event granularity, preemption-bounded: A runs i events, B runs j events, then everything drains (A first)
    sig_len = len(real_signature())
    total = 2 * sig_len
    for a, b in ((0, 1), (1, 0)):
        for i in range(1, sig_len + 1):
            for j in range(1, sig_len + 1):
                sched = [a] * i + [b] * j
                ok, what, _ = check_interleaving(2, sched, [False, False])
                ctx.case(("oracle-bounded", tuple(sched)), nontrivial=True)
                if not ok:
                    report(2, sched, [False, False], False, what)
                    if first_only:
                        return found
        if time.time() - t0 > budget_s:
            return found
    if ctx.thorough:
        for i in range(1, sig_len + 1):
            for j in range(1, sig_len + 1):
                for l in range(1, sig_len + 1, 2):
                    sched = [0] * i + [1] * j + [2] * l
                    ok, what, _ = check_interleaving(3, sched, [False, False, False])
                    ctx.case(("oracle-bounded3", tuple(sched)), nontrivial=True)
                    if not ok:
                        report(3, sched, [False, False, False], False, what)
                        if first_only:
                            return found
            if time.time() - t0 > budget_s:
                break
    # event granularity, k = 2: DFS over schedules (threads re-run from scratch for every schedule)

    def dfs(prefix, counts):
        if found and first_only:
            return
        if time.time() - t0 > budget_s:
            return
        if len(prefix) >= total:
            return
        for t in (0, 1):
            if counts[t] >= sig_len:
                continue
            sched = prefix + [t]
            if len(sched) >= 4 and len(sched) % 2 == 0 or len(sched) == total:
                ok, what, _ = check_interleaving(2, sched, [False, False])
                ctx.case(("oracle-event", tuple(sched)), nontrivial=True)
                if not ok:
                    report(2, sched, [False, False], False, what)
                    if first_only:
                        return
            c2 = list(counts)
            c2[t] += 1
            dfs(sched, c2)

    dfs([], [0, 0])
    while not found and time.time() - t0 < budget_s:
        k = ctx.rng.choice((3, 4))
        sched = [ctx.rng.randrange(k) for _ in range(ctx.rng.randrange(4, 12 * k))]
        raises = [ctx.rng.random() < 0.3 for _ in range(k)]
        ok, what, _ = check_interleaving(k, sched, raises)
        ctx.case(("oracle-random", k, tuple(sched)), nontrivial=True)
        if not ok:
            report(k, sched, raises, False, what)
    return found


def oracle_lines(ctx, budget_s):
    """always-on: the real sections with pause points before every *source line* of the section as well
    (finer than the model's observable events); all schedules 'A runs i steps, B runs j steps, A finishes,
    B finishes' for two threads, both role assignments; random three-thread schedules with the remaining time."""
    t0 = time.time()
    n = len(real_signature(lines=True))
    ctx.coverage["section_steps_line_granularity"] = n
    for a, b in ((0, 1),):          # the threads run the same code: one role assignment suffices
        for i in range(1, n + 1):
            for j in range(1, n + 1):
                if time.time() - t0 > budget_s:
                    ctx.notes.append(f"line-granularity exploration stopped by its time budget at i={i}/{n}")
                    return []
                sched = [a] * i + [b] * j
                ok, what, _ = check_interleaving(2, sched, [False, False], lines=True)
                ctx.case(("oracle-lines", tuple(sched)), nontrivial=True)
                ctx.count("lines/k=2")
                if not ok:
                    return [Violation("patch.interleaving-not-isolated", f"k=2 line-granularity schedule {sched}: {what}",
                                      {"kind": "interleaving", "k": 2, "schedule": sched, "raises": [False, False], "phase": False, "lines": True})]
    t_rand = time.time()
    while time.time() - t0 < budget_s and time.time() - t_rand < ctx.n(2, 30):
        sched = [ctx.rng.randrange(3) for _ in range(ctx.rng.randrange(6, 3 * n))]
        raises = [ctx.rng.random() < 0.3 for _ in range(3)]
        ok, what, _ = check_interleaving(3, sched, raises, lines=True)
        ctx.case(("oracle-lines3", tuple(sched)), nontrivial=True)
        ctx.count("lines/k=3")
        if not ok:
            return [Violation("patch.interleaving-not-isolated", f"k=3 line-granularity schedule {sched}: {what}",
                              {"kind": "interleaving", "k": 3, "schedule": sched, "raises": raises, "phase": False, "lines": True})]
    return []


# =============================================================================================
#  correspondence: patch section
# =============================================================================================
def corr_patch(ctx):
    broken = []
    outs = ctx.drive([{"op": "c15.patch_signature"}] + [{"op": "c15.patch_cover", "k": k} for k in (1, 2, 3)])
    model_sig = outs[0].get("events")
    sig = real_signature()
    ctx.coverage["section_signature"] = sig
    if sig != model_sig:
        broken.append(Broken("correspondence", "c15.patch_signature",
                             f"observable events of one real section {sig} differ from the model's {model_sig}",
                             case={"real": sig, "model": model_sig}))
        return broken
    scheds = []
    for k, o in zip((1, 2, 3), outs[1:]):
        ss = o["schedules"]
        ctx.coverage[f"model_states_k{k}"] = o["states"]
        if k == 3 and not ctx.thorough:
            ss = ctx.rng.sample(ss, min(len(ss), 110))
        scheds += [(k, s) for s in ss]
    for k in (4, 5):
        for _ in range(ctx.n(12, 150)):
            scheds.append((k, [ctx.rng.randrange(k) for _ in range(ctx.rng.randrange(8, 14 * k))]))
    # A.enter B.enter A.exit B.exit and friends, always
    scheds.append((2, [0] * 5 + [1] * 3 + [0] * 4 + [1] * 6))
    reqs = [{"op": "c15.patch_run", "k": k, "sched": s} for k, s in scheds]
    mouts = ctx.drive(reqs)
    bad = 0
    for (k, s), mo in zip(scheds, mouts):
        if "drv_error" in mo:
            broken.append(Broken("correspondence", "driver", mo["drv_error"], case={"k": k, "sched": s}))
            continue
        raises = [ctx.rng.random() < 0.35 for _ in range(k)]
        r = run_real_schedule(k, s, raises)
        overlap = any(x[2] == 1 and x[1] == "acq" for x in mo["trace"]) or k > 1
        ctx.case(("patch", k, tuple(s)), nontrivial=overlap)
        ctx.count(f"patch/k={k}/" + ("blocked-turns" if any(x[1] == "blocked" for x in mo["trace"]) else "no-blocking"))
        real_obs = sorted([t, d] for t, d in enumerate(r["seen"]) if d is not None)
        model_obs = sorted(mo["obs"])
        diff = None
        if r["stuck"] or r["alive"]:
            diff = f"real threads stuck: {r['stuck']} alive={r['alive']}"
        elif r["trace"] != mo["trace"]:
            i = next((i for i, (a, b) in enumerate(zip(r["trace"], mo["trace"])) if a != b), min(len(r["trace"]), len(mo["trace"])))
            diff = f"turn {i}: real {r['trace'][i] if i < len(r['trace']) else None} model {mo['trace'][i] if i < len(mo['trace']) else None}"
        elif r["F"] != mo["F"] or r["allDone"] != mo["allDone"]:
            diff = f"final depth/allDone real ({r['F']},{r['allDone']}) model ({mo['F']},{mo['allDone']})"
        elif real_obs != model_obs:
            diff = f"depths seen inside bodies real {real_obs} model {model_obs}"
        elif r["allDone"] and r["bookkeeping_changed"]:
            diff = f"module-level bookkeeping not restored after all sections ended: {r['bookkeeping_changed']}"
        elif r["errors"]:
            diff = f"section raised {r['errors']}"
        if diff:
            bad += 1
            if bad <= 8:
                broken.append(Broken("correspondence", "c15.patch_run", diff, case={"k": k, "sched": s, "raises": raises}))
    ctx.sample({"patch_schedule": scheds[len(scheds) // 2][1], "k": scheds[len(scheds) // 2][0],
                "model_trace_head": mouts[len(scheds) // 2].get("trace", [])[:6]})
    ctx.coverage["patch_schedules"] = len(scheds)
    ctx.coverage["patch_mismatches"] = bad
    return broken


# =============================================================================================
#  caches
# =============================================================================================
def _keys_pool():
    pool = {}
    for i in range(7):
        n = (16, 24, 32)[i % 3]
        pool[i] = bytes((i * 37 + j) % 256 for j in range(n))
    pool[7] = b"short"              # invalid lengths: _expand_key raises ValueError
    pool[8] = bytes(17)
    pool[9] = pool[0] + bytes(range(8))      # AES-192 / AES-256 keys that share their first 16 bytes with key 0
    pool[10] = pool[0] + bytes(range(16))
    pool[11] = pool[1][:16] + pool[1][16:][::-1]   # same first 16 bytes as key 1, same length
    return pool, [7, 8]


def corr_lru(ctx):
    aes = importlib.import_module("sharepoint2text.parsing.extractors.pdf._pypdf_aes_fallback")
    broken, violations = [], []
    pool, bad = _keys_pool()
    inv = {v: k for k, v in pool.items()}
    cases = []
    for _ in range(ctx.n(40, 600)):
        n = ctx.rng.randrange(1, 14)
        width = ctx.rng.choice((3, 5, 9, 12))
        cases.append([ctx.rng.randrange(width) for _ in range(n)])
    cases.append([0, 1, 2, 3, 0, 4, 7, 1, 5, 6, 0])
    cases.append([0, 9, 10, 0, 1, 11, 1, 9])
    cases.append([7, 7, 0, 7])          # a failing key repeated: nothing may be remembered of the failed call
    cases.append([0, 1, 0, 0, 1, 1, 0])  # immediate repeats ("most recently used" paths)
    outs = ctx.drive([{"op": "c15.lru", "cap": aes._ROUND_KEY_CACHE_MAX, "keys": ks, "bad": bad} for ks in cases])
    alone = keys_alone()
    saved = list(aes._ROUND_KEY_CACHE.items())
    nbad = 0
    for ks, mo in zip(cases, outs):
        aes._ROUND_KEY_CACHE.clear()
        ctx.case(("lru", tuple(ks)), nontrivial=len(set(ks)) < len(ks))
        ctx.count("lru/" + ("evicting" if len(set(k for k in ks if k not in bad)) > aes._ROUND_KEY_CACHE_MAX else "fits"))
        for i, (kid, st) in enumerate(zip(ks, mo["steps"])):
            key = pool[kid]
            out = lib_call(aes._get_round_keys, key)
            res = "ok" if out[0] == "ok" else "err"
            order = [inv.get(k, "unknown-key:" + bytes(k).hex()[:12]) for k in list(aes._ROUND_KEY_CACHE.keys())]
            # oracle: transparency — the cached answer is what the call gives alone in a pristine process
            want = alone[kid]
            if _norm_rk(out) != want and not violations:
                violations.append(Violation("cache.round-keys-not-transparent",
                                            f"_get_round_keys(bytes.fromhex('{key.hex()}')) after the history of keys {[pool[x].hex() for x in ks[:i]]} "
                                            f"gives {_show_rk(_norm_rk(out))}, alone in a fresh process {_show_rk(want)}",
                                            {"kind": "lru", "keys": ks[: i + 1]}))
            mres = "err" if st["res"] == "err" else "ok"
            if res != mres or order != st["order"]:
                nbad += 1
                if nbad <= 5:
                    broken.append(Broken("correspondence", "c15.lru", f"step {i}: real ({res},{order}) model ({mres},{st['order']})",
                                         case={"keys": ks}))
                break
    aes._ROUND_KEY_CACHE.clear()
    aes._ROUND_KEY_CACHE.update(saved)
    return broken, violations


def make_ttf(n_glyphs, salt=0, loc_format=1, upem=2048):
    """minimal TrueType font: head, maxp, loca, glyf with distinct bounding boxes per glyph"""
    glyphs = [struct.pack(">hhhhh", 1, 0, 0, 100 * (i + 1) + salt, 200 * (i + 1) + salt) + b"\0\0" for i in range(n_glyphs)]
    return assemble_ttf(glyphs, upem=upem, loc_format=loc_format)


def assemble_ttf(glyphs, upem=2048, loc_format=1, num_glyphs=None, checksum=0, order=("head", "maxp", "loca", "glyf")):
    """TrueType font program from glyph records (each starts with the 10-byte glyph header).  The table directory
    (tags, checksums, offsets, lengths) depends only on the NUMBER and SIZES of the records and on `checksum` —
    fonts assembled from records of the same sizes have equal length and identical directories whatever their
    head / maxp / loca / glyf CONTENTS are."""
    glyf = b"".join(glyphs)
    offs = [0]
    for g in glyphs:
        offs.append(offs[-1] + len(g))
    if loc_format == 1:
        loca = b"".join(struct.pack(">I", o) for o in offs)
    else:
        loca = b"".join(struct.pack(">H", o // 2) for o in offs)
    loca = loca.ljust(4 * len(offs), b"\0")          # same table length for both formats
    head = bytearray(54)
    head[18:20] = struct.pack(">H", upem)
    head[50:52] = struct.pack(">h", loc_format)
    maxp = struct.pack(">IH", 0x10000, len(glyphs) if num_glyphs is None else num_glyphs)
    content = {"head": bytes(head), "maxp": maxp, "loca": loca, "glyf": glyf}
    tabs = [(t.encode(), content[t]) for t in order]
    off = 12 + 16 * len(tabs)
    d = body = b""
    for t, c in tabs:
        d += struct.pack(">4sIII", t, checksum, off + len(body), len(c))
        body += c
    return struct.pack(">IHHHH", 0x10000, len(tabs), 0, 0, 0) + d + body


def _grec(w, h, size=12, filler=b""):
    rec = struct.pack(">hhhhh", 1, 0, 0, w, h) + filler
    return rec.ljust(size, b"\0")


# bounding boxes (width, height) of the digits 1, 4, 7 of the library's reference font (2048 units per em)
_D1, _D4, _D7 = (540, 1472), (1014, 1466), (949, 1447)


def collision_family():
    """font programs of EQUAL LENGTH with IDENTICAL offset table + table directory that differ in the contents of
    exactly one table (or in the layout of loca + glyf).  Any cache key that looks at less than the whole font
    program (its length, its directory, a prefix, one table, a sample of bytes) makes two members collide, and
    every member is analysed differently from the base — so a history 'member A, then member B' exposes the key."""
    sizes = (12, 12, 24, 12)
    base = [_grec(0, 0), _grec(*_D1), _grec(*_D4, size=24), _grec(*_D7)]
    fam = {
        "base": assemble_ttf(base),
        # glyphs stored at other positions (loca and glyf differ): 7 (24 bytes, its outline bytes look like a glyph header), 1, 4
        "layout": assemble_ttf([_grec(0, 0), _grec(*_D7, size=24, filler=b"\0\0" + struct.pack(">hhhhh", 1, 0, 0, *_D4)), _grec(*_D1), _grec(*_D4)]),
        "head-upem": assemble_ttf(base, upem=1024),                       # only head differs (units per em)
        "head-locfmt": assemble_ttf(base, loc_format=0),                  # head and loca differ (short offsets)
        "maxp": assemble_ttf(base, num_glyphs=3),                         # only maxp differs (glyph 3 out of range)
        "glyf": assemble_ttf([base[0], _grec(*_D7), _grec(*_D1, size=24), _grec(*_D4)]),    # only glyf differs
        "glyf-tail": assemble_ttf(base[:3] + [_grec(971, 1472)]),         # only the last 12 bytes of the program differ
    }
    assert len({len(f) for f in fam.values()}) == 1 and len({f[:12 + 16 * 4] for f in fam.values()}) == 1
    assert sizes == tuple(len(g) for g in base)
    return fam


_FONTS = {}
FAMILY_IDS = {}


def _fonts():
    """font pool of the cache correspondence: 0–2 well-formed fonts that differ in size and directory, 3–4 damaged,
    5.. the collision family (equal length, identical directory)"""
    if not _FONTS:
        _FONTS.update({0: make_ttf(4, upem=1000), 1: make_ttf(6, salt=7, upem=1100), 2: make_ttf(5, loc_format=0, upem=1200),
                       3: b"\0" * 8, 4: make_ttf(3, salt=1)[:-20]})
        for i, (name, f) in enumerate(collision_family().items()):
            _FONTS[5 + i] = f
            FAMILY_IDS[name] = 5 + i
    return _FONTS


def _font_name(f):
    _fonts()
    fam = {i: n for n, i in FAMILY_IDS.items()}
    return f"font#{f}" + (f"[{len(_FONTS[f])} bytes, family member '{fam[f]}']" if f in fam else f"[{len(_FONTS[f])} bytes]")


def _nglyph():
    return {0: 4, 1: 6, 2: 5, 3: 0, 4: 3, **{i: (3 if n == 'maxp' else 4) for n, i in FAMILY_IDS.items()}}


def _font_call(pe, font, gids):
    """outcome of one real call, normalised: None | [units per em, sorted [gid, [w, h]]] | 'ERR:<exception>'"""
    out = lib_call(pe._ttf_get_glyph_features, font, list(gids))
    if out[0] == "err":
        return "ERR:" + out[1]
    r = out[1]
    try:
        return None if r is None else [r[0], sorted([k, list(v)] for k, v in r[1].items())]
    except Exception as e:  # noqa: BLE001 - a result of another shape is an outcome too
        return "SHAPE:" + type(e).__name__


# ---- results of single calls made alone in a pristine interpreter (one fresh process, one fork per call):
#      independent of every cache and of every other module-level state the library may keep, known to this
#      harness or not
_ALONE = {}
_ALONE_SCRIPT = r"""
import sys, json, os
sys.path.insert(0, sys.argv[1])
import logging; logging.disable(logging.CRITICAL)
from sharepoint2text.parsing.extractors.pdf import pdf_extractor as pe
from sharepoint2text.parsing.extractors.pdf import _pypdf_aes_fallback as aes
out = []
for req in json.load(sys.stdin):
    r, w = os.pipe()
    pid = os.fork()
    if pid == 0:
        try:
            try:
                if req[0] == "font":
                    res = pe._ttf_get_glyph_features(bytes.fromhex(req[1]), list(req[2]))
                    ans = None if res is None else [res[0], sorted([k, list(v)] for k, v in res[1].items())]
                else:
                    ans = ["ok", [bytes(x).hex() for x in aes._get_round_keys(bytes.fromhex(req[1]))]]
            except Exception as e:
                ans = "ERR:" + type(e).__name__ if req[0] == "font" else ["err", type(e).__name__]
            os.write(w, json.dumps(ans).encode())
        finally:
            os._exit(0)
    os.close(w)
    data = b""
    while True:
        b = os.read(r, 65536)
        if not b:
            break
        data += b
    os.close(r)
    os.waitpid(pid, 0)
    out.append(json.loads(data))
print(json.dumps(out))
"""


def _alone(reqs):
    """reqs: list of ('font', font id, gids) | ('key', key id); fills _ALONE"""
    import subprocess
    fonts = _fonts()
    pool, _bad = _keys_pool()
    need = sorted(set(reqs) - set(_ALONE))
    if need:
        payload = [["font", fonts[r[1]].hex(), list(r[2])] if r[0] == "font" else ["key", pool[r[1]].hex()] for r in need]
        p = subprocess.run([sys.executable, "-c", _ALONE_SCRIPT, REPO], input=json.dumps(payload).encode(), capture_output=True, timeout=300)
        if p.returncode != 0:
            raise Infra("isolated evaluation failed: " + p.stderr.decode()[-400:])
        for key, res in zip(need, json.loads(p.stdout.decode().strip().splitlines()[-1])):
            _ALONE[key] = res


def font_alone(calls):
    """{(font id, gids): result} of each call made alone in a pristine interpreter"""
    reqs = [("font", f, tuple(g)) for f, g in calls]
    _alone(reqs)
    return {(f, tuple(g)): _ALONE[("font", f, tuple(g))] for f, g in calls}


def keys_alone():
    """{key id: ['ok', [round keys as hex]] | ['err', exception]} of _get_round_keys(key) alone in a pristine interpreter"""
    pool, _bad = _keys_pool()
    _alone([("key", k) for k in pool])
    return {k: _ALONE[("key", k)] for k in pool}


def _norm_rk(out):
    """normal form of a lib_call outcome of _get_round_keys"""
    if out[0] == "err":
        return ["err", out[1]]
    try:
        return ["ok", [bytes(x).hex() for x in out[1]]]
    except Exception as e:  # noqa: BLE001
        return ["shape", type(e).__name__]


def _show_rk(n):
    if n[0] != "ok":
        return f"{n[0]}:{n[1]}"
    return f"a schedule of {len(n[1])} round keys" + (f" starting {n[1][0][:16]}… ending {n[1][-1][:16]}…" if n[1] else "")


def _norm_font(res):
    return res


def check_font_history(calls):
    """oracle: every call in the history returns what it returns alone in a pristine process"""
    pe = _pe()
    fonts = _fonts()
    alone = font_alone(calls)
    saved = dict(pe._FONT_CACHE)
    pe._FONT_CACHE.clear()
    try:
        for i, (f, gids) in enumerate(calls):
            got = _norm_font(_font_call(pe, fonts[f], gids))
            want = alone[(f, tuple(gids))]
            if got != want:
                return False, (f"_ttf_get_glyph_features({_font_name(f)}, {list(gids)}) after the history {[(_font_name(a), list(b)) for a, b in calls[:i]]} "
                               f"returned {got}, alone in a fresh process it returns {want}")
        return True, "every call equals its isolated result"
    finally:
        pe._FONT_CACHE.clear()
        pe._FONT_CACHE.update(saved)


def _family_histories():
    """always-on: every ordered pair of members of the collision family, asked for all their glyphs"""
    _fonts()
    ids = sorted(FAMILY_IDS.values())
    ng = _nglyph()
    return [[(a, list(range(ng[a]))), (b, list(range(ng[b])))] for a in ids for b in ids if a != b]


def _font_histories(ctx, n):
    _fonts()
    nglyph = _nglyph()
    fam = sorted(FAMILY_IDS.values())
    cases = []
    for _ in range(n):
        calls = []
        pool = (0, 0, 1, 2) if ctx.rng.random() < 0.5 else tuple(fam) + (0,)
        for _ in range(ctx.rng.randrange(1, 7)):
            f = ctx.rng.choice(pool)
            gids = sorted(ctx.rng.sample(range(nglyph[f]), ctx.rng.randrange(0, nglyph[f] + 1)))
            calls.append((f, gids))
        cases.append(calls)
    cases.append([(0, [0]), (0, [1, 2]), (1, [5]), (0, [0, 3])])
    cases.append([(2, [1]), (2, [2]), (2, [1])])
    return cases + _family_histories()


def corr_font(ctx):
    pe = _pe()
    fonts = _fonts()
    broken, violations = [], []
    cases = _STATE.pop("font_cases", None) or _font_histories(ctx, ctx.n(40, 500))
    alone = font_alone([c for calls in cases for c in calls] + [(f, []) for f in fonts])     # one pristine process for all distinct calls
    # which fonts answer with which units-per-em when analysed alone (members of the family share theirs by construction)
    upem_of = {f: (alone[(f, ())][0] if isinstance(alone[(f, ())], list) else None) for f in fonts}
    outs = ctx.drive([{"op": "c15.font", "calls": [{"font": f, "gids": g} for f, g in calls]} for calls in cases])
    saved = dict(pe._FONT_CACHE)
    nbad = 0
    for calls, mo in zip(cases, outs):
        pe._FONT_CACHE.clear()
        fam = any(f in FAMILY_IDS.values() for f, _ in calls)
        ctx.case(("font", tuple((f, tuple(g)) for f, g in calls)), nontrivial=len({f for f, _ in calls}) < len(calls) or fam)
        ctx.count("font/" + ("equal-length-and-directory" if fam and len({f for f, _ in calls}) > 1 else
                             "repeated-font" if len({f for f, _ in calls}) < len(calls) else "distinct-fonts"))
        for i, ((f, gids), want, wparsed) in enumerate(zip(calls, mo["results"], mo["parsed"])):
            got = _font_call(pe, fonts[f], gids)
            keys = [k for k, _ in got[1]] if isinstance(got, list) else got
            parsed_ok = isinstance(got, list) and got[0] == upem_of.get(wparsed)
            if keys != want or not parsed_ok:
                nbad += 1
                if nbad <= 5:
                    broken.append(Broken("correspondence", "c15.font",
                                         f"call {i}: real glyph ids {keys} units-per-em {got[0] if isinstance(got, list) else None}; model glyph ids {want} "
                                         f"analysis of font#{wparsed} (units-per-em {upem_of.get(wparsed)})", case={"calls": [[f, g] for f, g in calls]}))
                break
        ok, what = check_font_history(calls)                     # the statement itself, against the pristine process
        if not ok and not violations:
            violations.append(Violation("cache.font-features-depend-on-history", what, {"kind": "font", "calls": [[f, g] for f, g in calls]}))
    pe._FONT_CACHE.clear()
    pe._FONT_CACHE.update(saved)
    # damaged fonts: cached None must stay None and be what the uncached call gives
    for f in (3, 4):
        ok, what = check_font_history([(f, [0]), (f, [0, 1])])
        ctx.case(("font-damaged", f))
        if not ok:
            violations.append(Violation("cache.font-features-depend-on-history", what, {"kind": "font", "calls": [[f, [0]], [f, [0, 1]]]}))
    return broken, violations


def corr_lru_decorated(ctx):
    """functools caches: cached(x) == __wrapped__(x) over histories; the registry is stable"""
    violations = []
    arch = importlib.import_module("sharepoint2text.parsing.extractors.archive_extractor")
    epub = importlib.import_module("sharepoint2text.parsing.extractors.epub_extractor")
    shared = importlib.import_module("sharepoint2text.parsing.extractors.open_office._shared")
    ser = importlib.import_module("sharepoint2text.parsing.extractors.serialization")
    names = ["a.docx", "b.PDF", "x/y.tar.gz", "noext", "p.png", "q.xhtml", "w.7z", ".hidden", "z.unknownext", "m.eml", "t.txt", "s.svg"]
    fns = [(arch._is_supported_file_cached, False), (arch._get_file_extractor_cached, True), (epub._guess_content_type, False), (shared.guess_content_type, False)]
    for fn, may_raise in fns:
        for _ in range(ctx.n(3, 20)):
            hist = [ctx.rng.choice(names) for _ in range(ctx.rng.randrange(1, 12))]
            for i, x in enumerate(hist):
                def call(g):
                    try:
                        return ("ok", g(x))
                    except Exception as e:  # noqa: BLE001
                        return ("err", type(e).__name__)
                a, b = call(fn), call(fn.__wrapped__)
                ctx.case(("lru-deco", fn.__name__, tuple(hist[: i + 1])), nontrivial=i > 0)
                if a != b:
                    violations.append(Violation("cache.lru-not-transparent", f"{fn.__name__}({x!r}) after {hist[:i]} = {a}, uncached {b}",
                                                {"kind": "lru-deco", "fn": fn.__name__, "hist": hist[: i + 1]}))
    r1 = dict(ser._get_type_registry())
    r2 = dict(ser._get_type_registry())
    if r1 != r2:
        violations.append(Violation("cache.type-registry-unstable", "two calls of _get_type_registry differ", {"kind": "registry"}))
    return violations


# =============================================================================================
#  controlled scheduler for concurrent CALLS of one library function (shared memo caches)
# =============================================================================================
class CallCtl:
    """k real threads, thread t performs the calls `calls[t]` (a list of argument tuples) of `mod.<fn_name>` one after
    the other.  A thread pauses (and hands control back) before every acquire of a module-level lock of `mod`
    ('acq'), at the entry ('gate:<g>') and the exit ('ret:<g>') of every function of `mod` named in `gates`, and
    with lines=True before every source line of the function under test ('line').  `turn(t)` lets thread t execute
    its pending event and run to its next one."""

    TIMEOUT = 8.0

    def __init__(self, mod, fn_name, calls, gates=(), lines=False, ret_gates=False):
        self.mod, self.fn_name, self.calls = mod, fn_name, [list(c) for c in calls]
        self.k = len(calls)
        self.gates, self.lines, self.ret_gates = list(gates), lines, ret_gates
        f = getattr(mod, fn_name)
        self.code = getattr(getattr(f, "__wrapped__", f), "__code__", None)
        self.go = [threading.Semaphore(0) for _ in range(self.k)]
        self.arrived = [threading.Semaphore(0) for _ in range(self.k)]
        self.pending = [None] * self.k
        self.blocked = [False] * self.k
        self.finished = [False] * self.k
        self.results = [[] for _ in range(self.k)]
        self.tls = threading.local()
        self.free = False
        self.threads = []
        self._saved = []

    def tid(self):
        return getattr(self.tls, "tid", None)

    def event(self, kind):
        t = self.tid()
        if t is None or self.free:
            return
        self.pending[t] = kind
        self.arrived[t].release()
        self.go[t].acquire()

    def _instrument(self):
        ctl = self
        lock_types = (type(threading.Lock()), type(threading.RLock()))
        for name, val in list(vars(self.mod).items()):
            if isinstance(val, lock_types):
                self._saved.append((name, val))
                setattr(self.mod, name, _AcqProxy(val, self))
        for g in self.gates:
            orig = getattr(self.mod, g, None)
            if not callable(orig):
                continue
            self._saved.append((g, orig))

            def mk(g, orig):
                def gated(*a, **kw):
                    ctl.event("gate:" + g)
                    try:
                        return orig(*a, **kw)
                    finally:
                        if ctl.ret_gates:
                            ctl.event("ret:" + g)
                gated.__wrapped__ = orig
                return gated
            setattr(self.mod, g, mk(g, orig))

    def _restore(self):
        for name, val in reversed(self._saved):
            setattr(self.mod, name, val)
        self._saved = []

    def _tracer(self, frame, event, arg):
        return self._local if frame.f_code is self.code else None

    def _local(self, frame, event, arg):
        if event == "line":
            self.event("line")
        return self._local

    def _worker(self, t):
        self.tls.tid = t
        self.event("start")
        if self.lines and self.code is not None:
            sys.settrace(self._tracer)
        try:
            for args in self.calls[t]:
                self.results[t].append(lib_call(getattr(self.mod, self.fn_name), *args))
        finally:
            sys.settrace(None)
            self.finished[t] = True
            self.arrived[t].release()

    def start(self):
        self._instrument()
        for t in range(self.k):
            th = threading.Thread(target=self._worker, args=(t,), daemon=True)
            self.threads.append(th)
            th.start()
        for t in range(self.k):
            self._wait(t)
        for t in range(self.k):     # consume the 'start' events: every thread now stands before its first real event
            self.go[t].release()
            self._wait(t)

    def _wait(self, t):
        if not self.arrived[t].acquire(timeout=self.TIMEOUT):
            raise Stuck(f"thread {t} did not reach its next event within {self.TIMEOUT}s")

    def state(self, t):
        return "done" if self.finished[t] else self.pending[t]

    def turn(self, t):
        """state of thread t after the turn: 'done' | 'blocked' | the event it is paused before"""
        if t >= self.k or self.finished[t]:
            return "done"
        self.blocked[t] = False
        self.go[t].release()
        self._wait(t)
        if self.blocked[t]:
            return "blocked"
        return self.state(t)

    def all_done(self):
        return all(self.finished)

    def enabled(self):
        return [t for t in range(self.k) if not self.finished[t]]

    def drain(self, problems, limit=2000):
        """lowest unfinished thread first until everything is finished"""
        for _ in range(limit):
            if self.all_done():
                return
            progressed = False
            for t in self.enabled():
                if self.turn(t) != "blocked":
                    progressed = True
                    break
            if not progressed:
                problems.append("deadlock: every unfinished thread is blocked on a lock")
                return

    def finish(self):
        self.free = True
        for t in range(self.k):
            if not self.finished[t]:
                self.go[t].release()
        for th in self.threads:
            th.join(timeout=self.TIMEOUT)
        alive = [i for i, th in enumerate(self.threads) if th.is_alive()]
        self._restore()
        return alive


class _AcqProxy:
    """a lock whose acquire is a pause point (release is not: a thread is never paused by the proxy itself while it
    holds the lock; with line events it can be, and the others then report 'blocked')"""

    def __init__(self, inner, ctl):
        self.inner, self.ctl = inner, ctl

    def acquire(self, blocking=True, timeout=-1):
        t = self.ctl.tid()
        if t is None:
            return self.inner.acquire(blocking, timeout)
        while True:
            if self.ctl.free:
                return self.inner.acquire(blocking, timeout)
            self.ctl.event("acq")
            if self.ctl.free:
                return self.inner.acquire(blocking, timeout)
            if self.inner.acquire(False):
                return True
            self.ctl.blocked[t] = True

    def release(self):
        self.inner.release()

    def __enter__(self):
        self.acquire()
        return self

    def __exit__(self, *a):
        self.release()
        return False

    def locked(self):
        return self.inner.locked()


def _rk_order(aes, inv):
    return [inv.get(bytes(k), "unknown-key:" + bytes(k).hex()[:12]) for k in list(aes._ROUND_KEY_CACHE.keys())]


def run_lru_conc(pre, keys, sched, lines=False, tail=None):
    """the real `_get_round_keys`: the history `pre` sequentially, then thread t performs the calls keys[t]
    (a key id or a list of key ids) under `sched` (then everything drains), then the calls `tail` sequentially.
    Returns dict(trace, results, problems): the oracle compares every result with the pristine single-threaded one."""
    aes = _aesmod()
    pool, _bad = _keys_pool()
    inv = {v: k for k, v in pool.items()}
    alone = keys_alone()
    per_thread = [list(k) if isinstance(k, (list, tuple)) else [k] for k in keys]
    saved = list(aes._ROUND_KEY_CACHE.items())
    aes._ROUND_KEY_CACHE.clear()
    problems, trace = [], []
    try:
        for kid in pre:
            got = _norm_rk(lib_call(aes._get_round_keys, pool[kid]))
            if got != alone[kid]:
                problems.append(f"sequential history: _get_round_keys(key #{kid}) gives {_show_rk(got)}, alone {_show_rk(alone[kid])}")
        order0 = _rk_order(aes, inv)
        ctl = CallCtl(aes, "_get_round_keys", [[(pool[kid],) for kid in ks] for ks in per_thread], gates=["_expand_key"], lines=lines)
        try:
            ctl.start()
            for t in sched:
                st = ctl.turn(t)
                trace.append([t, st.split(":")[0] if isinstance(st, str) else st, _rk_order(aes, inv)])
            ctl.drain(problems)
        except Stuck as e:
            problems.append("stuck: " + str(e))
        alive = ctl.finish()
        if alive:
            problems.append(f"threads {alive} never finished")
        results = []
        for t, ks in enumerate(per_thread):
            outs = [_norm_rk(o) for o in ctl.results[t]]
            results.append(outs)
            for i, kid in enumerate(ks):
                got = outs[i] if i < len(outs) else ["missing", "no result"]
                if got != alone[kid]:
                    problems.append(f"thread {t}: _get_round_keys(bytes.fromhex('{pool[kid].hex()}')) [key #{kid}] returned {_show_rk(got)}; "
                                    f"single-threaded in a fresh process it returns {_show_rk(alone[kid])}")
        for kid in (tail if tail is not None else sorted({k for ks in per_thread for k in ks})):
            got = _norm_rk(lib_call(aes._get_round_keys, pool[kid]))
            if got != alone[kid]:
                problems.append(f"after the threads: _get_round_keys(key #{kid}) gives {_show_rk(got)}, alone {_show_rk(alone[kid])}")
        return {"trace": trace, "results": results, "order0": order0, "problems": problems, "all_done": ctl.all_done()}
    finally:
        aes._ROUND_KEY_CACHE.clear()
        aes._ROUND_KEY_CACHE.update(saved)


def _lru_conc_violation(pre, keys, sched, lines, r):
    pool, _ = _keys_pool()
    return Violation("cache.round-keys-depend-on-concurrent-use",
                     f"round-key cache: after the sequential history of keys {pre}, threads asking for keys {keys} under the "
                     f"{'line' if lines else 'region'}-granularity schedule {sched}: " + "; ".join(r["problems"][:3]),
                     {"kind": "lru-conc", "pre": list(pre), "keys": [list(k) if isinstance(k, (list, tuple)) else k for k in keys],
                      "schedule": list(sched), "lines": lines})


def _interleavings(counts):
    """all interleavings of threads where thread t takes counts[t] turns"""
    if not any(counts):
        yield []
        return
    for t, c in enumerate(counts):
        if c:
            rest = list(counts)
            rest[t] -= 1
            for tail in _interleavings(rest):
                yield [t] + tail


def corr_lru_conc(ctx):
    """`_get_round_keys` called by 2 and 3 real threads at the granularity of the model (pause before each locked
    region and at the entry of `_expand_key`): every interleaving for two threads over all kinds of key pairs (same
    uncached key, different keys, cached, failing, evicting), random ones for three; per turn: where the thread stands
    afterwards and the order of the cache; at the end: every result against the pristine single-threaded one."""
    aes = _aesmod()
    broken, violations = [], []
    cap = aes._ROUND_KEY_CACHE_MAX
    bad = _keys_pool()[1]
    cases = []
    # (pre-history, keys of the threads): uncached same key / uncached different / one cached / both cached / failing /
    # full cache (every miss evicts) / the most recently used key of the history requested again
    configs = [([], [0, 0]), ([1], [0, 0]), ([1], [0, 2]), ([0], [0, 1]), ([0, 1], [0, 1]), ([0], [0, 0]), ([1], [7, 0]), ([], [7, 7]),
               ([1, 2, 3, 4], [0, 0]), ([1, 2, 3, 4], [0, 5]), ([1, 2, 3, 4], [1, 0]), ([0, 1, 2, 3, 4], [0, 0]), ([0, 1], [1, 0]), ([0, 1], [0, 0])]
    for pre, keys in configs:
        for sched in _interleavings([3, 3]):
            cases.append((pre, keys, sched))
    if not ctx.thorough:
        fixed = [c for c in cases if c[0] in ([1], [1, 2, 3, 4]) and c[1] == [0, 0]]
        rest = [c for c in cases if c not in fixed]
        cases = fixed + ctx.rng.sample(rest, 110)
    for _ in range(ctx.n(40, 600)):
        k = 3
        pre = [ctx.rng.randrange(7) for _ in range(ctx.rng.randrange(0, 6))]
        keys = [ctx.rng.choice((0, 0, 1, 2, 5, 7)) for _ in range(k)]
        sched = [ctx.rng.randrange(k) for _ in range(ctx.rng.randrange(3, 10))]
        cases.append((pre, keys, sched))
    outs = ctx.drive([{"op": "c15.lru_conc", "cap": cap, "pre": pre, "keys": keys, "sched": sched, "bad": bad} for pre, keys, sched in cases])
    nbad = 0
    for (pre, keys, sched), mo in zip(cases, outs):
        if "drv_error" in mo:
            broken.append(Broken("correspondence", "driver", mo["drv_error"], case={"pre": pre, "keys": keys, "sched": sched}))
            continue
        r = run_lru_conc(pre, keys, sched)
        ctx.case(("lru-conc", tuple(pre), tuple(keys), tuple(sched)), nontrivial=True)
        ctx.count(f"lru-conc/k={len(keys)}/" + ("same-key" if len(set(keys)) < len(keys) else "distinct-keys"))
        if r["problems"] and not violations:
            violations.append(_lru_conc_violation(pre, keys, sched, False, r))
        real_res = [("err" if o and o[0][0] != "ok" else "ok") if o else None for o in r["results"]]
        model_res = [None if x is None else ("ok" if isinstance(x, int) else x) for x in mo["results"]]
        diff = None
        if r["order0"] != mo["order0"]:
            diff = f"cache order after the sequential history: real {r['order0']} model {mo['order0']}"
        elif r["trace"] != mo["trace"]:
            i = next((i for i, (a, b) in enumerate(zip(r["trace"], mo["trace"])) if a != b), min(len(r["trace"]), len(mo["trace"])))
            diff = f"turn {i}: real {r['trace'][i] if i < len(r['trace']) else None} model {mo['trace'][i] if i < len(mo['trace']) else None}"
        elif mo["allDone"] and real_res != model_res:
            diff = f"results real {real_res} model {model_res}"
        if diff:
            nbad += 1
            if nbad <= 5:
                broken.append(Broken("correspondence", "c15.lru_conc", diff, case={"pre": pre, "keys": keys, "sched": sched}))
    ctx.coverage["lru_conc_cases"] = len(cases)
    ctx.coverage["lru_conc_mismatches"] = nbad
    return broken, violations


def lru_line_schedules(ctx, n, thorough=False):
    """(pre, keys per thread, schedule) at LINE granularity, preemption-bounded: A runs i steps, B runs j steps (or
    all its calls), then everything drains.  B may perform several calls (misses that evict A's key)."""
    out = []
    two = [([1], [0, 0]), ([], [0, 0]), ([0], [0, 1]), ([1, 2, 3, 4], [0, 0]), ([1, 2, 3, 4], [0, 5]), ([0, 1], [1, 0]), ([1], [7, 7])]
    for pre, keys in two:
        for i in range(1, n + 1):
            for j in (range(1, n + 1) if thorough else (2, n // 2, 2 * n)):      # B stops early / half way / runs to its end
                out.append((pre, keys, [0] * i + [1] * j))
    # a hit of A overtaken by a burst of misses of B (B alone fills / turns over the whole cache)
    for pre, keys in [([0], [[0], [1, 2, 3, 4]]), ([0, 1, 2, 3], [[0], [4, 5, 6, 1]]), ([0, 1, 2, 3], [[3, 0], [4, 5, 6, 2]])]:
        for i in range(1, n + 1):
            out.append((pre, keys, [0] * i + [1] * (6 * n)))
    return out


def oracle_lru_lines(ctx, budget_s):
    """always-on, model-free: real threads in `_get_round_keys` paused before every source line as well"""
    t0 = time.time()
    aes = _aesmod()
    pool, _ = _keys_pool()
    aes_saved = list(aes._ROUND_KEY_CACHE.items())
    aes._ROUND_KEY_CACHE.clear()
    try:
        probe = CallCtl(aes, "_get_round_keys", [[(pool[0],)]], gates=["_expand_key"], lines=True)
        n = 0
        try:
            probe.start()
            while not probe.all_done() and n < 64:
                probe.turn(0)
                n += 1
        except Stuck:
            pass
        probe.finish()
    finally:
        aes._ROUND_KEY_CACHE.clear()
        aes._ROUND_KEY_CACHE.update(aes_saved)
    ctx.coverage["round_keys_steps_line_granularity"] = n
    for pre, keys, sched in lru_line_schedules(ctx, max(n, 4), ctx.thorough):
        if time.time() - t0 > budget_s:
            ctx.notes.append("line-granularity exploration of _get_round_keys stopped by its time budget")
            break
        r = run_lru_conc(pre, keys, sched, lines=True)
        ctx.case(("lru-lines", tuple(pre), repr(keys), tuple(sched)), nontrivial=True)
        ctx.count("lru-lines/k=2")
        if r["problems"]:
            return [_lru_conc_violation(pre, keys, sched, True, r)]
    return []


# =============================================================================================
#  generated documents
# =============================================================================================
class Workdir:
    def __init__(self):
        self.root = tempfile.mkdtemp(prefix="s2t_c15_")
        self.docs = os.path.join(self.root, "docs")
        self.tmp = os.path.join(self.root, "tmp")
        os.makedirs(self.docs)
        os.makedirs(self.tmp)

    def close(self):
        shutil.rmtree(self.root, ignore_errors=True)


def _aes_cells():
    """(object, attribute) cells written by patch_pypdf_fallback_aes — names from the source via AST"""
    import ast
    import pypdf._crypt_providers as providers
    import pypdf._crypt_providers._fallback as fb
    import pypdf._encryption as enc
    aes = importlib.import_module("sharepoint2text.parsing.extractors.pdf._pypdf_aes_fallback")
    env = {"fb": fb, "providers": providers, "enc": enc}
    with open(aes.__file__, encoding="utf-8") as fh:
        tree = ast.parse(fh.read())
    cells = []
    for f in ast.walk(tree):
        if isinstance(f, ast.FunctionDef) and f.name == "patch_pypdf_fallback_aes":
            for n in ast.walk(f):
                if isinstance(n, ast.Assign):
                    for t in n.targets:
                        if isinstance(t, ast.Attribute):
                            parts = ast.unparse(t).split(".")
                            if parts[0] in env:
                                obj = env[parts[0]]
                                for p in parts[1:-1]:
                                    obj = getattr(obj, p)
                                cells.append((obj, parts[-1], ast.unparse(t)))
    return cells


class AesState:
    """pristine snapshot of the AES provider cells; reset() puts pypdf back to unpatched"""

    def __init__(self):
        self.cells = _aes_cells()
        self.pristine = [(o, a, o.__dict__.get(a, getattr(o, a, None))) for o, a, _ in self.cells]
        self.was_pristine = self.is_pristine_by_origin()

    def is_pristine_by_origin(self):
        import pypdf._crypt_providers._fallback as fb
        return getattr(fb.aes_cbc_decrypt, "__module__", "") == fb.__name__

    def reset(self):
        for o, a, v in self.pristine:
            setattr(o, a, v)

    def patched(self):
        return any(getattr(o, a) is not v for o, a, v in self.pristine)

    def changed_cells(self):
        return [name for (o, a, v), (_, _, name) in zip(self.pristine, self.cells) if getattr(o, a) is not v]


def build_pdfs(wd, aes_state):
    """plain / RC4 / AES-128 / AES-256 (empty user password) and locked variants, written with pypdf itself.
    Writing the AES-256 ones costs ~10 s on the pure-python provider, so the bytes are kept in lean/.lake/c15-cache
    (keyed by the source page, the pypdf version and the variant) and copied into the work directory."""
    aes = importlib.import_module("sharepoint2text.parsing.extractors.pdf._pypdf_aes_fallback")
    import pypdf
    from pypdf import PdfReader, PdfWriter
    src = os.path.join(RES, "pdf", "sample.pdf")
    with open(src, "rb") as fh:
        src_hash = hashlib.sha1(fh.read()).hexdigest()[:12]
    cache = os.path.join(os.path.dirname(os.path.dirname(os.path.dirname(os.path.abspath(__file__)))), "lean", ".lake", "c15-cache")
    os.makedirs(cache, exist_ok=True)
    out = {}
    variants = [("plain", None, ""), ("rc4", "RC4-128", ""), ("aesV4", "AES-128", ""), ("aesV5", "AES-256", ""),
                ("rc4-locked", "RC4-128", "secret"), ("aesV4-locked", "AES-128", "secret"), ("aesV5-locked", "AES-256", "secret")]
    reader = None
    try:
        for name, alg, user in variants:
            p = os.path.join(wd.docs, f"gen_{name}.pdf")
            c = os.path.join(cache, f"{src_hash}-{pypdf.__version__}-{name}.pdf")
            if not (os.path.exists(c) and os.path.getsize(c) > 1000):
                if reader is None:
                    aes.patch_pypdf_fallback_aes()      # needed to *write* AES documents on the fallback provider
                    reader = PdfReader(src)
                w = PdfWriter()
                w.add_page(reader.pages[0])
                if alg:
                    w.encrypt(user_password=user, owner_password="owner", algorithm=alg)
                tmp = c + f".{os.getpid()}.tmp"
                with open(tmp, "wb") as fh:
                    w.write(fh)
                os.replace(tmp, c)
            shutil.copyfile(c, p)
            enc = "none" if alg is None else ("rc4" if alg.startswith("RC4") else ("aesV4" if alg == "AES-128" else "aesV5"))
            out[name] = {"path": p, "enc": enc, "emptyPw": user == ""}
        # documents whose extraction goes through the shared caches with DIFFERENT entries:
        #  * a second AES-128 document (three pages of text: more than _ROUND_KEY_CACHE_MAX per-object keys),
        #  * PDFs whose embedded CID TrueType fonts (digit glyphs mapped to U+0000, repaired from the glyph outlines)
        #    are members of the collision family: equal length, identical table directory, different contents
        fam = collision_family()
        extra = [("aesV4b", "aes", None)] + [("font-" + m, "font", fam[m]) for m in ("base", "layout", "glyf", "head-upem")]
        for name, kind, font in extra:
            p = os.path.join(wd.docs, f"gen_{name}.pdf")
            tag = hashlib.sha1((font or b"three-pages-v1")).hexdigest()[:10]
            c = os.path.join(cache, f"{tag}-{pypdf.__version__}-{name}.pdf")
            if not (os.path.exists(c) and os.path.getsize(c) > 500):
                if kind == "aes":
                    aes.patch_pypdf_fallback_aes()
                    data = make_text_pdf([f"BRAVO page {i} of three, figures {i * 1234567}" for i in (1, 2, 3)], "AES-128")
                else:
                    data = make_font_pdf(font)
                tmp = c + f".{os.getpid()}.tmp"
                with open(tmp, "wb") as fh:
                    fh.write(data)
                os.replace(tmp, c)
            shutil.copyfile(c, p)
            out[name] = {"path": p, "enc": "aesV4" if kind == "aes" else "none", "emptyPw": True}
    finally:
        aes_state.reset()
    return out


def make_text_pdf(page_texts, algorithm=None):
    """pages of Helvetica text written with pypdf, optionally encrypted with an empty user password"""
    from pypdf import PdfWriter
    from pypdf.generic import DecodedStreamObject, DictionaryObject, NameObject
    N = NameObject
    w = PdfWriter()
    for text in page_texts:
        page = w.add_blank_page(612, 792)
        font = DictionaryObject({N("/Type"): N("/Font"), N("/Subtype"): N("/Type1"), N("/BaseFont"): N("/Helvetica")})
        page[N("/Resources")] = DictionaryObject({N("/Font"): DictionaryObject({N("/F1"): w._add_object(font)})})
        stream = DecodedStreamObject()
        stream.set_data(f"BT /F1 12 Tf 72 720 Td ({text}) Tj ET".encode("ascii"))
        page[N("/Contents")] = w._add_object(stream)
    if algorithm:
        w.encrypt(user_password="", owner_password="owner", algorithm=algorithm)
    buf = io.BytesIO()
    w.write(buf)
    return buf.getvalue()


def make_font_pdf(ttf):
    """one page showing 'N:' and the glyphs 1, 2, 3 of an embedded CID TrueType font whose ToUnicode map sends these
    glyphs to U+0000 — the case the library repairs by measuring the glyph outlines of the embedded font program"""
    from pypdf import PdfWriter
    from pypdf.generic import ArrayObject, DecodedStreamObject, DictionaryObject, NameObject, NumberObject, TextStringObject
    N = NameObject
    w = PdfWriter()
    page = w.add_blank_page(612, 792)
    ff = DecodedStreamObject()
    ff.set_data(ttf)
    desc = DictionaryObject({
        N("/Type"): N("/FontDescriptor"), N("/FontName"): N("/AAAAAA+Synth"), N("/Flags"): NumberObject(4),
        N("/FontBBox"): ArrayObject([NumberObject(v) for v in (0, 0, 1100, 1500)]), N("/ItalicAngle"): NumberObject(0),
        N("/Ascent"): NumberObject(1500), N("/Descent"): NumberObject(0), N("/CapHeight"): NumberObject(1500),
        N("/StemV"): NumberObject(80), N("/FontFile2"): w._add_object(ff)})
    cid = DictionaryObject({
        N("/Type"): N("/Font"), N("/Subtype"): N("/CIDFontType2"), N("/BaseFont"): N("/AAAAAA+Synth"),
        N("/CIDSystemInfo"): DictionaryObject({N("/Registry"): TextStringObject("Adobe"), N("/Ordering"): TextStringObject("Identity"),
                                               N("/Supplement"): NumberObject(0)}),
        N("/FontDescriptor"): w._add_object(desc), N("/CIDToGIDMap"): N("/Identity"), N("/DW"): NumberObject(1000)})
    tou = DecodedStreamObject()
    tou.set_data(b"/CIDInit /ProcSet findresource begin\n12 dict begin\nbegincmap\n/CMapName /Adobe-Identity-UCS def\n/CMapType 2 def\n"
                 b"1 begincodespacerange\n<0000> <FFFF>\nendcodespacerange\n5 beginbfchar\n<0001> <0000>\n<0002> <0000>\n<0003> <0000>\n"
                 b"<0004> <004E>\n<0005> <003A>\nendbfchar\nendcmap\nCMapName currentdict /CMap defineresource pop\nend\nend\n")
    font = DictionaryObject({
        N("/Type"): N("/Font"), N("/Subtype"): N("/Type0"), N("/BaseFont"): N("/AAAAAA+Synth"), N("/Encoding"): N("/Identity-H"),
        N("/DescendantFonts"): ArrayObject([w._add_object(cid)]), N("/ToUnicode"): w._add_object(tou)})
    page[N("/Resources")] = DictionaryObject({N("/Font"): DictionaryObject({N("/F1"): w._add_object(font)})})
    content = DecodedStreamObject()
    content.set_data(b"BT /F1 12 Tf 72 720 Td <00040005000100020003> Tj ET")
    page[N("/Contents")] = w._add_object(content)
    buf = io.BytesIO()
    w.write(buf)
    return buf.getvalue()


def extract_kind(path):
    import sharepoint2text
    from sharepoint2text.parsing.exceptions import ExtractionFileEncryptedError, ExtractionFailedError
    try:
        list(sharepoint2text.read_file(path))
        return "ok"
    except ExtractionFileEncryptedError:
        return "encrypted"
    except ExtractionFailedError:
        return "failed"
    except Exception as e:  # noqa: BLE001
        return "other:" + type(e).__name__


def check_aes_history(pdfs, aes_state, names):
    """oracle: each document's outcome in the sequence (from a pristine provider) equals its outcome alone"""
    alone = {}
    for n in set(names):
        aes_state.reset()
        alone[n] = extract_kind(pdfs[n]["path"])
    aes_state.reset()
    try:
        for i, n in enumerate(names):
            got = extract_kind(pdfs[n]["path"])
            if got != alone[n]:
                return False, (f"gen_{n}.pdf extracted after {names[:i]} gives '{got}', alone in a fresh process state it gives '{alone[n]}'")
        return True, "every outcome equals the isolated one"
    finally:
        aes_state.reset()


def corr_aes(ctx, pdfs, aes_state):
    import pypdf._crypt_providers as providers
    broken, violations = [], []
    prov = "fallback" if providers.crypt_provider[0] == "local_crypt_fallback" else "native"
    names = sorted(pdfs)
    if ctx.thorough:
        # every AES-256 extraction costs ~6 s on the pure-python provider: half of the 24 orders (every document
        # occurs at every position), chosen by the seed, and 30 random histories keep the tier under 15 minutes
        perms = [list(p) for p in itertools.permutations(["aesV4", "aesV5", "rc4", "plain"])]
        seqs = perms[ctx.seed % 2::2]
        for _ in range(30):
            seqs.append([ctx.rng.choice(names) for _ in range(ctx.rng.randrange(1, 6))])
        seqs += [[n] for n in names]
    else:   # one AES-256 extraction (~6 s) only
        cheap = [n for n in names if pdfs[n]["enc"] != "aesV5"]
        seqs = [["aesV4"], ["aesV5", "aesV4", "rc4"], ["rc4", "aesV4"], ["plain", "aesV4-locked", "aesV4"], ["rc4-locked", "rc4", "plain"]]
        for _ in range(16):
            seqs.append([ctx.rng.choice(cheap) for _ in range(ctx.rng.randrange(1, 6))])
    outs = ctx.drive([{"op": "c15.aes", "provider": prov, "patched": False,
                       "docs": [{"enc": pdfs[n]["enc"], "emptyPw": pdfs[n]["emptyPw"]} for n in s]} for s in seqs])
    nbad = 0
    for s, mo in zip(seqs, outs):
        aes_state.reset()
        ctx.case(("aes", tuple(s)), nontrivial=len(s) > 1)
        ctx.count("aes/len=%d" % len(s))
        for i, (n, st) in enumerate(zip(s, mo["steps"])):
            got = extract_kind(pdfs[n]["path"])
            pat = aes_state.patched()
            if got != st["res"] or pat != st["patched"]:
                nbad += 1
                if nbad <= 5:
                    broken.append(Broken("correspondence", "c15.aes", f"step {i} ({n}): real ({got}, patched={pat}) model ({st['res']}, patched={st['patched']})",
                                         case={"seq": s}))
                break
    aes_state.reset()
    return broken, violations


# =============================================================================================
#  isolated baseline + sequences + threads (oracle of the property statement)
# =============================================================================================
_ADDR = re.compile(r"0x[0-9a-fA-F]+")


_INDIRECT = re.compile(r"IndirectObject\((\d+), (\d+), \d+\)")
_STAMP = re.compile(r"(\d{4}-\d{2}-\d{2})[T ]\d{2}:\d{2}:\d{2}(\.\d+)?")


def _digest_results(results):
    """digest of the to_json() forms; wall-clock stamps of today (a missing 'created' is filled with now() by
    openpyxl — C06's business, not C15's) and object addresses are canonicalised"""
    import datetime
    today = datetime.date.today()
    near = {(today + datetime.timedelta(days=d)).isoformat() for d in (-1, 0, 1)}

    def dflt(o):
        return type(o).__name__ + ":" + _ADDR.sub("0x", str(o))
    blob = json.dumps([r.to_json() for r in results], sort_keys=True, default=dflt, ensure_ascii=True)
    blob = _STAMP.sub(lambda m: "<now>" if m.group(1) in near else m.group(0), blob)
    blob = _INDIRECT.sub(r"IndirectObject(\1, \2, <id>)", blob)      # repr of a pypdf object carries id(reader)
    return hashlib.sha1(blob.encode()).hexdigest()[:16]


def extract_digest(path, consume="all"):
    import sharepoint2text
    try:
        gen = sharepoint2text.read_file(path)
        if consume == "all":
            return _digest_results(list(gen))
        first = next(gen, None)
        gen.close()
        return "first:" + (_digest_results([first]) if first is not None else "none")
    except Exception as e:  # noqa: BLE001
        c = e.__cause__
        return "ERR:" + type(e).__name__ + (":" + type(c).__name__ if c is not None else "")


def isolated_digest(path, timeout=120):
    """digest of the document extracted alone in a forked child of this process (nothing extracted before)"""
    r, w = os.pipe()
    pid = os.fork()
    if pid == 0:
        try:
            os.close(r)
            signal.alarm(timeout)
            d = extract_digest(path)
            os.write(w, d.encode())
        except BaseException as e:  # noqa: BLE001
            try:
                os.write(w, ("CHILD-CRASH:" + type(e).__name__).encode())
            except Exception:
                pass
        finally:
            os._exit(0)
    os.close(w)
    chunks = []
    while True:
        b = os.read(r, 65536)
        if not b:
            break
        chunks.append(b)
    os.close(r)
    os.waitpid(pid, 0)
    return b"".join(chunks).decode() or "CHILD-NO-OUTPUT"


def isolated_sequence(paths, timeout=120):
    """digests of the documents extracted one after the other in a forked child of this process (nothing extracted
    before): the experiment 'a fresh process extracts exactly this sequence'"""
    r, w = os.pipe()
    pid = os.fork()
    if pid == 0:
        try:
            os.close(r)
            signal.alarm(timeout)
            os.write(w, json.dumps([extract_digest(p) for p in paths]).encode())
        except BaseException as e:  # noqa: BLE001
            try:
                os.write(w, json.dumps(["CHILD-CRASH:" + type(e).__name__] * len(paths)).encode())
            except Exception:
                pass
        finally:
            os._exit(0)
    os.close(w)
    chunks = []
    while True:
        b = os.read(r, 65536)
        if not b:
            break
        chunks.append(b)
    os.close(r)
    os.waitpid(pid, 0)
    try:
        return json.loads(b"".join(chunks).decode())
    except ValueError:
        return ["CHILD-NO-OUTPUT"] * len(paths)


def paired_sequences(names):
    """sequences that are always run from a fresh process: every ordered pair (and one triple a,b,a) of documents
    that go through the same shared cache with different entries (collision-family fonts; AES-128 documents)"""
    fonts = sorted(n for n in names if n.startswith("gen/gen_font-"))
    aes = sorted(n for n in names if n in ("gen/gen_aesV4.pdf", "gen/gen_aesV4b.pdf", "gen/gen_rc4.pdf"))
    seqs = [[a, b] for a in fonts for b in fonts if a != b] + [[a, b] for a in aes for b in aes if a != b]
    if len(fonts) >= 2:
        seqs.append([fonts[0], fonts[1], fonts[0]])
    return seqs


def check_fresh_sequence(by_name, seq, baseline=None):
    base = baseline or {n: isolated_digest(by_name[n]) for n in set(seq)}
    got = isolated_sequence([by_name[n] for n in seq])
    for i, (n, d) in enumerate(zip(seq, got)):
        if d != base[n]:
            return False, (f"a fresh process that extracts {seq[:i + 1]} in this order gets digest {d} for {n}; "
                           f"a fresh process that extracts {n} alone gets {base[n]}")
    return True, "every document of the sequence has the digest it has alone in a fresh process"


def oracle_fresh_sequences(ctx, st):
    """judges the sequences that _baseline() ran in forked children while this process had not extracted anything"""
    for seq, ok, what in st.get("fresh_sequences", []):
        ctx.case(("fresh-seq", tuple(seq)), nontrivial=True)
        ctx.count("fresh-process-sequence/len=%d" % len(seq))
        if not ok:
            return [Violation("sequence.result-depends-on-history", what, {"kind": "sequence-fresh", "seq": seq})]
    return []


# ---- a thread held inside a cache fill while another thread extracts a whole document ---------------------
def cache_fill_gates():
    """[(module, function)]: the module-level functions CALLED by the functions that touch a declared cache cell
    (`_expand_key` under `_get_round_keys`, the table readers under `_ttf_parse_font`, ...), from the current source"""
    import ast
    out = []
    for modname, cell in sorted(DECLARED_CACHES):
        mod = importlib.import_module(modname)
        try:
            with open(mod.__file__, encoding="utf-8") as fh:
                tree = ast.parse(fh.read())
        except (OSError, SyntaxError):
            continue
        top = {n.name for n in tree.body if isinstance(n, ast.FunctionDef)}
        for f in tree.body:
            if isinstance(f, ast.FunctionDef) and any(isinstance(n, ast.Name) and n.id == cell for n in ast.walk(f)):
                for c in ast.walk(f):
                    if isinstance(c, ast.Call) and isinstance(c.func, ast.Name) and c.func.id in top and c.func.id != f.name:
                        if (mod, c.func.id) not in out:
                            out.append((mod, c.func.id))
    return out


def clear_declared_caches():
    """empties the declared transparent caches so that the next extraction takes the fill path again"""
    for modname, cell in DECLARED_CACHES:
        c = getattr(sys.modules.get(modname), cell, None)
        if hasattr(c, "clear"):
            c.clear()


def run_gated_pair(by_name, gate_mod, gate_name, a, b, where):
    """thread T1 extracts document a and is held at its first entry into (where='entry') / return from (where='exit')
    gate_mod.gate_name; while it is held, thread T2 extracts document b completely; then T1 finishes.
    Returns (hit, digest of a, digest of b, note)."""
    hit = threading.Event()
    t2_done = threading.Event()
    used = []
    orig = getattr(gate_mod, gate_name)
    t1_ident = []

    def hold():
        if threading.get_ident() in t1_ident and not used:
            used.append(1)
            hit.set()
            t2_done.wait(6)

    def gated(*a_, **kw):
        if where == "entry":
            hold()
        try:
            return orig(*a_, **kw)
        finally:
            if where == "exit":
                hold()
    gated.__wrapped__ = orig
    res = {}
    clear_declared_caches()

    def run1():
        t1_ident.append(threading.get_ident())
        try:
            res["a"] = extract_digest(by_name[a])
        finally:
            hit.set()

    def run2():
        hit.wait(60)
        try:
            if used:
                res["b"] = extract_digest(by_name[b])
        finally:
            t2_done.set()
    setattr(gate_mod, gate_name, gated)
    try:
        t1 = threading.Thread(target=run1, daemon=True)
        t2 = threading.Thread(target=run2, daemon=True)
        t1.start()
        t2.start()
        t1.join(120)
        t2.join(120)
    finally:
        setattr(gate_mod, gate_name, orig)
    note = "" if not (t1.is_alive() or t2.is_alive()) else "a thread did not finish"
    return bool(used), res.get("a"), res.get("b"), note


def gated_candidates(names):
    return sorted(n for n in names if n.startswith("gen/gen_font-") or n in ("gen/gen_aesV4.pdf", "gen/gen_aesV4b.pdf"))


def check_gated(by_name, baseline, gate, a, b, where):
    gate_mod = importlib.import_module(gate[0])
    hit, da, db, note = run_gated_pair(by_name, gate_mod, gate[1], a, b, where)
    if not hit:
        return True, "gate not reached", False
    probs = []
    if note:
        probs.append(note)
    if da != baseline[a]:
        probs.append(f"thread T1 (held at the {where} of {gate[1]} while T2 worked) extracted {a} with digest {da}, alone in a fresh process {baseline[a]}")
    if db != baseline[b]:
        probs.append(f"thread T2 extracted {b} with digest {db} while T1 (extracting {a}) was held at the {where} of {gate[1]}; alone in a fresh process {baseline[b]}")
    for n in sorted({a, b}):
        d = extract_digest(by_name[n])
        if d != baseline[n]:
            probs.append(f"afterwards {n} extracts with digest {d}, alone in a fresh process {baseline[n]}")
    return (not probs), "; ".join(probs) or "both threads and the extractions afterwards equal the isolated results", True


def oracle_gated_docs(ctx, st, budget_s):
    """always-on, model-free, whole extractions: for every function under a declared cache (cache_fill_gates) and every
    generated document that reaches it, T1 is held at the entry / at the exit of the function while T2 extracts the same
    and a sibling document; both results and the extractions afterwards must equal the isolated baseline."""
    t0 = time.time()
    by_name, baseline = dict(st["docs"]), st["baseline"]
    cands = gated_candidates([n for n, _ in st["docs"]])
    sib = {}
    for grp in ([n for n in cands if "font-" in n], [n for n in cands if "aes" in n]):
        for i, n in enumerate(grp):
            sib[n] = grp[(i + 1) % len(grp)] if len(grp) > 1 else n
    gates = cache_fill_gates()
    ctx.coverage["cache_fill_gates"] = [g for _m, g in gates]
    n_hit = 0
    for mod, g in gates:
        reached_by_none = True
        for a in cands:
            for where in ("entry", "exit"):
                for b in (a, sib[a]):
                    if time.time() - t0 > budget_s:
                        ctx.notes.append("gated whole-document exploration stopped by its time budget")
                        ctx.coverage["gated_runs_hit"] = n_hit
                        return []
                    ok, what, hit = check_gated(by_name, baseline, (mod.__name__, g), a, b, where)
                    if not hit:
                        break
                    reached_by_none = False
                    n_hit += 1
                    ctx.case(("gated", g, a, b, where), nontrivial=True)
                    ctx.count("gated/" + g)
                    if not ok:
                        return [Violation("threads.result-depends-on-concurrent-work", what,
                                          {"kind": "gated", "gate": [mod.__name__, g], "a": a, "b": b, "where": where})]
                else:
                    continue
                break
        if reached_by_none:
            ctx.count("gated/unreached/" + g)
    ctx.coverage["gated_runs_hit"] = n_hit
    return []


# =============================================================================================
#  interpreter-global settings and registries (generalisation of the patch section; see c15_globals.py)
# =============================================================================================
_HEAD_LABELS = ["iso-8859-8-i", "cp-1252", "windows-874", "x-sjis", "win-1251", "x-mac-roman"]


def probe_labels(ctx):
    """charset labels the generated documents declare: a fixed head of labels mail clients / browsers emit + a seeded sample of
    the systematic respellings (own generator: does not disturb the corpus sampling)"""
    import random
    rest = [lb for lb in G.codec_labels() if lb not in _HEAD_LABELS]
    random.Random(ctx.seed * 7919 + 15).shuffle(rest)
    return _HEAD_LABELS + rest


_SNAP_LABELS = []


def _snapshot_labels():
    if not _SNAP_LABELS:
        _SNAP_LABELS.extend(G.codec_labels())
    return _SNAP_LABELS


def _module_of(path):
    from sharepoint2text.parsing import router
    low = path.lower()
    for cx, ft in router._COMPOUND_EXTENSIONS.items():
        if low.endswith(cx):
            return router._EXTRACTOR_REGISTRY[ft][0]
    ext = low.rsplit(".", 1)[-1]
    ext = router._EXTENSION_ALIASES.get(ext, ext)
    return router._EXTRACTOR_REGISTRY.get(ext, (None, None))[0]


def _chain_inputs(ctx, wd, labels=None, seed=None):
    """(orders, docs, labels, firsts): a seeded permutation of the router's lazily imported extractor modules and its reverse
    (every pair 'module M, document of another module' is met in the order document-before-M by one of them); probe documents
    = generated charset documents + one small fixture per file type; `firsts` = what is extracted right after the import of a
    type (a garbage file = failing first extraction, and the fixture)"""
    import random
    from sharepoint2text.parsing import router
    rng = random.Random((ctx.seed if seed is None else seed) * 104729 + 15)
    mods = []
    for ft, (m, _f) in router._EXTRACTOR_REGISTRY.items():
        if m not in [x[0] for x in mods]:
            mods.append([m, ft])
    order = list(mods)
    rng.shuffle(order)
    labels = list(labels) if labels is not None else probe_labels(ctx)[: ctx.n(14, 60)]
    docs = [[n, p, _module_of(p)] for n, p in G.charset_docs(os.path.join(wd.root, "chain-docs"), labels)]
    firsts = {}
    fx = {}
    for root, ds, fs in os.walk(RES):
        ds.sort()
        for f in sorted(fs):
            p = os.path.join(root, f)
            ext = f.rsplit(".", 1)[-1].lower()
            ext = router._EXTENSION_ALIASES.get(ext, ext)
            if ext in router._EXTRACTOR_REGISTRY and 0 < os.path.getsize(p) <= 300_000 and len(fx.get(ext, [])) < 2:
                fx.setdefault(ext, []).append(p)
    os.makedirs(os.path.join(wd.root, "chain-docs"), exist_ok=True)
    for ft in router._EXTRACTOR_REGISTRY:
        g = os.path.join(wd.root, "chain-docs", "garbage." + ft)
        with open(g, "wb") as fh:
            fh.write(b"\x00\x01 not a document \xff\xfe" * 3)
        firsts[ft] = [g] + fx.get(ft, [])[:2]
    for ext, ps in sorted(fx.items()):
        docs.append(["fixture/" + os.path.relpath(ps[0], RES), ps[0], router._EXTRACTOR_REGISTRY[ext][0]])
    return [order, order[::-1]], docs, G.codec_labels(), firsts


# first-use registrations that third-party packages make lazily and that no result can depend on
_FIRST_USE_NEUTRAL = ("atexit.ncallbacks",)


def judge_chain(res):
    """[(key, what, step index)] for one chain result"""
    out = []
    if "error" in res:
        return [("harness", "import-history child failed: " + str(res["error"])[:300], -1)]
    for i, st_ in enumerate(res["steps"]):
        m = st_["module"]
        if st_["result_diffs"]:
            d = st_["result_diffs"][0]
            out.append(("imports.result-depends-on-loaded-extractors",
                        f"in a fresh process, {d['doc']} extracted once {d['first_after'].rsplit('.', 1)[-1]} was loaded has digest {d['first']}; "
                        f"extracted again after the first use of {m.rsplit('.', 1)[-1]} (lazily imported by the router for '.{st_['ft']}') it has {d['now']}", i))
        if st_["lib_diff"]:
            k, v = sorted(st_["lib_diff"].items())[0]
            out.append(("imports.registry-extended-at-import",
                        f"importing {m} (the router does it on the first '.{st_['ft']}') changes interpreter-wide state that is never put back: "
                        + "; ".join(f"{k}: {v[0]} -> {v[1]}" for k, v in sorted(st_["lib_diff"].items())[:4]), i))
        fu = {k: v for k, v in list(st_.get("first_use_diff", {}).items()) + list(st_.get("probe_diff", {}).items()) if k not in _FIRST_USE_NEUTRAL}
        if fu:
            out.append(("imports.registry-extended-at-first-use",
                        f"the first extraction(s) after loading {m} change interpreter-wide state that is never put back: "
                        + "; ".join(f"{k}: {v[0]} -> {v[1]}" for k, v in sorted(fu.items())[:4]), i))
    return out


def oracle_import_histories(ctx, st):
    """always-on: order histories 'document before / after every lazily imported extractor module' in pristine interpreters"""
    wd = st["wd"]
    if "chains" in st:      # started in the background when the oracles began
        orders, procs = st.pop("chains")
        results = G.collect_import_chains(procs)
    else:
        orders, docs, labels, firsts = _chain_inputs(ctx, wd)
        results = G.run_import_chains(REPO, orders, docs, labels, firsts)
    out = []
    for order, res in zip(orders, results):
        ctx.count("import-history/chains")
        if "error" in res:
            raise Infra("import-history child failed: " + str(res["error"])[-400:])
        ctx.coverage["import_history_docs_probed"] = res["docs_probed"]
        ctx.coverage["import_history_unknown_labels"] = res["labels_unknown"]
        ctx.coverage["import_history_modules"] = len(order)
        third = sorted({k for s_ in res["steps"] for k in s_["outside_diff"]} | {k for s_ in res["steps"] for k in list(s_.get("first_use_diff", {})) + list(s_.get("probe_diff", {})) if k in _FIRST_USE_NEUTRAL})
        ctx.coverage["registries_extended_by_imports_outside_the_package"] = third
        for s_ in res["steps"]:
            ctx.case(("import-history", tuple(m for m, _ in order[: res["steps"].index(s_) + 1])), nontrivial=True)
        for key, what, i in judge_chain(res):
            if not any(v.key == key for v in out):
                out.append(Violation(key, what, {"kind": "import-history", "order": order[: i + 1], "seed": ctx.seed,
                                                 "labels": probe_labels(ctx)[: ctx.n(14, 60)]}))
    return out


def replay_import_history(ctx, st, rp):
    import types as _t
    fake = _t.SimpleNamespace(seed=rp.get("seed", 0), n=ctx.n, thorough=ctx.thorough)
    orders, docs, labels, firsts = _chain_inputs(fake, st["wd"], labels=rp.get("labels"))
    res = G.run_import_chains(REPO, [rp["order"]], docs, labels, firsts)[0]
    if "error" in res:
        raise Infra("import-history child failed: " + str(res["error"])[-400:])
    bad = judge_chain(res)
    if bad:
        return False, bad[0][1]
    return True, (f"fresh process, imports {[m.rsplit('.', 1)[-1] for m, _ in rp['order']]}: registries unchanged by the package's modules, "
                  f"{res['docs_probed']} probe documents keep their first result")


class SetterRecorder:
    """while active, calls of well-known setters of interpreter-global settings made FROM A FRAME OF THE PACKAGE are recorded
    (file, first line of the calling function): the dynamic complement of the AST inventory `G.setting_writers` (aliases such
    as getattr(sys, 'setrecursionlimit') do not escape it)"""
    TARGETS = [("sys", "setrecursionlimit"), ("sys", "setswitchinterval"), ("locale", "setlocale"), ("decimal", "setcontext"),
               ("socket", "setdefaulttimeout"), ("warnings", "filterwarnings"), ("warnings", "simplefilter"), ("warnings", "resetwarnings"),
               ("csv", "field_size_limit"), ("os", "chdir"), ("os", "umask"), ("codecs", "register"), ("codecs", "register_error"),
               ("mimetypes", "add_type"), ("copyreg", "pickle"), ("atexit", "register"), ("gc", "disable"), ("gc", "enable")]

    def __init__(self):
        self.callers = {}
        self._saved = []
        self.root = os.path.join(os.path.realpath(REPO), "sharepoint2text") + os.sep

    def __enter__(self):
        for mn, fn in self.TARGETS:
            mod = importlib.import_module(mn)
            orig = getattr(mod, fn, None)
            if orig is None:
                continue

            def mk(orig, name):
                def wrapper(*a, **kw):
                    f = sys._getframe(1)
                    for _ in range(3):      # the caller, or the generator-based context manager it belongs to
                        if f is None:
                            break
                        cf = os.path.realpath(f.f_code.co_filename)
                        if cf.startswith(self.root) and os.sep + "tests" + os.sep not in cf:
                            if not (name == "csv.field_size_limit" and not a):      # a call without argument only reads
                                self.callers.setdefault((cf, f.f_code.co_name, f.f_code.co_firstlineno), set()).add(name)
                            break
                        f = f.f_back
                    return orig(*a, **kw)
                wrapper.__wrapped__ = orig
                return wrapper
            self._saved.append((mod, fn, orig))
            setattr(mod, fn, mk(orig, mn + "." + fn))
        return self

    def __exit__(self, *a):
        for mod, fn, orig in self._saved:
            setattr(mod, fn, orig)
        return False


def _setting_sections(st):
    """[(realpath, first line, last line, name, cells)]: functions of the package that write interpreter-global settings:
    AST inventory of the current source + callers recorded at run time"""
    secs = {}
    for w in G.setting_writers(REPO):
        if w["func"] != "<module>":
            secs[(os.path.realpath(w["file"]), w["lo"])] = (os.path.realpath(w["file"]), w["lo"], w["hi"], w["func"], w["cells"])
    for (cf, name, first), cells in st.get("setter_callers", {}).items():
        if name == "<module>":
            continue
        if not any(f == cf and lo <= first <= hi for (f, lo, hi, _n, _c) in secs.values()):
            secs[(cf, first)] = (cf, first, first, name, sorted(cells))
    return sorted(secs.values())


def _job(path):
    return lambda: extract_digest(path)


def oracle_setting_sections(ctx, st, budget_s):
    """always-on, model-free: for EVERY function of the package that sets an interpreter-global setting (none in the unchanged
    library), two real threads extract real documents that reach it — a small one and documents nested deeper than the default
    recursion limit — paused before every source line of the function: all schedules 'A runs i steps, B runs j steps, A drains,
    B drains'; results must equal the isolated baseline and the settings must be back afterwards."""
    t0 = time.time()
    secs = _setting_sections(st)
    ctx.coverage["setting_writer_functions"] = [f"{os.path.basename(f)}:{n} {c}" for f, _lo, _hi, n, c in secs]
    # the instrument itself, on a reference section of the harness (unsynchronised save / set / restore of the switch interval)
    ok_ref, _w, _r = G.check_setting_interleaving([_reference_job, _reference_job], ["ref", "ref"], [_reference_span()], [0, 0, 0, 1, 1, 1])
    ctx.coverage["setting_scheduler_detects_reference_overlap"] = not ok_ref
    if ok_ref:
        raise Infra("the generic section scheduler did not expose the unsynchronised reference section")
    if not secs:
        return []
    by_name, baseline = dict(st["docs"]), st["baseline"]
    spans = [(f, lo, hi) for f, lo, hi, _n, _c in secs]
    files = {f for f, *_ in secs}
    names = [n for n, _ in st["docs"]]
    pref = [n for n in names if n.startswith("deep/")] + [n for n in names if n.startswith("charset/")]
    def in_writer_module(n):
        m = sys.modules.get(_module_of(by_name[n]) or "")
        return m is not None and os.path.realpath(getattr(m, "__file__", "") or "") in files
    same_mod = [n for n in names if n not in pref and in_writer_module(n)]
    rest = [n for n in names if n not in pref and n not in same_mod and os.path.getsize(by_name[n]) < 60_000]
    reach = []
    for n in pref + same_mod + rest:
        if time.time() - t0 > budget_s / 3:
            break
        if G.reached_sections(_job(by_name[n]), [(f, lo, hi) for f, lo, hi in spans]):
            reach.append(n)
        if len(reach) >= 12:
            break
    ctx.coverage["setting_sections_reached_by"] = reach[:12]
    if not reach:
        ctx.notes.append("functions that write interpreter-global settings exist but no document of the corpus reaches them")
        return []
    # A = the document that spends the most steps inside the sections (a failing one stops early); B = documents nested deeper than
    # the default recursion limit, A itself, a second document, and a failing document (sections left by an exception)
    nsteps = {n: G.section_steps(_job(by_name[n]), spans) for n in reach}
    ranked = sorted(reach, key=lambda n: (-nsteps[n], baseline[n].startswith("ERR"), n))
    deep = [n for n in ranked if n.startswith("deep/")]
    top = ranked[0]
    second = [n for n in ranked if n != top and not n.startswith("deep/")][:1]
    failing = [n for n in ranked if baseline[n].startswith("ERR") and n != top and not n.startswith("deep/")][:1]
    pairs = [(top, b) for b in deep[:2] if b != top] + [(top, top)] + [(top, b) for b in second] + [(b, top) for b in failing]
    ctx.coverage["setting_section_pairs"] = pairs
    for a, b in pairs:
        na, nb = nsteps[a], nsteps[b]
        # the two threads run the same code: the overlaps 'both equally far into the section' first
        for i, j in sorted(((i, j) for i in range(1, min(na, 40) + 1) for j in range(1, min(nb, 40) + 1)),
                           key=lambda ij: (max(ij), abs(ij[0] - ij[1]), ij)):
            if True:
                if time.time() - t0 > budget_s:
                    ctx.notes.append("setting-section exploration stopped by its time budget")
                    return []
                sched = [0] * i + [1] * j
                ok, what, _res = G.check_setting_interleaving([_job(by_name[a]), _job(by_name[b])], [baseline[a], baseline[b]], spans, sched)
                ctx.case(("setting-section", a, b, tuple(sched)), nontrivial=True)
                ctx.count("setting-section/k=2")
                if not ok:
                    fn = ", ".join(f"{os.path.basename(f)}:{n}" for f, _lo, _hi, n, _c in secs[:3])
                    return [Violation("settings.section-not-isolated",
                                      f"two threads extracting {a} (A) and {b} (B), paused before the lines of {fn}: A runs {i} steps, B runs {j} steps, "
                                      f"A finishes, B finishes: {what}",
                                      {"kind": "setting-section", "a": a, "b": b, "schedule": sched})]
    return []


def _reference_section():
    prev = sys.getswitchinterval()
    sys.setswitchinterval(0.0123)
    try:
        time.sleep(0)
    finally:
        sys.setswitchinterval(prev)


def _reference_job():
    _reference_section()
    return "ref"


def _reference_span():
    c = _reference_section.__code__
    return (os.path.realpath(c.co_filename), c.co_firstlineno, c.co_firstlineno + 6)


def replay_setting_section(ctx, st, rp):
    wd = st["wd"]
    docs = dict(corpus(ctx, wd, st["pdfs"]))
    a, b = rp["a"], rp["b"]
    missing = [n for n in (a, b) if n not in docs]
    if missing:
        return True, f"documents {missing} are generated per seed; re-run with the recorded VERIF_SEED"
    _preimport()
    base = {n: isolated_digest(docs[n]) for n in {a, b}}
    with SetterRecorder() as rec:
        for n in (a, b):
            extract_digest(docs[n])
    st["setter_callers"] = rec.callers
    secs = _setting_sections(st)
    if not secs:
        return True, "no function of the package writes an interpreter-global setting: nothing to interleave"
    spans = [(f, lo, hi) for f, lo, hi, _n, _c in secs]
    ok, what, res = G.check_setting_interleaving([_job(docs[a]), _job(docs[b])], [base[a], base[b]], spans, rp["schedule"])
    return ok, (what or f"both results equal the isolated ones, settings restored (steps taken {res['steps']})")




# =============================================================================================
#  template families / suspended generators / cache wrappers found at run time (see c15_shared.py)
# =============================================================================================
def oracle_families(ctx, st):
    """judges the family sequences that _baseline() ran in forked children while this process had not extracted anything"""
    for seq, ok, what, key in st.get("family_sequences", []):
        ctx.case(("family-seq", tuple(seq)), nontrivial=True)
        ctx.count("family-sequence/" + seq[0].split("/")[1])
        if not ok:
            return [Violation(key, what, {"kind": "family-sequence", "seq": seq})]
    return []


def _content_probes(st):
    """{result class name: smallest healthy document whose first result has that class} — what to extract while an archive /
    mailbox is suspended after yielding a result of that class (computed in a forked child: this process stays pristine)"""
    if "content_probes" in st:
        return st["content_probes"]
    docs, baseline = st["docs"], st["baseline"]

    def work(emit):
        import sharepoint2text
        probes = {}
        for n, p in sorted(docs, key=lambda d: os.path.getsize(d[1])):
            if baseline[n].startswith("ERR") or "aesV5" in n or os.path.getsize(p) > 200_000:
                continue
            try:
                gen = sharepoint2text.read_file(p)
                c = next(gen, None)
                gen.close()
            except Exception:  # noqa: BLE001
                continue
            if c is not None:
                probes.setdefault(type(c).__name__, n)
        emit({"probes": probes})
    lines, _fin = S._child(work, 120)
    st["content_probes"] = next((ln["probes"] for ln in lines if "probes" in ln), {})
    return st["content_probes"]


SUSPENDED_TIMEOUT = 20.0


def run_suspended_oracle(ctx, st):
    """runs from _baseline(), i.e. in forked children of the still pristine harness process (a failing case replays from the
    same state: a fresh process)"""
    by_name, baseline = dict(st["docs"]), st["baseline"]
    probes = _content_probes(st)
    plan = S.suspended_plan(st["docs"], baseline, ctx.rng, ctx.thorough, probes)
    timeout = SUSPENDED_TIMEOUT if not ctx.thorough else 60.0
    recs, hung, stopped = S.run_suspended(by_name, plan, probes, extract_digest, timeout, t_budget=ctx.n(9, 40))
    out = {"recs": recs, "stopped": stopped, "violation": None, "infra": None}
    bad = S.judge_suspended(recs, hung, baseline, timeout)
    if bad:
        what, rp = bad
        key = "suspended.extraction-blocked-by-unfinished-generator" if "does not finish" in what else "suspended.result-depends-on-unfinished-generator"
        if "does not finish" in what:
            # a loaded machine is not a deadlock: the single case again, alone, with twice the patience
            r1, h1, _ = S.run_suspended(by_name, [(rp["a"], rp["k"], [(rp["b"], rp["mode"])], False)], {}, extract_digest, 2 * timeout)
            again = S.judge_suspended([r for r in r1 if r["k"] == rp["k"]], h1, baseline, 2 * timeout)
            if again is None:
                ctx.notes.append(f"suspended-generator case {rp} was silent for {timeout:.0f} s but finishes alone: machine load, not judged")
                return out
            what, rp = again
        if "does not finish" not in what:
            # is it the suspension, or the history of the child (documents extracted before in the same child)?
            r1, h1, _ = S.run_suspended(by_name, [(rp["a"], rp["k"], [(rp["b"], rp["mode"])], False)], {}, extract_digest, timeout)
            if not S.judge_suspended([r for r in r1 if r["k"] == rp["k"]], h1, baseline, timeout):
                hist = []
                for r in recs:
                    for n in (r["a"], r["b"]):
                        if not hist or hist[-1] != n:
                            hist.append(n)
                    if all(r[k] == rp[k] for k in ("a", "k", "b", "mode")):
                        break
                ok, what2, key2 = S.check_family_sequence(by_name, hist, baseline, _digest_results)
                if not ok:
                    key, what, rp = key2, what2, {"kind": "family-sequence", "seq": hist}
                else:
                    what += " (seen after the earlier cases of the same child; the single case alone does not reproduce it)"
        out["violation"] = (key, what, rp)
    elif hung:
        out["infra"] = f"suspended-generator child failed: {hung}"
    return out


def oracle_suspended(ctx, st):
    """judges what run_suspended_oracle() saw"""
    res = st.get("suspended") or run_suspended_oracle(ctx, st)
    for r in res["recs"]:
        ctx.case(("suspended", r["a"], r["k"], r["b"], r["mode"]), nontrivial=True)
        ctx.count("suspended/" + r["mode"] + ("/self" if r["a"] == r["b"] else "/other-document"))
    ctx.coverage["suspended_cases"] = len(res["recs"])
    if res["stopped"]:
        ctx.notes.append(f"suspended-generator exploration stopped by its time budget at {res['stopped'][0]['stopped']} ({len(res['recs'])} cases judged)")
    if res["violation"]:
        return [Violation(*res["violation"])]
    if res["infra"]:
        raise Infra(res["infra"])
    return []


def replay_suspended(ctx, st, rp):
    docs = corpus(ctx, st["wd"], st["pdfs"])
    by = dict(docs)
    if rp["a"] not in by or rp["b"] not in by:
        return True, "documents of the recorded case are generated per seed; re-run with the recorded VERIF_SEED"
    base = {rp["b"]: isolated_digest(by[rp["b"]])}
    plan = [(rp["a"], rp["k"], [(rp["b"], rp["mode"])], False)]
    recs, hung, _ = S.run_suspended(by, plan, {}, extract_digest, SUSPENDED_TIMEOUT)
    recs = [r for r in recs if r["k"] == rp["k"]]
    bad = S.judge_suspended(recs, hung, base, SUSPENDED_TIMEOUT)
    if bad:
        return False, bad[0]
    if not recs:
        return True, f"read_file({rp['a']}) no longer yields a result #{rp['k']}"
    return True, S.describe_suspended(recs[0]) + ": finishes with its isolated digest"


def _cached_pass_docs(ctx, st):
    """family documents + one small healthy document per extension (a seeded choice)"""
    names = [n for n, _ in st["docs"] if n.startswith("family/")]
    by_ext = {}
    for n, p in st["docs"]:
        if not n.startswith("family/") and not st["baseline"][n].startswith("ERR") and os.path.getsize(p) < 150_000 and "aesV5" not in n:
            by_ext.setdefault(S._ext(n), []).append(n)
    for e in sorted(by_ext):
        names.append(ctx.rng.choice(sorted(by_ext[e])))
    return names


def check_cached_pass(by_name, names):
    _preimport()           # the cache wrappers live in lazily imported extractor modules
    with S.CacheRecorder() as rec:
        for n in names:
            rec.current = n
            extract_digest(by_name[n])
        rec.current = None
        found = S.check_cached_callables(rec)
    return rec, found


def oracle_cached_callables(ctx, st):
    """every functools cache wrapper of the package (found at run time), real argument histories: the handed-out values are not
    modified afterwards and cached == uncached after the history"""
    by_name = dict(st["docs"])
    names = _cached_pass_docs(ctx, st)
    rec, found = check_cached_pass(by_name, names)
    ctx.coverage["cached_callables"] = {k[0].split(".")[-1] + "." + k[1]: len(v) for k, v in rec.records.items()}
    for k, v in rec.records.items():
        for ak in v:
            ctx.case(("cached-callable", k, ak), nontrivial=True)
        ctx.count("cached-callable/" + k[1] + ("/called" if v else "/never-called"))
    out = []
    for key, what, site, doc in found[:1]:
        # shrink the history: the documents up to the one that made the first call are not needed if two suffice
        seq = names
        if doc in names:
            for other in names:
                if other == doc:
                    continue
                _r, f2 = check_cached_pass(by_name, [doc, other])
                if any(s2 == site for _k, _w, s2, _d in f2):
                    seq = [doc, other]
                    what = [w for _k, w, s2, _d in f2 if s2 == site][0]
                    break
        out.append(Violation(key, f"after extracting {seq}: " + what, {"kind": "cached-callable", "docs": seq, "site": list(site)}))
    return out


def _preimport():
    """import (not run) every extractor module so that the forked baseline children do not pay for it"""
    from sharepoint2text.parsing import router
    for _ft, (modname, _fn) in router._EXTRACTOR_REGISTRY.items():
        try:
            importlib.import_module(modname)
        except Exception:  # noqa: BLE001 - C07 checks importability
            pass


def corpus(ctx, wd, pdfs):
    """[(name, path)]: fixtures (<= 400 kB) + generated PDFs + damaged copies (failing inputs)"""
    docs = []
    for root, ds, fs in os.walk(RES):
        ds.sort()
        for f in sorted(fs):
            p = os.path.join(root, f)
            if 0 < os.path.getsize(p) <= 400_000:
                docs.append((os.path.relpath(p, RES), p))
    if not ctx.thorough:   # quick tier: a seeded sample of the fixtures, the PDFs always
        keep = [d for d in docs if d[0].endswith(".pdf") or d[0].startswith("archives/")]
        rest = [d for d in docs if d not in keep]
        docs = sorted(keep + ctx.rng.sample(rest, min(len(rest), 26)))
    for n, d in sorted(pdfs.items()):
        if d["enc"] == "aesV5" and not ctx.thorough:
            continue        # AES-256 on the pure-python fallback costs ~6 s per extraction (password hash 2.B)
        docs.append(("gen/" + os.path.basename(d["path"]), d["path"]))
    # documents nested deeper than the default recursion limit; documents that declare charset labels Python does not know
    docs += G.deep_docs(os.path.join(wd.docs, "deep"))
    docs += G.charset_docs(os.path.join(wd.docs, "charset"), probe_labels(ctx)[: (8 if not ctx.thorough else 40)])
    # template families: small documents that agree byte for byte on parts (rows, names, heads) in different contexts
    fdocs, fams = S.family_docs(os.path.join(wd.docs, "family"))
    docs += fdocs
    _FAMILIES.clear()
    _FAMILIES.update(fams)
    # damaged copies: truncated / bit-flipped fixtures of several formats
    picks = [d for d in docs if d[0].endswith((".pdf", ".docx", ".xlsx", ".odt", ".zip", ".7z", ".epub", ".eml", ".rtf", ".doc", ".pptx"))]
    for name, p in ctx.rng.sample(picks, min(len(picks), 10)):
        with open(p, "rb") as fh:
            data = bytearray(fh.read())
        mode = ctx.rng.choice(("truncate", "flip", "zero"))
        if mode == "truncate":
            data = data[: max(8, len(data) // ctx.rng.choice((2, 3, 5)))]
        elif mode == "flip":
            for _ in range(20):
                i = ctx.rng.randrange(len(data))
                data[i] ^= 1 << ctx.rng.randrange(8)
        else:
            i = ctx.rng.randrange(len(data))
            data[i: i + 64] = bytes(min(64, len(data) - i))
        q = os.path.join(wd.docs, f"damaged_{mode}_{os.path.basename(p)}")
        with open(q, "wb") as fh:
            fh.write(bytes(data))
        docs.append(("damaged/" + os.path.basename(q), q))
    return docs


_FAMILIES = {}

DECLARED_CACHES = {("sharepoint2text.parsing.extractors.pdf.pdf_extractor", "_FONT_CACHE"),
                   ("sharepoint2text.parsing.extractors.pdf._pypdf_aes_fallback", "_ROUND_KEY_CACHE"),
                   ("sharepoint2text.parsing.extractors.serialization", "_TYPE_REGISTRY")}
_PLAIN = (int, float, bool, str, bytes, type(None), tuple, list, dict, set, frozenset, bytearray)


def _plain_repr(v, depth=0):
    if depth > 4:
        return "..."
    if isinstance(v, (int, float, bool, str, bytes, type(None), bytearray)):
        return repr(v) if not isinstance(v, (bytes, bytearray, str)) or len(v) < 200 else hashlib.sha1(repr(v).encode()).hexdigest()
    if isinstance(v, (tuple, list)):
        return type(v).__name__ + "[" + ",".join(_plain_repr(x, depth + 1) for x in v) + "]"
    if isinstance(v, (set, frozenset)):
        return "set{" + ",".join(sorted(_plain_repr(x, depth + 1) for x in v)) + "}"
    if isinstance(v, dict):
        return "dict{" + ",".join(sorted(_plain_repr(k, depth + 1) + ":" + _plain_repr(x, depth + 1) for k, x in v.items())) + "}"
    return "<" + type(v).__name__ + ">"


class GlobalSnapshot:
    """what the property calls 'the process-global state the library touches'"""

    def __init__(self, wd):
        self.wd = wd

    def take(self):
        gc.collect()
        pe = _pe()
        s = {}
        for (m, a) in pe._get_pypdf_char_map_patcher()[0]:
            s[f"patched:{m.__name__}.{a}"] = id(m.__dict__[a])
        for name, mod in sorted(sys.modules.items()):
            if not name.startswith("sharepoint2text") or mod is None or ".tests" in name:
                continue
            for n, v in sorted(vars(mod).items()):
                if n.startswith("__") or (name, n) in DECLARED_CACHES:
                    continue
                if isinstance(v, _PLAIN) or type(v).__name__ in ("OrderedDict", "defaultdict", "ArchiveConfig"):
                    s[f"mod:{name}.{n}"] = hashlib.sha1((_plain_repr(v) if isinstance(v, _PLAIN) else repr(v)).encode()).hexdigest()[:12]
        s["tmp"] = tuple(sorted(os.listdir(self.wd.tmp)))
        s["fds"] = len(os.listdir("/proc/self/fd"))
        s["cwd"] = os.getcwd()
        s["environ"] = hashlib.sha1(repr(sorted(os.environ.items())).encode()).hexdigest()[:12]
        s["recursionlimit"] = sys.getrecursionlimit()
        s["switchinterval"] = sys.getswitchinterval()
        s["threads"] = threading.active_count()
        import mimetypes
        s["mimetypes"] = hashlib.sha1(repr(sorted(mimetypes.types_map.items())).encode()).hexdigest()[:12]
        import logging
        s["logging.disable"] = logging.root.manager.disable
        # interpreter-wide settings with a setter, and the registries a module can extend at import time / first use
        # (codec registry probed with non-standard labels, mimetypes maps, copyreg, atexit, email.charset, ...)
        s.update(G.settings_snapshot())
        s.update({"reg:" + k: (v if not isinstance(v, tuple) else hashlib.sha1(repr(v).encode()).hexdigest()[:12])
                  for k, v in G.registries_snapshot(_snapshot_labels()).items()})
        return s

    @staticmethod
    def diff(a, b):
        # modules imported lazily in between add keys; only compare keys present in both
        return {k: (a[k], b[k]) for k in a if k in b and a[k] != b[k]}


def seq_oracle(ctx, wd, docs, baseline, aes_state, st=None):
    """random sequences (incl. failing inputs, early-closed generators) then random thread workloads"""
    violations = []
    snap = GlobalSnapshot(wd)
    by_name = dict(docs)
    names = [n for n, _ in docs]
    guard = G.SettingsGuard()      # whatever a sequence / workload leaks is put back before the next part of the run
    # warm-up: import every extractor once so that lazily imported modules do not look like state changes
    with SetterRecorder() as rec:      # which functions of the package call a setter of an interpreter-global setting?
        for n in names:
            extract_digest(by_name[n])
    if st is not None:
        st["setter_callers"] = rec.callers
    aes_patched_before = aes_state.patched()
    s0 = snap.take()

    def one_sequence(seq, how):
        for i, n in enumerate(seq):
            d = extract_digest(by_name[n])
            if d != baseline[n]:
                return Violation("sequence.result-depends-on-history",
                                 f"{n} extracted after {seq[:i]} has digest {d}, alone in a fresh process {baseline[n]}",
                                 {"kind": "sequence", "seq": seq[: i + 1]})
            if how == "close-early":
                extract_digest(by_name[n], consume="first")
        s1 = snap.take()
        df = snap.diff(s0, s1)
        if df:
            return Violation("sequence.global-state-not-restored",
                             f"after the sequence {seq} process-global state differs: " + "; ".join(f"{k}: {v[0]} -> {v[1]}" for k, v in sorted(df.items())[:6]),
                             {"kind": "sequence", "seq": seq, "how": how})
        return None

    n_seq = ctx.n(14, 100)
    for j in range(n_seq):
        seq = [ctx.rng.choice(names) for _ in range(ctx.rng.randrange(2, 9))]
        how = "close-early" if j % 3 == 2 else "all"
        ctx.case(("seq", tuple(seq), how), nontrivial=True)
        ctx.count("sequence/" + how + ("/with-failing" if any(baseline[n].startswith("ERR") for n in seq) else "/all-ok"))
        v = one_sequence(seq, how)
        if v:
            violations.append(v)
            break
    # threads: preemptive, mixed formats
    old = sys.getswitchinterval()
    try:
        for j in range(ctx.n(3, 15)):
            nthreads = ctx.rng.choice((2, 3, 4, 6))
            work = [[ctx.rng.choice(names) for _ in range(ctx.rng.randrange(2, 7))] for _ in range(nthreads)]
            # make sure PDFs (the patched section) overlap often
            pdfs_ = [n for n in names if n.endswith(".pdf") and not baseline[n].startswith("ERR")]
            for w in work:
                w.insert(ctx.rng.randrange(len(w) + 1), ctx.rng.choice(pdfs_))
            results = [[] for _ in range(nthreads)]
            sys.setswitchinterval(ctx.rng.choice((1e-6, 1e-5, 1e-4)))

            def run(i):
                for n in work[i]:
                    results[i].append((n, extract_digest(by_name[n])))
            ths = [threading.Thread(target=run, args=(i,)) for i in range(nthreads)]
            for th in ths:
                th.start()
            for th in ths:
                th.join(300)
            sys.setswitchinterval(old)
            ctx.case(("threads", tuple(tuple(w) for w in work)), nontrivial=True)
            ctx.count(f"threads/n={nthreads}")
            bad = [(n, d) for res in results for (n, d) in res if d != baseline[n]]
            if bad:
                n, d = bad[0]
                violations.append(Violation("threads.result-depends-on-concurrent-work",
                                            f"{n} extracted concurrently (workload {work}) has digest {d}, alone {baseline[n]}",
                                            {"kind": "threads", "work": work}))
                break
            df = snap.diff(s0, snap.take())
            if df:
                violations.append(Violation("threads.global-state-not-restored",
                                            f"after concurrent workload {work}: " + "; ".join(f"{k}: {v[0]} -> {v[1]}" for k, v in sorted(df.items())[:6]),
                                            {"kind": "threads", "work": work}))
                break
    finally:
        sys.setswitchinterval(old)
        guard.restore()
    return violations


def oracle_early_exit(ctx, st):
    """every document's generator abandoned after the first result (close) or hit by the consumer's exception
    (throw): no temporary directory and no open descriptor may stay behind"""
    import sharepoint2text
    wd = st["wd"]
    out = []
    gc.collect()
    fds0 = len(os.listdir("/proc/self/fd"))
    for name, path in st["docs"]:
        for how in ("close", "throw", "drop"):
            try:
                gen = sharepoint2text.read_file(path)
                first = next(gen, None)
                if how == "close":
                    gen.close()
                elif how == "throw" and first is not None:
                    try:
                        gen.throw(KeyError("consumer failed"))
                    except (KeyError, StopIteration):
                        pass
                    except Exception:  # noqa: BLE001 - read_file wraps it
                        pass
                del gen
            except Exception:  # noqa: BLE001 - failing inputs are part of the corpus
                pass
            gc.collect()
            live = sorted(os.listdir(wd.tmp))
            fds = len(os.listdir("/proc/self/fd"))
            ctx.case(("early-exit", name, how))
            ctx.count("early-exit/" + how)
            if live:
                out.append(Violation("temp.directory-left-behind",
                                     f"read_file({name}) consumer '{how}' after the first result: {live} left in the temp root",
                                     {"kind": "early-exit", "doc": name, "how": how}))
                for x in live:
                    shutil.rmtree(os.path.join(wd.tmp, x), ignore_errors=True)
                return out
            if fds != fds0:
                out.append(Violation("handles.descriptor-left-open",
                                     f"read_file({name}) consumer '{how}' after the first result: open descriptors {fds0} -> {fds}",
                                     {"kind": "early-exit", "doc": name, "how": how}))
                return out
    return out


def corr_temp(ctx, wd):
    """7z generator under exhaust / close / throw consumers vs. the model; temp root must be empty afterwards"""
    import sharepoint2text
    broken, violations = [], []
    p = os.path.join(RES, "archives", "test_archive.7z")
    if not os.path.exists(p):
        return broken, violations
    n_members = len(list(sharepoint2text.read_file(p)))
    reqs, reals = [], []
    for consumer, k in [("exhaust", 0)] + [("close", i) for i in range(1, n_members + 1)] + [("throw", i) for i in range(1, n_members + 1)]:
        gen = sharepoint2text.read_file(p)
        got = 0
        outcome = "finished"
        try:
            for r in gen:
                got += 1
                if consumer == "close" and got == k:
                    gen.close()
                    outcome = "closed"
                    break
                if consumer == "throw" and got == k:
                    try:
                        gen.throw(KeyError("consumer failed"))
                    except KeyError:
                        outcome = "raised"
                    except StopIteration:
                        outcome = "swallowed"
                    except Exception as e:  # noqa: BLE001
                        outcome = "raised"
                    break
        except Exception:  # noqa: BLE001
            outcome = "raised"
        del gen
        gc.collect()
        live = sorted(os.listdir(wd.tmp))
        reqs.append({"op": "c15.temp", "fails": False, "members": [True] * n_members, "consumer": consumer, "k": k})
        reals.append((consumer, k, outcome, got, live))
    # fault point "unpacking fails after the header and the file list parsed": the fixture with bytes of its packed
    # streams flipped (start header, next-header offset/size/CRC and the header itself stay intact)
    blob = open(p, "rb").read()
    hdr_off = 32 + int.from_bytes(blob[12:20], "little")
    for di, (lo, n) in enumerate([(32 + (hdr_off - 32) // 2, 6), (40, 3), (max(33, hdr_off - 9), 4)]):
        if not (32 < lo and lo + n <= hdr_off):
            continue
        bad = bytearray(blob)
        for i in range(lo, lo + n):
            bad[i] ^= 0xA5
        bp = os.path.join(wd.root, f"damaged{di}.7z")
        with open(bp, "wb") as fh:
            fh.write(bytes(bad))
        for consumer, k in (("exhaust", 0), ("close", 1)):
            got, outcome = 0, "finished"
            gen = sharepoint2text.read_file(bp)
            try:
                for r in gen:
                    got += 1
                    if consumer == "close" and got == k:
                        gen.close()
                        outcome = "closed"
                        break
            except Exception:  # noqa: BLE001
                outcome = "raised"
            del gen
            gc.collect()
            live = sorted(os.listdir(wd.tmp))
            fails = outcome == "raised" and got == 0
            ctx.count("temp/damaged/" + ("unpack-fails" if fails else "unpack-survives"))
            if fails:    # a flip the decoder does not notice is a healthy run and adds nothing
                reqs.append({"op": "c15.temp", "fails": True, "members": [True] * n_members, "consumer": consumer, "k": k})
                reals.append((f"damaged{di}:{consumer}", k, outcome, got, live))
            for x in live:
                if fails:
                    violations.append(Violation("temp.directory-left-behind",
                                                f"7z whose unpacking fails (fixture with {n} bytes flipped at offset {lo}): {live} left in the temp root",
                                                {"kind": "temp", "damaged": [lo, n]}))
                shutil.rmtree(os.path.join(wd.tmp, x), ignore_errors=True)
        os.unlink(bp)
    outs = ctx.drive(reqs)
    for (consumer, k, outcome, got, live), mo in zip(reals, outs):
        ctx.case(("temp", consumer, k))
        ctx.count("temp/" + consumer)
        if live:
            violations.append(Violation("temp.directory-left-behind", f"7z generator, consumer {consumer} after {k}: {live} left in the temp root",
                                        {"kind": "temp", "consumer": consumer, "k": k}))
        if (outcome, got, live) != (mo["outcome"], mo["yielded"], [str(x) for x in mo["live"]]):
            broken.append(Broken("correspondence", "c15.temp", f"{consumer}/{k}: real ({outcome},{got},{live}) model ({mo['outcome']},{mo['yielded']},{mo['live']})",
                                 case={"consumer": consumer, "k": k}))
    return broken, violations


# =============================================================================================
#  entry points
# =============================================================================================
_STATE = {}


def _setup(ctx):
    if "wd" in _STATE:
        return _STATE
    import atexit
    wd = Workdir()
    atexit.register(wd.close)
    aes_state = AesState()
    pdfs = build_pdfs(wd, aes_state)
    _STATE.update(wd=wd, aes_state=aes_state, pdfs=pdfs)
    return _STATE


def _baseline(ctx, st):
    """isolated digests of the corpus; must run before anything is extracted in this process"""
    if "baseline" in st:
        return
    wd, pdfs = st["wd"], st["pdfs"]
    docs = corpus(ctx, wd, pdfs)
    t0 = time.time()
    _preimport()
    baseline = {n: isolated_digest(p) for n, p in docs}
    again = {n: isolated_digest(p) for n, p in docs}
    unstable = sorted(n for n in baseline if baseline[n] != again[n])
    if unstable:   # not deterministic even alone in a fresh process: nothing C15 can be checked against
        ctx.notes.append(f"excluded (two isolated extractions differ): {unstable}")
        docs = [(n, p) for n, p in docs if n not in unstable]
        baseline = {n: d for n, d in baseline.items() if n not in unstable}
    st["docs"], st["baseline"] = docs, baseline
    by_name = dict(docs)
    st["fresh_sequences"] = [(seq,) + check_fresh_sequence(by_name, seq, baseline) for seq in paired_sequences([n for n, _ in docs])]
    t1 = time.time()
    st["family_sequences"] = S.run_family_sequences(by_name, _FAMILIES, baseline, _digest_results)
    ctx.coverage["family_sequences_s"] = round(time.time() - t1, 2)
    t1 = time.time()
    st["suspended"] = run_suspended_oracle(ctx, st)
    ctx.coverage["suspended_generators_run_s"] = round(time.time() - t1, 2)
    ctx.coverage["baseline_docs"] = len(docs)
    ctx.coverage["baseline_failing_docs"] = sum(1 for d in baseline.values() if d.startswith("ERR"))
    ctx.coverage["baseline_s"] = round(time.time() - t0, 2)
    crashed = [n for n, d in baseline.items() if d.startswith("CHILD")]
    if crashed:
        raise Infra(f"isolated baseline child failed for {crashed[:3]}")


def oracle_inner_variants(ctx, st):
    """base document, source-directed variant of it (a part that ends inside a removed element / is written in a vocabulary
    the source knows / breaks off), base document again — on one thread; the third result must equal the first (and the
    isolated one) and the global snapshot must be unchanged"""
    wd = st["wd"]
    snap = GlobalSnapshot(wd)
    guard = G.SettingsGuard()
    try:
        return I.run(ctx, REPO, RES, os.path.join(wd.docs, "inner"), extract_digest, snap.take, snap.diff, st["baseline"], Violation,
                     budget_s=ctx.n(6, 60), check_fresh=_check_fresh_fixtures, isolated=isolated_digest, bisect=bisect_variants_pristine)
    finally:
        guard.restore()


_PRISTINE_SCRIPT = r"""
import sys, json
sys.path[:0] = [HARNESS, PROPS]
import c15
print("DIGESTS " + json.dumps([c15.extract_digest(p) for p in PATHS]))
"""


def pristine_sequence(paths, timeout=120):
    """digests of the documents extracted one after the other by a NEW interpreter (a forked child of this process would inherit
    whatever this process has extracted so far); hard timeout"""
    import subprocess
    here = os.path.dirname(os.path.abspath(__file__))
    code = (_PRISTINE_SCRIPT.replace("HARNESS", repr(os.path.dirname(here))).replace("PROPS", repr(here)).replace("PATHS", repr(list(paths))))
    env = dict(os.environ, S2T_REPO=REPO, PYTHONPATH=REPO + os.pathsep + os.environ.get("PYTHONPATH", ""))
    try:
        r = subprocess.run([sys.executable, "-c", code], capture_output=True, text=True, timeout=timeout, env=env, cwd=REPO)
    except subprocess.TimeoutExpired:
        return ["CHILD-TIMEOUT"] * len(paths)
    for line in r.stdout.splitlines():
        if line.startswith("DIGESTS "):
            return json.loads(line[8:])
    raise Infra(f"pristine interpreter failed: {r.stderr[-400:]}")


_BISECT_SCRIPT = r"""
import sys, json, os, tempfile
sys.path[:0] = [HARNESS, PROPS]
import c15, c15_inner as I
name, path, specs, keys = ARGS
data = open(path, "rb").read()
out = tempfile.mkdtemp(prefix="s2t_c15_bisect_")
def cells():
    r = {}
    for k in keys:
        m, _, a = k[4:].rpartition(".")
        r[k] = c15._plain_repr(getattr(sys.modules.get(m), a, None))
    return r
c15.extract_digest(path)
before = cells()
hit = None
for i, spec in enumerate(specs):
    c15.extract_digest(I.variant_path(out, name, data, spec))
    now = cells()
    if now != before:
        hit = [i, {k: [before[k][:120], now[k][:120]] for k in keys if now[k] != before[k]}]
        break
import shutil; shutil.rmtree(out, ignore_errors=True)
print("BISECT " + json.dumps(hit))
"""


def bisect_variants_pristine(name, path, specs, keys, timeout=150):
    """which variant changes the module cells `keys` (mod:<module>.<attr>)?  Decided in a NEW interpreter (this process is already
    changed and a permanent change does not happen twice): (index, {cell: (before, after)}) or None"""
    import subprocess
    keys = [k for k in keys if k.startswith("mod:")]
    if not keys:
        return None
    here = os.path.dirname(os.path.abspath(__file__))
    code = (_BISECT_SCRIPT.replace("HARNESS", repr(os.path.dirname(here))).replace("PROPS", repr(here))
            .replace("ARGS", repr((name, path, [list(x) for x in specs], keys))))
    env = dict(os.environ, S2T_REPO=REPO, PYTHONPATH=REPO + os.pathsep + os.environ.get("PYTHONPATH", ""))
    try:
        r = subprocess.run([sys.executable, "-c", code], capture_output=True, text=True, timeout=timeout, env=env, cwd=REPO)
    except subprocess.TimeoutExpired:
        return None
    for line in r.stdout.splitlines():
        if line.startswith("BISECT "):
            return json.loads(line[7:])
    return None


def _check_fresh_fixtures(seq):
    by = {n: os.path.join(RES, n) for n in seq}
    missing = [n for n in seq if not os.path.exists(by[n])]
    if missing:
        return True, f"fixtures {missing} are gone"
    got = pristine_sequence([by[n] for n in seq])
    alone = {n: pristine_sequence([by[n]])[0] for n in sorted(set(seq))}
    for i, (n, d) in enumerate(zip(seq, got)):
        if d != alone[n]:
            return False, (f"a new interpreter that extracts {seq[:i + 1]} in this order gets digest {d} for {n}; "
                           f"a new interpreter that extracts {n} alone gets {alone[n]}")
    return True, "every document of the sequence has the digest it has alone in a new interpreter"


def replay_inner_variant(ctx, st, rp):
    if rp["kind"] == "fixture-sequence-fresh":
        return _check_fresh_fixtures(rp["seq"])
    wd = st["wd"]
    path = os.path.join(RES, rp["base"])
    if not os.path.exists(path):
        return True, f"fixture {rp['base']} is gone"
    snap = GlobalSnapshot(wd)
    extract_digest(path)          # warm-up: lazily imported modules are not state changes
    return I.check_one(os.path.join(wd.docs, "inner-replay"), rp["base"], path, list(rp["spec"]), extract_digest, snap.take, snap.diff,
                       isolated_digest(path))


def model_free_oracles(ctx, st):
    """the property statement on the real code, no Lean model involved: line-granularity interleavings of
    two real sections, cache transparency, sequences and thread workloads against the isolated baseline"""
    wd, aes_state = st["wd"], st["aes_state"]
    violations = []
    old_tmp = tempfile.tempdir
    tempfile.tempdir = wd.tmp
    try:
        _baseline(ctx, st)
        if "chains" not in st and not st.get("oracles_ran"):
            orders, cdocs, labels, firsts = _chain_inputs(ctx, wd)
            st["chains"] = (orders, G.start_import_chains(REPO, orders, cdocs, labels, firsts))
        def lines_budget():
            # quick tier: the exhaustive 'A runs i steps, B runs j steps' sweep needs ~10 s on an idle machine; it runs last
            # and gets what is left of the 60 s of the tier (at least 6 s) — on a loaded machine it stops early and says so
            return 90 if ctx.thorough else max(6.0, min(18.0, 50.0 - (time.time() - ctx.t0)))
        parts = [("oracle:line-granularity _get_round_keys", lambda: oracle_lru_lines(ctx, ctx.n(4, 60))),
                 ("oracle:fresh-process sequences", lambda: oracle_fresh_sequences(ctx, st)),
                 ("oracle:inner variants", lambda: oracle_inner_variants(ctx, st)),
                 ("oracle:lru_cache sites", lambda: corr_lru_decorated(ctx)),
                 ("oracle:template families", lambda: oracle_families(ctx, st)),
                 ("oracle:suspended generators", lambda: oracle_suspended(ctx, st)),
                 ("oracle:cached callables", lambda: oracle_cached_callables(ctx, st)),
                 ("oracle:early exit", lambda: oracle_early_exit(ctx, st)),
                 ("oracle:gated documents", lambda: oracle_gated_docs(ctx, st, ctx.n(6, 60))),
                 ("oracle:sequences and threads", lambda: seq_oracle(ctx, wd, st["docs"], st["baseline"], aes_state, st)),
                 ("oracle:import histories", lambda: oracle_import_histories(ctx, st)),
                 ("oracle:setting sections", lambda: oracle_setting_sections(ctx, st, ctx.n(25, 120))),
                 ("oracle:line-granularity sections", lambda: oracle_lines(ctx, lines_budget()))]
        for name, part in parts:
            t1 = time.time()
            v, b = guarded(name, part)
            ctx.coverage[name.split(":", 1)[1].replace(" ", "_") + "_s"] = round(time.time() - t1, 2)
            violations += v or []
            if any(x.key.startswith(("settings.", "imports.", "history.")) for x in (v or [])):
                st["global_violations"] = True
            if b is not None:
                st.setdefault("oracle_broken", []).append(b)
        st["oracles_ran"] = True
    finally:
        tempfile.tempdir = old_tmp
    return violations


def correspondence(ctx):
    broken, violations = [], []
    st = _setup(ctx)
    wd, aes_state, pdfs = st["wd"], st["aes_state"], st["pdfs"]
    if not aes_state.was_pristine:
        ctx.notes.append("pypdf's fallback provider was already patched when the harness started")
    old_tmp = tempfile.tempdir
    tempfile.tempdir = wd.tmp
    try:
        _baseline(ctx, st)          # first: nothing has been extracted in this process yet
        # one pristine interpreter answers all single-call references (round keys and font analyses) of this run
        st["font_cases"] = _font_histories(ctx, ctx.n(40, 500))
        _alone([("key", k) for k in _keys_pool()[0]] + [("font", f, tuple(g)) for calls in st["font_cases"] for f, g in calls]
               + [("font", f, ()) for f in _fonts()])
        t1 = time.time()
        res, b = guarded("c15.patch_run", corr_patch, ctx)
        broken += (res or []) + ([b] if b else [])
        ctx.coverage["patch_s"] = round(time.time() - t1, 2)
        t1 = time.time()
        for name, part in (("c15.lru", lambda: corr_lru(ctx)), ("c15.lru_conc", lambda: corr_lru_conc(ctx)), ("c15.font", lambda: corr_font(ctx)),
                           ("c15.aes", lambda: corr_aes(ctx, pdfs, aes_state)), ("c15.temp", lambda: corr_temp(ctx, wd))):
            t2 = time.time()
            res, b = guarded(name, part)
            ctx.coverage[name.replace(".", "_") + "_s"] = round(time.time() - t2, 2)
            if b is not None:
                broken.append(b)
            else:
                broken += res[0]
                violations += res[1]
        ctx.coverage["caches_aes_temp_s"] = round(time.time() - t1, 2)
        ctx.sample({"baseline": dict(list(st["baseline"].items())[:4])})
    finally:
        tempfile.tempdir = old_tmp
        aes_state.reset()
    violations += model_free_oracles(ctx, st)
    broken += st.pop("oracle_broken", [])
    return {"broken": broken, "violations": violations}


def known_witnesses(ctx):
    """open finding: the AES provider patch is not undone (one-way by design)"""
    st = _setup(ctx)
    aes_state, pdfs = st["aes_state"], st["pdfs"]
    out = []
    aes_state.reset()
    extract_kind(pdfs["rc4"]["path"])
    if aes_state.patched():
        cells = aes_state.changed_cells()
        out.append(Violation("aes.provider-patch-not-restored",
                             f"after extracting one RC4-encrypted PDF (empty password) from a pristine provider, {len(cells)} pypdf attributes stay replaced "
                             f"({', '.join(cells[:3])}, ...): patch_pypdf_fallback_aes is one-way",
                             {"kind": "aes-state", "doc": "rc4"}))
    else:
        ctx.notes.append("known finding aes.provider-patch-not-restored: the witness no longer fails (provider untouched after an RC4 PDF)")
    aes_state.reset()
    return out


def search(ctx, broken):
    """decide on the real code against the property statement, seeded with what broke"""
    st = _setup(ctx)
    aes_state, pdfs = st["aes_state"], st["pdfs"]
    found = []
    names = " ".join(b.name + " " + b.detail[:200] for b in broken).lower()
    only_corr = all(b.kind == "correspondence" for b in broken)

    def relevant(*words):   # a theorem / inventory / build break may come from anywhere: search everything
        return (not only_corr) or any(w in names for w in words)

    # 0. the model-independent oracles of correspondence() if it could not run (driver not built)
    if not st.get("oracles_ran"):
        found += model_free_oracles(ctx, st)
    # a setter of an interpreter-global setting / a registry extension appeared in the inventory and the always-on oracles of the
    # statement already produced the concrete failing schedule / import history for it: that IS the failing input
    if st.get("global_violations") and all(b.kind == "theorem" and "inventory_" in b.name or b.kind == "correspondence" and b.name.startswith("oracle:")
                                           for b in broken):
        return found
    # 0b. the round-key cache under concurrent use, model-free: every region-granularity interleaving of two threads over
    #     all kinds of key pairs, then line granularity (cheap, always)
    if not any(v.key == "cache.round-keys-depend-on-concurrent-use" for v in found):
        found += search_lru_conc(ctx, budget_s=ctx.n(25, 120))
    # 1. font cache histories (cheap, always)
    hist = [[(0, [0]), (0, [1, 2])], [(1, [5]), (1, [0, 1])], [(0, []), (0, [0, 1, 2, 3])], [(2, [1]), (2, [2])]] + _font_histories(ctx, 40)
    font_alone([c for calls in hist for c in calls])
    for calls in hist:
        ok, what = check_font_history(calls)
        ctx.case(("oracle-font", tuple((f, tuple(g)) for f, g in calls)))
        if not ok:
            found.append(Violation("cache.font-features-depend-on-history", what, {"kind": "font", "calls": [[f, g] for f, g in calls]}))
            break
    # 2. interleavings of the real sections
    if relevant("patch", "section", "interleav") and not (found and only_corr):
        found += search_interleavings(ctx, budget_s=ctx.n(40, 300))
    # 3. AES: outcome must not depend on what was opened before (each AES-256 extraction costs ~6 s)
    if relevant("aes") and (not found or "aes" in names):
        for seq in [["rc4", "aesV4"], ["aesV5", "aesV4"], ["aesV4-locked", "aesV4"], ["plain", "aesV4", "aesV5", "aesV4"], ["aesV5-locked", "aesV5", "aesV4"]]:
            ok, what = check_aes_history(pdfs, aes_state, seq)
            ctx.case(("oracle-aes", tuple(seq)))
            if not ok:
                found.append(Violation("aes.result-depends-on-history", what, {"kind": "aes", "seq": seq}))
                break
    # 4. round-key cache with the failing histories of the correspondence
    for b in broken:
        if b.name == "c15.lru" and b.case:
            ok, what = check_lru_history(b.case["keys"])
            if not ok:
                found.append(Violation("cache.round-keys-not-transparent", what, {"kind": "lru", "keys": b.case["keys"]}))
    return found


def search_lru_conc(ctx, budget_s):
    t0 = time.time()
    configs = [([], [0, 0]), ([1], [0, 0]), ([1], [0, 2]), ([0], [0, 1]), ([0, 1], [0, 1]), ([0], [0, 0]), ([1], [7, 0]), ([], [7, 7]),
               ([1, 2, 3, 4], [0, 0]), ([1, 2, 3, 4], [0, 5]), ([1, 2, 3, 4], [1, 0]), ([0, 1, 2, 3, 4], [0, 0]), ([0, 1], [1, 0]), ([0, 1], [0, 0])]
    for pre, keys in configs:
        for sched in _interleavings([3, 3]):
            r = run_lru_conc(pre, keys, sched)
            ctx.case(("oracle-lru-conc", tuple(pre), tuple(keys), tuple(sched)))
            if r["problems"]:
                return [_lru_conc_violation(pre, keys, sched, False, r)]
        if time.time() - t0 > budget_s:
            return []
    for pre, keys, sched in lru_line_schedules(ctx, 14, True):
        r = run_lru_conc(pre, keys, sched, lines=True)
        ctx.case(("oracle-lru-lines", tuple(pre), repr(keys), tuple(sched)))
        if r["problems"]:
            return [_lru_conc_violation(pre, keys, sched, True, r)]
        if time.time() - t0 > budget_s:
            break
    return []


def check_lru_history(keys):
    aes = importlib.import_module("sharepoint2text.parsing.extractors.pdf._pypdf_aes_fallback")
    pool, bad = _keys_pool()
    saved = list(aes._ROUND_KEY_CACHE.items())
    aes._ROUND_KEY_CACHE.clear()
    try:
        alone = keys_alone()
        for i, kid in enumerate(keys):
            key = pool[kid]
            got = _norm_rk(lib_call(aes._get_round_keys, key))
            if got != alone[kid]:
                return False, (f"_get_round_keys(bytes.fromhex('{key.hex()}')) [key #{kid}] after the history of keys {keys[:i]} gives "
                               f"{_show_rk(got)}, alone in a fresh process {_show_rk(alone[kid])}")
        return True, "every call equals its isolated result"
    finally:
        aes._ROUND_KEY_CACHE.clear()
        aes._ROUND_KEY_CACHE.update(saved)


def replay(ctx, payload):
    """an exception out of the library during a replay is a failing replay, not a crash"""
    try:
        return _replay(ctx, payload)
    except Infra:
        raise
    except Exception as e:  # noqa: BLE001
        if not _from_library(e.__traceback__):
            raise
        return False, f"the library raised {type(e).__name__}: {e}"


def _replay(ctx, payload):
    rp = payload.get("replay", payload)
    kind = rp.get("kind")
    st = _setup(ctx)
    if kind == "lru-conc":
        r = run_lru_conc(rp["pre"], rp["keys"], rp["schedule"], lines=rp.get("lines", False))
        return (not r["problems"]), ("; ".join(r["problems"][:3]) or f"every thread got the single-threaded key schedule (results {[[o[0] for o in rs] for rs in r['results']]})")
    if kind in ("sequence-fresh", "gated"):
        wd = st["wd"]
        old_tmp = tempfile.tempdir
        tempfile.tempdir = wd.tmp
        try:
            by = {"gen/" + os.path.basename(d["path"]): d["path"] for d in st["pdfs"].values()}
            if kind == "sequence-fresh":
                return check_fresh_sequence(by, rp["seq"])
            base = {n: isolated_digest(by[n]) for n in {rp["a"], rp["b"]}}
            ok, what, hit = check_gated(by, base, tuple(rp["gate"]), rp["a"], rp["b"], rp["where"])
            return ok, what
        finally:
            tempfile.tempdir = old_tmp
    if kind in ("family-sequence", "suspended", "cached-callable"):
        wd = st["wd"]
        old_tmp = tempfile.tempdir
        tempfile.tempdir = wd.tmp
        try:
            if kind == "suspended":
                return replay_suspended(ctx, st, rp)
            by = dict(corpus(ctx, wd, st["pdfs"]))
            names = rp["seq"] if kind == "family-sequence" else rp["docs"]
            missing = [n for n in names if n not in by]
            if missing:
                return True, f"documents {missing} are generated per seed; re-run with the recorded VERIF_SEED"
            if kind == "family-sequence":
                ok, what, _key = S.check_family_sequence(by, rp["seq"], None, _digest_results, isolated_digest)
                return ok, what
            _rec, found = check_cached_pass(by, names)
            hit = [w for _k, w, site, _d in found if list(site) == rp["site"]]
            return (not hit), (hit[0] if hit else f"every value handed out by {'.'.join(rp['site'])} is unmodified and equals the uncached result")
        finally:
            tempfile.tempdir = old_tmp
    if kind in ("inner-variant", "fixture-sequence-fresh"):
        old_tmp = tempfile.tempdir
        tempfile.tempdir = st["wd"].tmp
        try:
            return replay_inner_variant(ctx, st, rp)
        finally:
            tempfile.tempdir = old_tmp
    if kind in ("import-history", "setting-section"):
        wd = st["wd"]
        old_tmp = tempfile.tempdir
        tempfile.tempdir = wd.tmp
        try:
            return replay_import_history(ctx, st, rp) if kind == "import-history" else replay_setting_section(ctx, st, rp)
        finally:
            tempfile.tempdir = old_tmp
    if kind == "interleaving":
        ok, what, res = check_interleaving(rp["k"], rp["schedule"], rp.get("raises"), phase=rp.get("phase", False),
                                           lines=rp.get("lines", False))
        return ok, (what or f"restored, depths seen {res['seen']}")
    if kind == "font":
        return check_font_history([(f, g) for f, g in rp["calls"]])
    if kind == "aes":
        return check_aes_history(st["pdfs"], st["aes_state"], rp["seq"])
    if kind == "aes-state":
        st["aes_state"].reset()
        extract_kind(st["pdfs"][rp["doc"]]["path"])
        p = st["aes_state"].patched()
        st["aes_state"].reset()
        return (not p), ("provider untouched" if not p else "pypdf fallback provider stays patched")
    if kind == "lru":
        return check_lru_history(rp["keys"])
    if kind in ("sequence", "threads", "temp", "early-exit", "lru-deco", "registry"):
        wd = st["wd"]
        old_tmp = tempfile.tempdir
        tempfile.tempdir = wd.tmp
        try:
            docs = corpus(ctx, wd, st["pdfs"])
            by = dict(docs)
            if kind == "sequence":
                seq = rp["seq"]
                missing = [n for n in seq if n not in by]
                if missing:
                    return True, f"documents {missing} are generated per seed; re-run with the recorded VERIF_SEED"
                base = {n: isolated_digest(by[n]) for n in set(seq)}
                snap = GlobalSnapshot(wd)
                for n in seq:
                    extract_digest(by[n])
                s0 = snap.take()
                for i, n in enumerate(seq):
                    d = extract_digest(by[n])
                    if d != base[n]:
                        return False, f"{n} after {seq[:i]}: {d} vs isolated {base[n]}"
                df = snap.diff(s0, snap.take())
                return (not df), (f"global state differs: {df}" if df else "digests equal the isolated ones, global state restored")
            if kind == "threads":
                work = rp["work"]
                base = {n: isolated_digest(by[n]) for w in work for n in w if n in by}
                snap = GlobalSnapshot(wd)
                for w in work:          # warm-up as in the run: lazily imported modules are not state changes
                    for n in w:
                        if n in by:
                            extract_digest(by[n])
                s0 = snap.take()
                for attempt in range(20):
                    res = [[] for _ in work]

                    def run(i):
                        for n in work[i]:
                            if n in by:
                                res[i].append((n, extract_digest(by[n])))
                    ths = [threading.Thread(target=run, args=(i,)) for i in range(len(work))]
                    old = sys.getswitchinterval()
                    sys.setswitchinterval(1e-6)
                    for th in ths:
                        th.start()
                    for th in ths:
                        th.join(300)
                    sys.setswitchinterval(old)
                    bad = [(n, d) for r in res for n, d in r if d != base[n]]
                    if bad:
                        return False, f"{bad[0][0]}: {bad[0][1]} vs isolated {base[bad[0][0]]} (attempt {attempt})"
                    df = snap.diff(s0, snap.take())
                    if df:
                        return False, "after the concurrent workload process-global state differs: " + "; ".join(f"{k}: {v[0]} -> {v[1]}" for k, v in sorted(df.items())[:6])
                return True, "20 attempts: all digests equal the isolated ones, global state restored"
            if kind == "early-exit":
                st["docs"] = [(n, p) for n, p in docs if n == rp["doc"]]
                v = oracle_early_exit(ctx, st)
                return (not v), (v[0].what if v else "nothing left behind")
            if kind == "temp":
                b, v = corr_temp(ctx, wd)
                return (not v), (v[0].what if v else "temp root empty after every consumer")
        finally:
            tempfile.tempdir = old_tmp
        return True, "nothing to replay"
    return True, f"unknown replay kind {kind!r}"
