"""C04: values as the FILE spells them, converted when the caller asks (lazy conversions inside accessors).

A picture frame's `svg:width` / `svg:height` (ODF), an `<img width=..>` (HTML / EPUB) or an extent `cx` / `cy` (OOXML)
is a string the file chooses.  The language generated here is the lexical space of such a value:

    [white space] digits [ . digits ] [white space] [unit] [white space] [junk]

with digits in ASCII / other Unicode decimal digits / hundreds of digits / leading zeros, the fraction complete /
dangling, the unit one the library converts (any letter case), a well-formed unit it does NOT convert (em, ex, q,
rem, vh ...), a non-alphabetic one (%, µm), none at all, white space from the whole of `\\s`, and junk.

* correspondence (op `c04.length`): the Lean scanner + unit dispatch against `_ODF_LENGTH_RE` / `_odf_length_to_px` /
  `OpenDocumentImage.get_metadata()` on every generated string (what the expression captures, None / int / raises,
  what get_metadata reports);
* the same strings are planted into generated documents (c04_docs: `w` / `h` of a picture placement) and judged by
  the property oracle on the results of the real extractors.
"""
from __future__ import annotations

import math

from run import Broken

KNOWN_UNITS = ["px", "in", "cm", "mm", "pt", "pc"]
UNKNOWN_UNITS = ["em", "ex", "q", "Q", "rem", "vh", "vw", "ch", "EM", "x", "cmm", "inch", "pica", "u", "twip", "emu", "dp", "sp", "ı", "K"]
NON_ALPHA_UNITS = ["%", "µm", "c-m", "c m", "cm.", "″", "'", "cm²", "p​x"]
SPACES = ["", "", "", " ", "  ", "\t", "\n", " ", "　", " ", "​", "\x1f", "\x85"]
DIGITS = ["2", "17", "0", "007", "100000", "٣", "１２", "९", "𝟐", "9" * 400, "1" + "0" * 307, "1" + "0" * 308, "4" * 40, "1" + "0" * 305]
FRACS = ["", "", "", "", "", "", "", ".5", ".54", ".", ".٣", "." + "9" * 350, ".0", ",5", "e3", "E+2"]

# the systematic part: every lexical class once (also placed into generated documents, see c04_docs.value_specs)
LENGTH_FORMS = [
    "2cm", "1in", "10.5mm", "12pt", "3pc", "40px", "17", "2.54CM", " 2 cm ", "2 Cm", "0cm", "0.001mm", "0.4px", "0.5px", "0.51px",
    "12em", "3.5em", "3ex", "40q", "1rem", "50vh", "2EM", "7x", "2inch",
    "50%", "3µm", "2 c m", "2cm;", "cm", "", " ", "-1cm", "+1cm", ".5cm", "5.cm", "1e3cm", "1,5cm", "NaN", "inf", "auto", "0x10px", "1_0px",
    "٣cm", "１２pt", "𝟐in", "٣.٥mm", "2cm\n", "\t2cm", "2　cm", "2​cm", "2ıN",
    "9" * 400, "9" * 400 + "cm", "9" * 400 + "em", "1" + "0" * 307 + "in", "1" + "0" * 307 + "cm", "1" + "0" * 308 + "mm", "1" + "0" * 306 + "pc",
    "1." + "9" * 400 + "pt", "0." + "0" * 400 + "1cm",
]


def random_length(rng):
    r = rng.random()
    if r < 0.08:
        return rng.choice(LENGTH_FORMS)
    unit = rng.choice([rng.choice(KNOWN_UNITS)] * 3 + [rng.choice(UNKNOWN_UNITS)] * 3 + [rng.choice(NON_ALPHA_UNITS), ""])
    if rng.random() < 0.3:
        unit = "".join(ch.upper() if rng.random() < 0.5 else ch for ch in unit)
    s = rng.choice(SPACES) + rng.choice(DIGITS) + rng.choice(FRACS) + rng.choice(SPACES) + unit + rng.choice(SPACES)
    if rng.random() < 0.07:
        s += rng.choice([";", "x", "1", "\x00", "!"])
    if rng.random() < 0.05:
        s = rng.choice(["-", "+", ".", "x"]) + s
    return s


def xml_safe(s):
    """can the string be an attribute value of a well-formed XML 1.0 document"""
    return all(ch in "\t\n\r" or (ord(ch) >= 0x20 and ord(ch) not in (0xFFFE, 0xFFFF) and not 0xD800 <= ord(ch) <= 0xDFFF) for ch in s)


def _real(s):
    """what the implementation does with the stored string: (expression groups, function outcome, get_metadata outcome)"""
    from sharepoint2text.parsing.extractors import data_types as dt
    m = dt._ODF_LENGTH_RE.match(s) if s is not None else None
    groups = None if not m else {"int": m.group(1).split(".")[0], "frac": (m.group(1).split(".", 1)[1] if "." in m.group(1) else None),
                                 "unit": (m.group(2) or "px").lower()}
    try:
        v = dt._odf_length_to_px(s)
        fn = ("none", None) if v is None else (("int", v) if isinstance(v, int) and not isinstance(v, bool) else ("other:" + type(v).__name__, None))
    except Exception as e:  # noqa: BLE001
        fn = ("raise", type(e).__name__)
    try:
        md = dt.OpenDocumentImage(width=s, height="2cm", image_index=1).get_metadata()
        rep = ("ok", md.width)
    except Exception as e:  # noqa: BLE001
        rep = ("raise", type(e).__name__)
    return groups, fn, rep


def _finite(groups):
    """is the scaled float value finite (float arithmetic of the running interpreter = the model's host)"""
    if not groups:
        return True
    try:
        v = float(groups["int"] + ("." + groups["frac"] if groups["frac"] is not None else ""))
    except (ValueError, OverflowError):
        return True
    return math.isfinite(v * 96.0)


def length_cases(ctx):
    out = [None] + list(LENGTH_FORMS)
    for _ in range(ctx.n(400, 20000)):
        out.append(random_length(ctx.rng))
    return list(dict.fromkeys(out))


def check_lengths(ctx, broken):
    cases = length_cases(ctx)
    # first pass: what the model's scanner captures (the host's finiteness needs the digits)
    first = ctx.drive([{"op": "c04.length", "s": s, "finite": True, "px": 1} for s in cases])
    reqs = []
    reals = []
    for s, a in zip(cases, first):
        groups, fn, rep = _real(s)
        reals.append((groups, fn, rep))
        reqs.append({"op": "c04.length", "s": s, "finite": _finite(a.get("groups")), "px": fn[1] if fn[0] == "int" else 1})
    second = ctx.drive(reqs)
    n_bad = 0
    for s, a, (groups, fn, rep) in zip(cases, second, reals):
        kind = ("absent" if s is None else "rejected" if a.get("groups") is None else
                "unit-" + ("converted" if a["r"] == "int" else "not-converted" if a["groups"]["unit"].isascii() else "other"))
        if s is not None and len(s) > 300:
            kind += "/hundreds-of-digits"
        ctx.count("lengths/" + kind)
        ctx.case(("length", s), nontrivial=s is not None and a.get("groups") is not None)
        diffs = []
        if "drv_error" in a:
            diffs.append("driver: " + a["drv_error"])
        else:
            if a.get("groups") != groups:
                diffs.append(f"expression captures {groups!r}, model {a.get('groups')!r}")
            mr = a["r"] if a["r"] != "raise" else "raise"
            if mr != fn[0]:
                diffs.append(f"_odf_length_to_px gives {fn[0]}{'' if fn[1] is None else ' ' + str(fn[1])[:40]}, model {a['r']}{' ' + a.get('exc', '') if a['r'] == 'raise' else ''}")
            if a["r"] != "raise":
                want = ("ok", a.get("reported"))
                if rep != want:
                    diffs.append(f"get_metadata().width: {rep!r}, model {want!r}")
            elif rep[0] != "raise":
                diffs.append(f"get_metadata() returns {rep!r}, model raises")
        if diffs and n_bad < 5:
            n_bad += 1
            shown = s if s is None or len(s) < 60 else s[:20] + f"…({len(s)} chars)…" + s[-10:]
            broken.append(Broken("correspondence", "c04.length", f"length {shown!r}: " + "; ".join(diffs), case={"component": "length", "s": s}))
    ctx.sample({"component": "length", "s": "2.5 CM", "model": second[0] if second else None})


def doc_spec_for(s, fmt="odg"):
    """the smallest generated document that carries the string as width and height of a picture frame"""
    return {"fmt": fmt, "parts": 1, "meta": {"title": "t"}, "units": [
        {"text": "x", "title": "T", "pics": [{"part": 0, "name": "a", "title": None, "desc": None, "w": s, "h": "1cm"},
                                             {"part": 0, "name": "b", "title": None, "desc": None, "w": "2cm", "h": s}]}]}
