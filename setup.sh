#!/bin/bash
# Build the framework offline from files on disk: regenerate S2T/Gen from /repo, build every
# property module and the model driver.
set -e
cd "$(dirname "$0")"
PYTHONPATH=/repo /venv/bin/python tools/translate.py
python3 tools/gen_driver.py
cd lean
lake build S2T s2t_driver
