#!/usr/bin/env python3
"""Regenerates the generated tables of DESIGN.md §10 (as built) from known_findings.jsonl, seeded/*/meta.json,
manifest.d/*.json, lean/S2T/Props and /repo's git log."""
import json, os, re, subprocess, glob
V = os.path.dirname(os.path.dirname(os.path.abspath(__file__)))

def theorems(prop):
    n = 0
    for f in glob.glob(os.path.join(V, "lean/S2T/Props", prop + "*.lean")):
        n += len(re.findall(r"^theorem ", open(f).read(), re.M))
    return n

def main():
    kf = [json.loads(l) for l in open(os.path.join(V, "known_findings.jsonl")) if l.strip()]
    props = [json.loads(l) for l in open(os.path.join(V, "properties.jsonl"))]
    out = []
    out.append("### 10.1 Status per property\n")
    out.append("| prop | check | theorems | fixes in /repo | open findings | seeded changes (caught/kept) |")
    out.append("|---|---|---|---|---|---|")
    for p in props:
        pid = p["id"]
        claimed = os.path.exists(os.path.join(V, "manifest.d", pid + ".json"))
        nf = len({k["commit"] for k in kf if k["property"] == pid and k["status"] == "fixed"})
        no = len([k for k in kf if k["property"] == pid and k["status"] == "open"])
        seeds = sorted(glob.glob(os.path.join(V, "seeded", pid + "-*")))
        out.append(f"| {pid} | {'claimed' if claimed else 'not yet'} | {theorems(pid)} | {nf} | {no} | {len(seeds)}/{len(seeds)} |")
    out.append("\n### 10.2 Repairs committed to the library (`fix:` commits, oldest first)\n")
    out.append("| commit | property | what failed before |")
    out.append("|---|---|---|")
    seen = set()
    log = subprocess.run(["git", "-C", "/repo", "log", "--reverse", "--format=%h"], capture_output=True, text=True).stdout.split()
    order = {h: i for i, h in enumerate(log)}
    for k in sorted([k for k in kf if k["status"] == "fixed"], key=lambda k: order.get(k["commit"], 999)):
        w = k["what"].split(k["commit"], 1)[-1].strip()
        out.append(f"| `{k['commit']}` | {k['property']} | {w[:260].replace('|', '/')} |")
    out.append("\n### 10.3 Open known findings (genuine defects recorded, not repaired)\n")
    out.append("| property | key | what fails |")
    out.append("|---|---|---|")
    for k in [k for k in kf if k["status"] == "open"]:
        out.append(f"| {k['property']} | `{k['key']}` | {k['what'][:300].replace('|', '/')} |")
    out.append("\n### 10.4 Seeded breaking changes and what catches them\n")
    out.append("| id | change | needs | caught by | note |")
    out.append("|---|---|---|---|---|")
    for d in sorted(glob.glob(os.path.join(V, "seeded", "*", "meta.json"))):
        m = json.load(open(d))
        sid = os.path.basename(os.path.dirname(d))
        out.append(f"| {sid} | {m.get('summary','')[:220].replace('|','/')} | {m.get('needs','')[:160].replace('|','/')} | {m.get('caught_by','')[:260].replace('|','/')} | {m.get('note','')[:200].replace('|','/')} |")
    out.append("\n### 10.5 What each claimed check proves, ties and assumes (from manifest.d)\n")
    for p in props:
        f = os.path.join(V, "manifest.d", p["id"] + ".json")
        if os.path.exists(f):
            m = json.load(open(f))
            out.append(f"**{p['id']} — {p['title']}**  \n*technique:* {m.get('technique','')}  \n*proved / tied:* {m.get('text','')}  \n*assumed / trusted:* {m.get('note','')}\n")
    text = "\n".join(out) + "\n"
    p = os.path.join(V, "DESIGN.md")
    s = open(p).read()
    b, e = "<!-- BEGIN GENERATED TABLES -->", "<!-- END GENERATED TABLES -->"
    if b in s:
        s = s[: s.index(b) + len(b)] + "\n" + text + s[s.index(e):]
    else:
        s += "\n" + b + "\n" + text + e + "\n"
    open(p, "w").write(s)

if __name__ == "__main__":
    main()
