"""Closed-world inventory of the regular expressions of the package + pumping attack strings.

Shared by tools/gen/regexes.py (-> S2T/Gen/Regexes.lean) and harness/props/c01.py (pattern-level and
carrier-level pumping).  No dependency on the translator or the harness.

* `static_sites(repo)`  : every call `re.<fn>(...)` in the package (AST; aliases of the module and
  `from re import f` are followed).  A first argument that is a string/bytes constant is a *literal*
  site; anything else is a *dynamic* site, keyed by (file, function, source text of the expression).
* `runtime_patterns(repo)`: a fresh interpreter with `re._compile` wrapped imports every module of
  the package and then runs the fixtures routed to a module that has dynamic sites; every pattern
  compiled from package code is reported with its caller's file / line.  This resolves the dynamic
  sites (patterns built by concatenation or handed in through a variable).
* `inventory(repo)`     : the union, one entry per (file, pattern, flags).
* `tree(pattern, flags)`: the parse tree (CPython's own `re._parser`) in a small neutral form.
* `attacks(pattern, flags)`: for every unbounded repeat of the pattern, strings in which that
  repeat's body occurs n times and the text that would have to follow is cut / spoiled.
"""
from __future__ import annotations

import ast
import json
import os
import re
import subprocess
import sys

try:  # Python >= 3.11
    import re._constants as _c
    import re._parser as _p
except ImportError:  # pragma: no cover
    import sre_constants as _c
    import sre_parse as _p

RE_FUNCS = {"compile": 1, "search": 2, "match": 2, "fullmatch": 2, "findall": 2, "finditer": 2, "split": 3, "sub": 4, "subn": 4}
UNB = 16  # a repeat whose upper bound is >= UNB (or absent) counts as unbounded


def _pkg_files(repo):
    pkg = os.path.join(repo, "sharepoint2text")
    for root, dirs, files in os.walk(pkg):
        dirs[:] = sorted(d for d in dirs if d not in ("tests", "__pycache__"))
        for fn in sorted(files):
            if fn.endswith(".py"):
                yield os.path.relpath(os.path.join(root, fn), repo)


def pat_text(p) -> str:
    """one text form for str and bytes patterns"""
    return "b:" + p.decode("latin-1") if isinstance(p, (bytes, bytearray)) else "s:" + p


def text_pat(t: str):
    return t[2:].encode("latin-1") if t.startswith("b:") else t[2:]


def norm_flags(flags: int) -> int:
    return int(flags) & ~int(re.UNICODE) & ~int(getattr(re, "NOFLAG", 0))


def _eval_flags(node) -> int | None:
    if node is None:
        return 0
    try:
        v = eval(compile(ast.Expression(node), "<flags>", "eval"), {"__builtins__": {}}, {"re": re, "_re": re})  # noqa: S307
        return norm_flags(int(v))
    except Exception:
        return None


def static_sites(repo):
    out = []
    for rel in _pkg_files(repo):
        with open(os.path.join(repo, rel), encoding="utf-8") as fh:
            tree = ast.parse(fh.read(), filename=rel)
        mod_alias, fn_alias = set(), {}
        for n in ast.walk(tree):
            if isinstance(n, ast.Import):
                for a in n.names:
                    if a.name in ("re", "regex"):
                        mod_alias.add(a.asname or a.name)
            elif isinstance(n, ast.ImportFrom) and n.module in ("re", "regex"):
                for a in n.names:
                    fn_alias[a.asname or a.name] = a.name

        def visit(node, stack):
            for ch in ast.iter_child_nodes(node):
                st = stack + [ch.name] if isinstance(ch, (ast.FunctionDef, ast.AsyncFunctionDef, ast.ClassDef)) else stack
                if isinstance(ch, ast.Call):
                    f = None
                    if isinstance(ch.func, ast.Attribute) and isinstance(ch.func.value, ast.Name) and ch.func.value.id in mod_alias:
                        f = ch.func.attr
                    elif isinstance(ch.func, ast.Name) and ch.func.id in fn_alias:
                        f = fn_alias[ch.func.id]
                    if f in RE_FUNCS:
                        kw = {k.arg: k.value for k in ch.keywords}
                        a0 = ch.args[0] if ch.args else kw.get("pattern")
                        fpos = RE_FUNCS[f]
                        fl = ch.args[fpos] if len(ch.args) > fpos else kw.get("flags")
                        site = {"file": rel, "func": ".".join(st) or "<module>", "line": ch.lineno, "method": f}
                        if isinstance(a0, ast.Constant) and isinstance(a0.value, (str, bytes)):
                            flags = _eval_flags(fl)
                            site.update(kind="literal", pat=pat_text(a0.value), flags=flags if flags is not None else -1,
                                        flags_src=ast.unparse(fl) if fl is not None else "")
                        else:
                            site.update(kind="dynamic", expr=ast.unparse(a0) if a0 is not None else "?",
                                        flags_src=ast.unparse(fl) if fl is not None else "")
                        out.append(site)
                visit(ch, st)

        visit(tree, [])
    return out


_RUNTIME_SCRIPT = r"""
import sys, os, json, re, io
REPO = sys.argv[1]; files = json.loads(sys.argv[2])
sys.path.insert(0, REPO)
import logging, warnings
logging.disable(logging.CRITICAL); warnings.filterwarnings("ignore")
PKG = os.path.join(REPO, "sharepoint2text") + os.sep
seen = {}
_orig = re._compile
def _hook(pattern, flags):
    f = sys._getframe(1)
    while f is not None and f.f_code.co_filename.replace("\\", "/").endswith(("/re/__init__.py", "/re.py")):
        f = f.f_back
    if f is not None:
        fn = os.path.abspath(f.f_code.co_filename)
        if fn.startswith(PKG) and (os.sep + "tests" + os.sep) not in fn:
            p = pattern.pattern if isinstance(pattern, re.Pattern) else pattern
            fl = pattern.flags if isinstance(pattern, re.Pattern) else int(flags)
            if isinstance(p, (str, bytes)):
                t = ("b:" + p.decode("latin-1")) if isinstance(p, bytes) else "s:" + p
                if isinstance(pattern, re.Pattern) is False:
                    seen.setdefault((os.path.relpath(fn, REPO), t, int(fl) & ~int(re.UNICODE)), f.f_lineno)
    return _orig(pattern, flags)
re._compile = _hook
import importlib, pkgutil
import sharepoint2text
for m in pkgutil.walk_packages(sharepoint2text.__path__, "sharepoint2text."):
    if ".tests" in m.name:
        continue
    try:
        importlib.import_module(m.name)
    except BaseException:
        pass
import signal
class _T(BaseException): pass
def _al(s, f): raise _T()
signal.signal(signal.SIGALRM, _al)
for p in files:
    try:
        signal.alarm(20)
        for r in sharepoint2text.read_file(p):
            try:
                r.get_full_text(); list(r.iterate_units())
            except Exception:
                pass
    except BaseException:
        pass
    finally:
        signal.alarm(0)
print(json.dumps(sorted([k[0], k[1], k[2], v] for k, v in seen.items())))
"""


def runtime_patterns(repo, sites=None):
    """[(file, pat_text, flags, line)] compiled from package code while importing every module and running the
    fixtures of the modules that have dynamic sites"""
    sites = sites if sites is not None else static_sites(repo)
    dyn_files = {s["file"] for s in sites if s["kind"] == "dynamic"}
    dyn_mods = {f[:-3].replace("/", ".") for f in dyn_files}
    fixtures = []
    if dyn_mods:
        code = ("import sys, json; sys.path.insert(0, sys.argv[1]); from sharepoint2text.parsing import router; "
                "print(json.dumps({k: v[0] for k, v in router._EXTRACTOR_REGISTRY.items()})); "
                "print(json.dumps(dict(getattr(router, '_EXTENSION_ALIASES', {}))))")
        p = subprocess.run([sys.executable, "-c", code, repo], capture_output=True, text=True, timeout=120)
        lines = p.stdout.strip().splitlines()
        reg = json.loads(lines[-2]) if len(lines) >= 2 else {}
        ali = json.loads(lines[-1]) if lines else {}
        exts = {e for e, m in reg.items() if m in dyn_mods} | {a for a, e in ali.items() if reg.get(e) in dyn_mods}
        res = os.path.join(repo, "sharepoint2text", "tests", "resources")
        for root, dirs, files in os.walk(res):
            dirs.sort()
            for fn in sorted(files):
                q = os.path.join(root, fn)
                if fn.rsplit(".", 1)[-1].lower() in exts and 0 < os.path.getsize(q) <= 400_000:
                    fixtures.append(q)
    env = dict(os.environ)
    env["PYTHONPATH"] = repo
    p = subprocess.run([sys.executable, "-c", _RUNTIME_SCRIPT, repo, json.dumps(fixtures)], capture_output=True, text=True, timeout=600, env=env)
    if p.returncode != 0:
        raise RuntimeError("runtime regex capture failed: " + p.stderr[-800:])
    return [tuple(x) for x in json.loads(p.stdout.strip().splitlines()[-1])]


def inventory(repo):
    """-> (entries, dynamic_sites); entries = [{"file","pat","flags","origin"}] sorted, one per (file, pat, flags);
    origin = "ast" (literal in the source) or "run" (seen at run time only: built dynamically / passed through a variable)"""
    sites = static_sites(repo)
    ent = {}
    for s in sites:
        if s["kind"] == "literal":
            ent.setdefault((s["file"], s["pat"], s["flags"]), "ast")
    lit_by_file = {}
    for (f, ptxt, fl) in ent:
        lit_by_file.setdefault(f, set()).add(ptxt)
    for f, ptxt, fl, line in runtime_patterns(repo, sites):
        if ptxt in lit_by_file.get(f, ()):  # a literal site (flags as evaluated from the source)
            continue
        ent.setdefault((f, ptxt, norm_flags(fl)), "run")
    entries = [{"file": k[0], "pat": k[1], "flags": k[2], "origin": v} for k, v in sorted(ent.items())]
    dyn = sorted({(s["file"], s["func"], s["expr"]) for s in sites if s["kind"] == "dynamic"})
    return entries, dyn


# ----------------------------------------------------------------------------- parse tree
def _is_unb(hi) -> bool:
    return hi == _c.MAXREPEAT or hi >= UNB


def tree(pattern, flags=0):
    """neutral parse tree:
    ("eps",) | ("chr", desc, item) | ("zero", desc) | ("look", neg, behind, t) | ("cat", [t..]) | ("alt", [t..]) |
    ("rep", lo, hi|None, lazy, t) | ("atomic", t) | ("backref", n)"""
    sp = _p.parse(pattern, int(flags))

    def conv_seq(items):
        ts = [conv(op, av) for op, av in items]
        return ("cat", ts) if len(ts) != 1 else ts[0]

    def conv(op, av):
        if op in (_c.LITERAL, _c.NOT_LITERAL, _c.ANY, _c.IN, _c.CATEGORY):
            return ("chr", _desc(op, av), (op, av))
        if op is _c.BRANCH:
            return ("alt", [conv_seq(list(b)) for b in av[1]])
        if op is _c.SUBPATTERN:
            return conv_seq(list(av[3]))
        if op in (_c.MAX_REPEAT, _c.MIN_REPEAT) or op is getattr(_c, "POSSESSIVE_REPEAT", None):
            lo, hi, sub = av
            t = ("rep", int(lo), None if hi == _c.MAXREPEAT else int(hi), op is _c.MIN_REPEAT, conv_seq(list(sub)))
            return ("atomic", t) if op is getattr(_c, "POSSESSIVE_REPEAT", None) else t
        if op is getattr(_c, "ATOMIC_GROUP", None):
            return ("atomic", conv_seq(list(av)))
        if op is _c.AT:
            return ("zero", str(av))
        if op in (_c.ASSERT, _c.ASSERT_NOT):
            return ("look", op is _c.ASSERT_NOT, av[0] < 0, conv_seq(list(av[1])))
        if op is _c.GROUPREF:
            return ("backref", int(av))
        if op is _c.GROUPREF_EXISTS:
            g, yes, no = av
            return ("alt", [conv_seq(list(yes)), conv_seq(list(no)) if no else ("eps",)])
        return ("zero", "?" + str(op))

    return conv_seq(list(sp))


def _desc(op, av) -> str:
    if op is _c.LITERAL:
        return "=%x" % av
    if op is _c.NOT_LITERAL:
        return "!%x" % av
    if op is _c.ANY:
        return "."
    if op is _c.CATEGORY:
        return str(av).replace("CATEGORY_", "\\")
    parts = []
    for o, a in av:
        if o is _c.NEGATE:
            parts.append("^")
        elif o is _c.LITERAL:
            parts.append("%x" % a)
        elif o is _c.RANGE:
            parts.append("%x-%x" % a)
        elif o is _c.CATEGORY:
            parts.append(str(a).replace("CATEGORY_", "\\"))
        else:
            parts.append("?")
    return "[" + " ".join(parts) + "]"


def star_height(t) -> int:
    k = t[0]
    if k in ("eps", "chr", "zero", "backref"):
        return 0
    if k == "look":
        return star_height(t[3])
    if k in ("cat", "alt"):
        return max([star_height(x) for x in t[1]] or [0])
    if k == "rep":
        unb = t[2] is None or t[2] >= UNB
        return star_height(t[4]) + (1 if unb else 0)
    if k == "atomic":
        return star_height(t[1])
    return 0


def to_lean(t) -> str:
    from_str = lambda s: '"' + s.replace("\\", "\\\\").replace('"', '\\"') + '"'  # noqa: E731
    k = t[0]
    if k == "eps":
        return ".eps"
    if k == "chr":
        return f"(.chr {from_str(t[1])})"
    if k == "zero":
        return f"(.zero {from_str(t[1])})"
    if k == "backref":
        return f"(.backref {t[1]})"
    if k == "look":
        return f"(.look {'true' if t[1] else 'false'} {'true' if t[2] else 'false'} {to_lean(t[3])})"
    if k in ("cat", "alt"):
        xs = t[1]
        if not xs:
            return ".eps"
        out = to_lean(xs[-1])
        for x in reversed(xs[:-1]):
            out = f"(.{k} {to_lean(x)} {out})"
        return out
    if k == "rep":
        hi = "none" if t[2] is None else f"(some {t[2]})"
        return f"(.rep {t[1]} {hi} {'true' if t[3] else 'false'} {to_lean(t[4])})"
    if k == "atomic":
        return f"(.atomic {to_lean(t[1])})"
    raise ValueError(k)


# ----------------------------------------------------------------------------- sample strings / pumping
_CANDS = "xa0 \t\n-_.,;:/<>{}[]()\\\"'=Zz9!#%&*+?@^|~\x00\x7f\xe9"


def _in_set(av, ch, ignorecase=False) -> bool:
    neg = False
    hit = False
    o = ord(ch)
    alts = {o, ord(ch.lower()), ord(ch.upper())} if ignorecase and len(ch.lower()) == 1 and len(ch.upper()) == 1 else {o}
    for op, a in av:
        if op is _c.NEGATE:
            neg = True
        elif op is _c.LITERAL:
            hit = hit or a in alts
        elif op is _c.RANGE:
            hit = hit or any(a[0] <= x <= a[1] for x in alts)
        elif op is _c.CATEGORY:
            hit = hit or _in_cat(a, ch)
    return hit != neg


def _in_cat(cat, ch) -> bool:
    name = str(cat)
    neg = "NOT_" in name
    if "DIGIT" in name:
        r = ch.isdigit()
    elif "SPACE" in name:
        r = ch.isspace()
    elif "WORD" in name:
        r = ch.isalnum() or ch == "_"
    elif "LINEBREAK" in name:
        r = ch == "\n"
    else:
        r = False
    return r != neg


def _pick(item, ignorecase=False, avoid="") -> str:
    op, av = item
    if op is _c.LITERAL:
        return chr(av)
    for ch in _CANDS:
        if ch in avoid:
            continue
        if op is _c.NOT_LITERAL and ord(ch) != av and not (ignorecase and ch.lower() == chr(av).lower()):
            return ch
        if op is _c.ANY and ch != "\n":
            return ch
        if op is _c.IN and _in_set(av, ch, ignorecase):
            return ch
        if op is _c.CATEGORY and _in_cat(av, ch):
            return ch
    return "x"


def _reps(t, path=()):
    """paths of the unbounded repeats of the tree"""
    k = t[0]
    if k in ("cat", "alt"):
        for i, x in enumerate(t[1]):
            yield from _reps(x, path + (i,))
    elif k == "rep":
        if t[2] is None or t[2] >= UNB:
            yield path
        yield from _reps(t[4], path + (0,))
    elif k == "atomic":
        yield from _reps(t[1], path + (0,))
    elif k == "look":
        yield from _reps(t[3], path + (0,))


_SENT = "\ue000"


def _gen(t, target, n, path, ic):
    """a string the tree matches (heuristically): the repeat at `target` iterated n times (followed by the sentinel
    _SENT), every other repeat max(lo, 1) times (capped by hi); alternations take the branch that leads to the
    target, else the first."""
    k = t[0]
    if k == "chr":
        return _pick(t[2], ic)
    if k in ("eps", "zero", "backref", "look"):
        return ""
    if k == "cat":
        return "".join(_gen(x, target, n, path + (i,), ic) for i, x in enumerate(t[1]))
    if k == "alt":
        idx = 0
        for i in range(len(t[1])):
            if target is not None and target[: len(path) + 1] == path + (i,):
                idx = i
        return _gen(t[1][idx], target, n, path + (idx,), ic)
    if k == "rep":
        lo, hi = t[1], t[2]
        if target is not None and path == target:
            body = _gen(t[4], None, n, path + (0,), ic)
            return body * (n if hi is None else min(n, hi)) + _SENT
        cnt = max(lo, 1)
        if hi is not None:
            cnt = min(cnt, hi)
        if target is not None and target[: len(path)] == path:   # the target is inside this repeat: first iteration only
            return _gen(t[4], target, n, path + (0,), ic) + _gen(t[4], None, n, path + (0,), ic) * (cnt - 1)
        return _gen(t[4], None, n, path + (0,), ic) * cnt
    if k == "atomic":
        return _gen(t[1], target, n, path + (0,), ic)
    return ""


def attacks(pattern, flags=0, ns=(20, 24, 28, 40, 60)):
    """[(label, n, string)] — str or bytes like the pattern.  For every unbounded repeat: prefix + body*n, then
    (a) nothing (the closing delimiter and everything after it is cut), (b) a character that spoils the continuation,
    (c) the full sample match with its last character dropped / replaced."""
    is_bytes = isinstance(pattern, (bytes, bytearray))
    t = tree(pattern, flags)
    ic = bool(int(flags) & re.IGNORECASE) or (b"(?i" in pattern if is_bytes else "(?i" in pattern)
    out = []
    seen = set()
    for ti, target in enumerate(_reps(t)):
        for n in ns:
            full = _gen(t, target, n, (), ic)
            end = full.find(_SENT)
            full = full.replace(_SENT, "")
            end = end if end >= 0 else len(full)
            cands = [("cut", full[:end]), ("cut+nul", full[:end] + "\x00"), ("cut+bang", full[:end] + "!"), ("cut+nl", full[:end] + "\n"),
                     ("drop-last", full[:-1]), ("spoil-last", full[:-1] + "\x00")]
            for lab, s in cands:
                if (n, s) in seen or not s:
                    continue
                seen.add((n, s))
                if is_bytes:
                    try:
                        s = s.encode("latin-1")
                    except UnicodeEncodeError:
                        continue
                out.append((f"rep{ti}:{lab}", n, s))
    return out


if __name__ == "__main__":
    ents, dyn = inventory(os.environ.get("S2T_REPO", "/repo"))
    for e in ents:
        t = tree(text_pat(e["pat"]), e["flags"])
        print(star_height(t), e["origin"], e["file"].split("/")[-1], e["flags"], e["pat"][:100])
    print(len(ents), "entries;", len(dyn), "dynamic sites")
    for d in dyn:
        print("DYN", d)
