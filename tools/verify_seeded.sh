#!/bin/bash
# verify_seeded.sh <seeded-dir-name>...: confirm in a scratch worktree that the seeded change applies, keeps the
# library suite at the baseline (236 pass + the 3 known failures), makes demo.py exit 1, and demo.py exits 0 without it.
for S in "$@"; do
  W=/tmp/vs_$S; rm -rf $W; git -C /repo worktree add -q --detach $W HEAD || exit 2
  cd $W
  python3 /dev/null
  d0=$(timeout 300 /venv/bin/python /verif/seeded/$S/demo.py >/dev/null 2>&1; echo $?)
  git apply /verif/seeded/$S/patch.diff || { echo "$S APPLY-FAILED"; cd /; git -C /repo worktree remove --force $W; continue; }
  t=$(/venv/bin/python -m pytest -q -p no:cacheprovider --timeout=900 2>&1 | tail -1)
  f=$(/venv/bin/python -m pytest -q -p no:cacheprovider --timeout=900 2>&1 | grep '^FAILED' | sed 's/ - .*//' | sort | tr '\n' ' ')
  d1=$(timeout 300 /venv/bin/python /verif/seeded/$S/demo.py >/dev/null 2>&1; echo $?)
  echo "$S demo_clean=$d0 demo_patched=$d1 tests: $t :: $f"
  cd /; git -C /repo worktree remove --force $W
done
