#!/usr/bin/env python3
"""store_seeded.py <Prop> <n> "<caught_by>" ["<note>"] : copy /tmp/m/<Prop>/out/<n> into /verif/seeded/<Prop>-<n>/ with meta"""
import json, os, shutil, sys
P, n, caught = sys.argv[1:4]
note = sys.argv[4] if len(sys.argv) > 4 else "caught by the first version of the check"
D = os.environ.get("SEED_DIR", P); tag = os.environ.get("SEED_TAG", n); src = f"/tmp/m/{D}/out/{n}"; dst = f"/verif/seeded/{P}-{tag}"
os.makedirs(dst, exist_ok=True)
for f in ("patch.diff", "demo.py"):
    shutil.copy(os.path.join(src, f), os.path.join(dst, f))
m = json.load(open(os.path.join(src, "meta.json")))
m.update({"breaks": P, "caught_by": caught, "note": note,
          "verified": "tools/verify_seeded.sh: patch applies in a scratch worktree, library suite stays at 236 passed / same 3 failures, demo.py exits 1 with the patch and 0 without; tools/try_seeded.sh: ./check reports VIOLATION with a concrete replay with the patch applied to /repo and OK after reverting"})
json.dump(m, open(os.path.join(dst, "meta.json"), "w"), indent=1)
