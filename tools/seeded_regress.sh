#!/bin/bash
# seeded_regress.sh [names...]: in a private workspace (/tmp/w/regress: copy of /verif + worktree of /repo HEAD) apply each
# seeded change, run its property's quick check, and print one line per change. /repo and /verif are not touched.
set -u
W=/tmp/w/${REGRESS_WS:-regress}
if [ ! -d $W ]; then /verif/tools/mk_workspace.sh ${REGRESS_WS:-regress} >/dev/null; fi
rsync -a --exclude .git --exclude evidence --exclude replays --exclude __pycache__ --exclude .lake /verif/ $W/verif/
cd $W/verif
export S2T_REPO=$W/repo
git -C $W/repo checkout -q --detach $(git -C /repo rev-parse HEAD); git -C $W/repo checkout -- .
./setup.sh >/dev/null 2>&1
names=${@:-$(ls /verif/seeded)}
for S in $names; do
  P=$(python3 -c "import json,sys;print(json.load(open('/verif/seeded/$S/meta.json')).get('check') or '${S%%-*}')")
  if ! git -C $W/repo apply /verif/seeded/$S/patch.diff 2>/dev/null; then echo "$S APPLY-FAILED"; continue; fi
  out=$(timeout 1500 ./check $P 2>&1 | grep -E "^(VIOLATION|OK property|INFRA)" | head -4)
  git -C $W/repo checkout -- . ; git -C $W/repo clean -fdq
  if echo "$out" | grep -q "^VIOLATION" && echo "$out" | grep "^VIOLATION" | grep -qv "no-failing-input-found"; then v=CAUGHT
  elif echo "$out" | grep -q "^VIOLATION"; then v=NO-INPUT
  else v=MISSED; fi
  echo "$S $v :: $(echo "$out" | head -1 | cut -c1-220)"
done
