#!/bin/bash
# try_seeded.sh <Prop> : for each /tmp/m/<Prop>/out/<n>, apply to /repo, run ./check <Prop>, revert; print one line per change
D=$1; P=${1:0:3}
cd /verif
for d in /tmp/m/$D/out/*/; do
  n=$(basename $d)
  if ! git -C /repo apply $d/patch.diff 2>/dev/null; then echo "$P-$n APPLY-FAILED"; continue; fi
  out=$(timeout 1500 ./check $P 2>&1 | grep -E "^(VIOLATION|OK property|INFRA)" | head -3 | cut -c1-330)
  git -C /repo checkout -- . ; git -C /repo clean -fdq
  echo "== $D-$n :: $out"
done
out=$(./check $P 2>&1 | grep -E "^(VIOLATION|OK property|INFRA)" | head -2 | cut -c1-200); echo "== $P clean :: $out"
