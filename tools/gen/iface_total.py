"""C04: what can RAISE inside the accessors -> S2T/Gen/IfaceTotal.lean

"Calling these accessors never raises" is a statement about code that runs when the CALLER asks, long after the
extractor accepted the file: the accessor bodies of data_types and everything they call in that module (lazy
conversions of values stored as the file spelled them, e.g. `svg:width="2.5cm"` -> pixels in
OpenDocumentImage.get_metadata()).  Read from the CURRENT tree:

* the call closure of the protocol accessors inside data_types.py (by name: module functions, methods and properties
  of any class of the module);
* every PARTIAL operation in that closure -- an operation that raises for some operand: `x[k]` (KeyError / IndexError),
  `int(..)` / `float(..)` / `round(..)` (ValueError / OverflowError), `next(it)` without default, `max` / `min` without
  default, `.pop()` / `.index()` / `.remove()`, `.group()` on a match object, `/ // %` by a non-constant, codecs
  without `errors=`, `raise` / `assert` -- with the guard the SOURCE shows for it (syntactic: a test of the indexed
  container on the path to the operation or an earlier early-exit on it; a `try` catching the exception; a default
  argument; `match.group` after `if not match: return`; `float` of a regex group; an earlier
  `math.isfinite` early-exit).  An operation without a recognised guard is `unguarded`;
* for `_odf_length_to_px`: the pattern of `_ODF_LENGTH_RE`, the units that have a conversion (AST, cross-checked at
  runtime), what happens to any OTHER unit (AST: fall-through `return None` / a lookup that raises; cross-checked by
  calling the function), whether a non-finite value is excluded before `int(round(..))` (AST + call), and the code
  points `\\s` and `\\d` match (runtime, all of Unicode).
"""
from __future__ import annotations

import ast
import re

from translate import HEADER, fresh_import, generator, lean_list, lean_str, parse

DT = "sharepoint2text/parsing/extractors/data_types.py"
ACCESSORS = ["iterate_units", "iterate_images", "iterate_tables", "get_full_text", "get_metadata", "get_text", "get_images",
             "get_tables", "get_bytes", "get_content_type", "get_caption", "get_description", "get_table", "get_dim"]
CONVERT = ("int", "float", "round", "chr", "ord")
POPLIKE = ("pop", "index", "remove", "popitem")
CODEC = ("encode", "decode")


# ----------------------------------------------------------------------------- closure
def _functions(tree):
    fns = {}
    for n in tree.body:
        if isinstance(n, (ast.FunctionDef, ast.AsyncFunctionDef)):
            fns.setdefault(n.name, []).append((n.name, n))
        if isinstance(n, ast.ClassDef):
            for m in n.body:
                if isinstance(m, (ast.FunctionDef, ast.AsyncFunctionDef)):
                    fns.setdefault(m.name, []).append((n.name + "." + m.name, m))
    return fns


def _closure(fns):
    seen, work = set(), [a for a in ACCESSORS if a in fns]
    while work:
        a = work.pop()
        if a in seen:
            continue
        seen.add(a)
        for _, f in fns[a]:
            for c in ast.walk(f):
                nm = None
                if isinstance(c, ast.Call):
                    nm = c.func.id if isinstance(c.func, ast.Name) else (c.func.attr if isinstance(c.func, ast.Attribute) else None)
                elif isinstance(c, ast.Attribute):   # properties
                    nm = c.attr
                if nm in fns and nm not in seen:
                    work.append(nm)
    return sorted(seen)


# ----------------------------------------------------------------------------- guards
def _parents(fn):
    par = {}
    for n in ast.walk(fn):
        for ch in ast.iter_child_nodes(n):
            par[ch] = n
    return par


def _annotation_nodes(fn):
    out = set()
    for n in ast.walk(fn):
        anns = []
        if isinstance(n, (ast.FunctionDef, ast.AsyncFunctionDef)):
            anns.append(n.returns)
            a = n.args
            anns += [x.annotation for x in a.posonlyargs + a.args + a.kwonlyargs] + [a.vararg and a.vararg.annotation, a.kwarg and a.kwarg.annotation]
        if isinstance(n, ast.AnnAssign):
            anns.append(n.annotation)
        for an in anns:
            if an is not None:
                out.update(id(x) for x in ast.walk(an))
    return out


def _mentions(test, dump):
    return any(ast.dump(x) == dump for x in ast.walk(test))


def _exits(body):
    return bool(body) and isinstance(body[-1], (ast.Return, ast.Continue, ast.Break, ast.Raise))


def _tests_on_path(par, node):
    """tests that hold / were evaluated when control reaches `node`: enclosing if / while / conditional expression /
    comprehension filters / earlier operands of a boolean operator, and earlier `if ..: return|continue|break` of the
    enclosing statement lists"""
    tests = []
    cur = node
    while cur in par:
        p = par[cur]
        if isinstance(p, (ast.If, ast.While)) and cur is not p.test:
            tests.append(p.test)
        if isinstance(p, ast.IfExp) and cur is not p.test:
            tests.append(p.test)
        if isinstance(p, ast.BoolOp):
            i = p.values.index(cur) if cur in p.values else 0
            tests += p.values[:i]
        if isinstance(p, ast.comprehension):
            tests += [t for t in p.ifs if t is not cur]
        if isinstance(p, (ast.ListComp, ast.SetComp, ast.GeneratorExp, ast.DictComp)):
            for g in p.generators:
                tests += g.ifs
        for fld in ("body", "orelse", "finalbody"):
            seq = getattr(p, fld, None)
            if isinstance(seq, list) and cur in seq:
                for st in seq[:seq.index(cur)]:
                    if isinstance(st, ast.If) and _exits(st.body):
                        tests.append(st.test)
        cur = p
    return tests


def _in_try(par, node, names):
    cur = node
    while cur in par:
        p = par[cur]
        if isinstance(p, ast.Try) and cur in p.body:
            for h in p.handlers:
                caught = [] if h.type is None else [x.id for x in ast.walk(h.type) if isinstance(x, ast.Name)]
                if h.type is None or any(c in names or c in ("Exception", "BaseException") for c in caught):
                    return True
        cur = p
    return False


def _is_group_call(e):
    return isinstance(e, ast.Call) and isinstance(e.func, ast.Attribute) and e.func.attr == "group"


def _finite_exit_before(par, node):
    return any(isinstance(x, ast.Call) and ast.unparse(x.func) in ("math.isfinite", "isfinite", "math.isinf", "isinf")
               for t in _tests_on_path(par, node) for x in ast.walk(t))


def _classify(par, c):
    """(kind, guard) of a partial operation node, or None"""
    if isinstance(c, ast.Subscript) and isinstance(c.ctx, ast.Load) and not isinstance(c.slice, ast.Slice):
        tests = _tests_on_path(par, c)
        base = c.value
        while isinstance(base, ast.Subscript) and isinstance(base.slice, (ast.Constant, ast.UnaryOp)):
            base = base.value   # `stack[-1][0]`: the container that may be empty is `stack`
        d = ast.dump(base)
        if any(_mentions(t, d) for t in tests):
            return "index", "guarded:container tested on the path"
        if _in_try(par, c, ("KeyError", "IndexError", "LookupError")):
            return "index", "guarded:try"
        return "index", "unguarded"
    if isinstance(c, ast.Call) and isinstance(c.func, ast.Name):
        f = c.func.id
        if f in CONVERT and c.args and not isinstance(c.args[0], ast.Constant):
            a = c.args[0]
            if _in_try(par, c, ("ValueError", "OverflowError", "TypeError", "ArithmeticError")):
                return "convert", "guarded:try"
            if f == "float" and _is_group_call(a):
                # the language of the group is the model's business (Props/C04_Values.parse_sound: digits with an optional
                # `.digits` part, which float() accepts); int() of a group has no such theorem behind it
                return "convert", "guarded:regex group"
            if f == "int" and isinstance(a, ast.Call) and isinstance(a.func, ast.Name) and a.func.id == "round":
                return "convert", ("guarded:isfinite early exit" if _finite_exit_before(par, c) else "unguarded")
            if f == "round":
                p = par.get(c)
                if isinstance(p, ast.Call) and isinstance(p.func, ast.Name) and p.func.id == "int":
                    return None   # counted with the enclosing int(round(..))
                return "convert", ("guarded:isfinite early exit" if _finite_exit_before(par, c) else "unguarded")
            return "convert", "unguarded"
        if f == "next" and len(c.args) < 2:
            return "nextNoDefault", ("guarded:try" if _in_try(par, c, ("StopIteration",)) else "unguarded")
        if f in ("max", "min") and len(c.args) == 1 and not any(k.arg == "default" for k in c.keywords):
            return "extremum", ("guarded:try" if _in_try(par, c, ("ValueError",)) else "unguarded")
        return None
    if isinstance(c, ast.Call) and isinstance(c.func, ast.Attribute):
        m = c.func.attr
        if m in POPLIKE:
            d = ast.dump(c.func.value)
            if any(_mentions(t, d) for t in _tests_on_path(par, c)):
                return "popLike", "guarded:container tested on the path"
            if m == "pop" and len(c.args) == 2:
                return None   # dict.pop(k, default) is total
            return "popLike", ("guarded:try" if _in_try(par, c, ("KeyError", "IndexError", "ValueError", "LookupError")) else "unguarded")
        if m in CODEC and not any(k.arg == "errors" for k in c.keywords) and len(c.args) < 2:
            return "codec", ("guarded:try" if _in_try(par, c, ("UnicodeError", "UnicodeDecodeError", "UnicodeEncodeError", "ValueError")) else "unguarded")
        if m in ("group", "groups", "start", "end", "span") and isinstance(c.func.value, ast.Name):
            d = ast.dump(c.func.value)
            if any(_mentions(t, d) for t in _tests_on_path(par, c)):
                return "matchGroup", "guarded:match tested on the path"
            return "matchGroup", "unguarded"
        return None
    if isinstance(c, ast.BinOp) and isinstance(c.op, (ast.Div, ast.FloorDiv, ast.Mod)):
        if isinstance(c.op, ast.Mod) and (isinstance(c.left, ast.Constant) and isinstance(c.left.value, str) or isinstance(c.left, ast.JoinedStr)):
            return None
        r = c.right
        if isinstance(r, ast.Constant) and isinstance(r.value, (int, float)) and r.value != 0:
            return None   # division by a non-zero constant is total
        d = ast.dump(r)
        if any(_mentions(t, d) for t in _tests_on_path(par, c)):
            return "divide", "guarded:divisor tested on the path"
        return "divide", "unguarded"
    if isinstance(c, ast.Raise):
        return "raiseStmt", ("guarded:try" if _in_try(par, c, ()) else "unguarded")
    if isinstance(c, ast.Assert):
        return "raiseStmt", "unguarded"
    return None


def partial_ops(tree=None):
    tree = tree or parse(DT)
    fns = _functions(tree)
    names = _closure(fns)
    rows = []
    for a in names:
        for q, f in fns[a]:
            par = _parents(f)
            ann = _annotation_nodes(f)
            for c in ast.walk(f):
                if id(c) in ann:
                    continue
                r = _classify(par, c)
                if r:
                    rows.append((q, r[0], " ".join(ast.unparse(c).split())[:160], r[1]))
    # one row per (function, kind, expression, guard): the inventory does not depend on line numbers or repetition
    return names, sorted(set(rows))


# ----------------------------------------------------------------------------- the ODF length conversion
def _length_facts(tree, notes):
    dt = fresh_import("sharepoint2text.parsing.extractors.data_types")
    fn = next((n for n in tree.body if isinstance(n, ast.FunctionDef) and n.name == "_odf_length_to_px"), None)
    rx = getattr(dt, "_ODF_LENGTH_RE", None)
    if fn is None or rx is None or not hasattr(dt, "_odf_length_to_px"):
        notes.append("data_types._odf_length_to_px / _ODF_LENGTH_RE not found")
        return {"pattern": "", "flags": 0, "units": [], "unknown": "other \"function not found\"", "finite": False}
    f = dt._odf_length_to_px
    # units with a conversion: string constants compared with == in the function, keys of module-level dict literals it subscripts / .get()s
    units = set()
    for c in ast.walk(fn):
        if isinstance(c, ast.Compare) and len(c.ops) == 1 and isinstance(c.ops[0], ast.Eq):
            for e in [c.left] + c.comparators:
                if isinstance(e, ast.Constant) and isinstance(e.value, str):
                    units.add(e.value)
    tables = set()
    for c in ast.walk(fn):
        if isinstance(c, ast.Subscript) and isinstance(c.value, ast.Name) and not isinstance(c.slice, ast.Slice):
            tables.add(c.value.id)
        if isinstance(c, ast.Call) and isinstance(c.func, ast.Attribute) and c.func.attr == "get" and isinstance(c.func.value, ast.Name):
            tables.add(c.func.value.id)
        if isinstance(c, ast.Compare) and any(isinstance(o, (ast.In, ast.NotIn)) for o in c.ops):
            tables.update(e.id for e in c.comparators if isinstance(e, ast.Name))
    for t in sorted(tables):
        v = getattr(dt, t, None)
        if isinstance(v, dict):
            units.update(k for k in v if isinstance(k, str))
    units = sorted(units)

    def run(s):
        try:
            r = f(s)
            return "none" if r is None else ("int" if isinstance(r, int) and not isinstance(r, bool) else "other")
        except Exception as e:  # noqa: BLE001
            return "raise:" + type(e).__name__
    for u in units:
        if run("7" + u) != "int":
            notes.append(f"_odf_length_to_px: unit {u!r} found in the source gives {run('7' + u)} for '7{u}'")
    # any OTHER unit: what the source shows, and what the function does
    par = _parents(fn)
    ops = [(_classify(par, c), c) for c in ast.walk(fn)]
    open_index = [c for r, c in ops if r and r[0] in ("index", "popLike") and r[1] == "unguarded"]
    last = fn.body[-1] if fn.body else None
    falls_to_none = isinstance(last, ast.Return) and (last.value is None or (isinstance(last.value, ast.Constant) and last.value.value is None))
    if open_index:
        unknown = "raises"
    elif falls_to_none or tables:
        unknown = "returnsNone"
    else:
        unknown = 'other "no fall-through return None and no guarded table lookup"'
    probes = ["12em", "3ex", "40q", "7zz", "1Em", "2 rem", "5vh"]
    probes = [p for p in probes if (rx.match(p) and (rx.match(p).group(2) or "px").lower() not in units)]
    got = {run(p) for p in probes}
    if unknown == "returnsNone" and got != {"none"}:
        notes.append(f"_odf_length_to_px: the source shows `None` for a unit without conversion, calling it gives {sorted(got)}")
    if unknown == "raises" and not any(g.startswith("raise") for g in got):
        notes.append("_odf_length_to_px: the source shows an unguarded lookup for a unit without conversion, calling it does not raise")
    open_round = [c for r, c in ops if r and r[0] == "convert" and r[1] == "unguarded"]
    finite = not open_round
    big = {run("9" * 400 + u) for u in ["", "px", "cm", "in", "pt"]} | {run("1" + "0" * 307 + "in")}
    if finite and any(g.startswith("raise") for g in big):
        notes.append(f"_odf_length_to_px: the source shows a finiteness guard, a 400-digit length gives {sorted(big)}")
    if not finite and not any(g.startswith("raise") for g in big):
        notes.append("_odf_length_to_px: the source shows int(round(..)) without a finiteness guard, but a 400-digit length does not raise")
    return {"pattern": rx.pattern, "flags": int(rx.flags), "units": units, "unknown": unknown, "finite": finite}


def _ranges(pred):
    out, start = [], None
    for c in range(0x110000):
        if pred(c):
            if start is None:
                start = c
        elif start is not None:
            out.append((start, c - 1))
            start = None
    if start is not None:
        out.append((start, 0x10FFFF))
    return out


@generator("IfaceTotal")
def gen_iface_total() -> str:
    tree = parse(DT)
    notes = []
    names, rows = partial_ops(tree)
    lf = _length_facts(tree, notes)
    rs, rd = re.compile(r"\s"), re.compile(r"\d")
    space = _ranges(lambda c: not (0xD800 <= c <= 0xDFFF) and rs.match(chr(c)) is not None)
    digit = _ranges(lambda c: not (0xD800 <= c <= 0xDFFF) and rd.match(chr(c)) is not None)
    L = [HEADER.format(src=DT)]
    L.append("namespace S2T.Gen.IfaceTotal\n")
    L.append("inductive OpKind | index | convert | nextNoDefault | extremum | popLike | codec | matchGroup | divide | raiseStmt\n  deriving DecidableEq, Repr\n")
    L.append("inductive Guard | guarded (how : String) | unguarded\n  deriving DecidableEq, Repr\n")
    L.append("structure PartialOp where\n  fn : String\n  kind : OpKind\n  expr : String\n  guard : Guard\n  deriving DecidableEq, Repr\n")
    L.append("inductive UnknownUnit | returnsNone | raises | other (why : String)\n  deriving DecidableEq, Repr\n")
    L.append("/-- functions of data_types reachable (by name) from the protocol accessors -/")
    L.append("def accessorClosure : List String := [" + ", ".join(lean_str(n) for n in names) + "]\n")
    L.append("/-- every operation in that closure that raises for some operand, with the guard the source shows -/")
    L.append("def partialOps : List PartialOp := " + lean_list(
        "{ fn := %s, kind := .%s, expr := %s, guard := %s }" % (
            lean_str(q), k, lean_str(e), ".unguarded" if g == "unguarded" else ".guarded " + lean_str(g.split(":", 1)[1]))
        for q, k, e, g in rows) + "\n")
    L.append("/-- `_ODF_LENGTH_RE` (runtime pattern and flags) -/")
    L.append(f"def lengthPattern : String := {lean_str(lf['pattern'])}\ndef lengthFlags : Nat := {lf['flags']}\n")
    L.append("/-- units `_odf_length_to_px` converts -/")
    L.append("def lengthUnits : List String := [" + ", ".join(lean_str(u) for u in lf["units"]) + "]\n")
    L.append("/-- what the function does with a well-formed length whose unit has no conversion -/")
    L.append("def lengthUnknownUnit : UnknownUnit := ." + lf["unknown"] + "\n")
    L.append("/-- is a non-finite value excluded before `int(round(..))` -/")
    L.append("def lengthFiniteGuard : Bool := " + ("true" if lf["finite"] else "false") + "\n")
    L.append("/-- code point ranges matched by `\\s` and by `\\d` in a str pattern (runtime, all of Unicode) -/")
    L.append("def spaceRanges : List (Nat × Nat) := [" + ", ".join(f"({a}, {b})" for a, b in space) + "]")
    L.append("def digitRanges : List (Nat × Nat) := [" + ", ".join(f"({a}, {b})" for a, b in digit) + "]\n")
    L.append("/-- translator cross-check notes; must be empty -/")
    L.append("def notes : List String := " + lean_list(lean_str(n) for n in notes) + "\n")
    L.append("end S2T.Gen.IfaceTotal\n")
    return "\n".join(L)
