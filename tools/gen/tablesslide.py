"""C13, slide level: the constants and the control skeleton of the two slide walkers -> S2T/Gen/TablesSlide.lean

* pptx_extractor: the tag constants used by `_process_slide_from_context` / `_get_shape_position` (runtime value
  cross-checked with the source expression), the placeholder type sets, the literals of `_get_shape_position`
  (attribute names, default strings, the default position tuples), and AST checks of the skeleton the hand model
  (S2T/Model/TablesSlide.lean) was written for: the first `p:spTree`, the three collection loops in the order
  sp, pic, graphicFrame, ONE ascending sort of `shape_elements` by element 2 of the tuples, the
  `if table_data:` guard in front of `tables.append(table_data)`.
* odp_extractor: `draw:frame` / `table:table` path literals of `_extract_slide`, `_ATTR_SVG_X/_Y`, ONE ascending
  sort of `frames_with_positions` by a key.

Anything the model was not written for is a line in `notes` (theorem `gen_slide_notes_empty` then fails).
The checks accept equivalent spellings (`x.sort(key=…)`, `x = sorted(x, key=…)`, a lambda / a named function /
`operator.itemgetter` as the key) so that a harmless refactoring stays silent; what the key computes is tied by
the correspondence, not here.
"""
import ast

from translate import HEADER, chars, fresh_import, generator, lean_list, lean_str, parse

from gen.tables import PPTX, ODP, _const, _module_assigns, _resolve, _s


def _func(rel, name):
    for node in ast.walk(parse(rel)):
        if isinstance(node, ast.FunctionDef) and node.name == name:
            return node
    return None


def _const_tuple(node):
    """(a, b) of int constants, or None"""
    if isinstance(node, ast.Tuple) and len(node.elts) == 2 and all(
            isinstance(e, ast.Constant) and isinstance(e.value, int) and not isinstance(e.value, bool) for e in node.elts):
        return (node.elts[0].value, node.elts[1].value)
    return None


def _names_in(node):
    return {n.id for n in ast.walk(node) if isinstance(n, ast.Name)}


def _index_key(node, fn, mod_tree, want):
    """does the `key=` expression compute `want(arg)`?  want: 'item2' (a[2]) or 'any' (some function of one argument).
    accepted: lambda a: …, the name of a function defined in fn / at module level, operator.itemgetter(2)"""
    def body_of(n):
        if isinstance(n, ast.Lambda) and len(n.args.args) == 1:
            return n.args.args[0].arg, n.body
        if isinstance(n, ast.Name):
            for scope in (fn, mod_tree):
                for d in ast.walk(scope):
                    if isinstance(d, ast.FunctionDef) and d.name == n.id and len(d.args.args) == 1:
                        rets = [r for r in ast.walk(d) if isinstance(r, ast.Return)]
                        if len(rets) == 1 and rets[0].value is not None:
                            return d.args.args[0].arg, rets[0].value
        return None
    if isinstance(node, ast.Call) and getattr(node.func, "attr", getattr(node.func, "id", None)) == "itemgetter":
        return want == "any" or (len(node.args) == 1 and isinstance(node.args[0], ast.Constant) and node.args[0].value == 2)
    b = body_of(node)
    if b is None:
        return False
    arg, body = b
    if want == "any":
        return True
    return (isinstance(body, ast.Subscript) and isinstance(body.value, ast.Name) and body.value.id == arg
            and isinstance(body.slice, ast.Constant) and body.slice.value == 2)


def _sort_calls(fn, listname):
    """[(call, key_expr, other_keywords)] for `listname.sort(...)` and `sorted(listname, ...)` inside fn"""
    out = []
    for c in ast.walk(fn):
        if not isinstance(c, ast.Call):
            continue
        is_sort = isinstance(c.func, ast.Attribute) and c.func.attr == "sort" and isinstance(c.func.value, ast.Name) \
            and c.func.value.id == listname and not c.args
        is_sorted = isinstance(c.func, ast.Name) and c.func.id == "sorted" and len(c.args) == 1 \
            and isinstance(c.args[0], ast.Name) and c.args[0].id == listname
        if is_sort or is_sorted:
            key = next((k.value for k in c.keywords if k.arg == "key"), None)
            other = [k.arg for k in c.keywords if k.arg != "key"]
            out.append((c, key, other))
    return out


def _check_sort(rel, fn, mod_tree, listname, want, notes):
    calls = _sort_calls(fn, listname)
    if len(calls) != 1:
        notes.append(f"{rel}: {fn.name} sorts {listname} {len(calls)} times, the model was written for exactly one stable ascending sort")
        return
    c, key, other = calls[0]
    if other:
        notes.append(f"{rel}: {fn.name} sorts {listname} with the extra arguments {other} ({ast.unparse(c)})")
    if key is None:
        notes.append(f"{rel}: {fn.name} sorts {listname} without key= ({ast.unparse(c)})")
    elif not _index_key(key, fn, mod_tree, want):
        notes.append(f"{rel}: {fn.name} sorts {listname} with key={ast.unparse(key)}, the model was written for "
                     + ("the position (element 2 of the tuples)" if want == "item2" else "a one-argument key function"))
    # every other use of a set / dict / reversed(...) around the list would change the order: the list must only be
    # appended to before the sort
    for n in ast.walk(fn):
        if isinstance(n, ast.Call) and isinstance(n.func, ast.Name) and n.func.id in ("set", "frozenset", "reversed", "dict") \
                and listname in _names_in(n):
            notes.append(f"{rel}: {fn.name} passes {listname} through {n.func.id}()")
        if isinstance(n, ast.Call) and isinstance(n.func, ast.Attribute) and n.func.attr in ("reverse", "insert", "pop", "remove", "clear") \
                and isinstance(n.func.value, ast.Name) and n.func.value.id == listname:
            notes.append(f"{rel}: {fn.name} calls {listname}.{n.func.attr}()")


def _pptx_skeleton(notes, mod_tree):
    """AST checks on _process_slide_from_context; returns the tag-constant names of the three collection loops"""
    fn = _func(PPTX, "_process_slide_from_context")
    if fn is None:
        notes.append(f"{PPTX}: _process_slide_from_context does not exist")
        return
    # sp_tree = next(root.iter(P_SPTREE), None)
    ok_tree = False
    for n in ast.walk(fn):
        if isinstance(n, ast.Assign) and len(n.targets) == 1 and isinstance(n.targets[0], ast.Name) and n.targets[0].id == "sp_tree":
            v = n.value
            ok_tree = (isinstance(v, ast.Call) and getattr(v.func, "id", None) == "next" and v.args
                       and isinstance(v.args[0], ast.Call) and isinstance(v.args[0].func, ast.Attribute)
                       and v.args[0].func.attr == "iter" and getattr(v.args[0].func.value, "id", None) == "root"
                       and len(v.args[0].args) == 1 and getattr(v.args[0].args[0], "id", None) == "P_SPTREE")
    if not ok_tree:
        notes.append(f"{PPTX}: _process_slide_from_context does not take the shape tree as next(root.iter(P_SPTREE), None)")
    # the collection loops, in source order
    loops = []
    for n in fn.body:
        if isinstance(n, ast.For) and isinstance(n.iter, ast.Call) and isinstance(n.iter.func, ast.Attribute) \
                and getattr(n.iter.func.value, "id", None) == "sp_tree":
            tag = getattr(n.iter.args[0], "id", None) if n.iter.args else None
            kind = pos_of = None
            for c in ast.walk(n):
                if isinstance(c, ast.Call) and isinstance(c.func, ast.Attribute) and c.func.attr == "append" \
                        and getattr(c.func.value, "id", None) == "shape_elements" and c.args and isinstance(c.args[0], ast.Tuple) \
                        and len(c.args[0].elts) == 3:
                    k, e, p = c.args[0].elts
                    kind = k.value if isinstance(k, ast.Constant) else None
                    same = isinstance(e, ast.Name) and isinstance(n.target, ast.Name) and e.id == n.target.id
                    pos_of = (isinstance(p, ast.Call) and getattr(p.func, "id", None) == "_get_shape_position"
                              and len(p.args) == 1 and isinstance(p.args[0], ast.Name) and same and p.args[0].id == e.id)
            loops.append((n.iter.func.attr, tag, kind, bool(pos_of)))
    want = [("iter", "P_SP", "sp", True), ("iter", "P_PIC", "pic", True), ("iter", "P_GRAPHICFRAME", "graphicFrame", True)]
    if loops != want:
        notes.append(f"{PPTX}: _process_slide_from_context collects the shapes with {loops}, the model was written for {want}")
    _check_sort(PPTX, fn, mod_tree, "shape_elements", "item2", notes)
    # table branch: `if shape_type == "graphicFrame": … table_data = _extract_table_from_graphic_frame(elem); if table_data: tables.append(table_data)`
    appends = []
    for n in ast.walk(fn):
        if isinstance(n, ast.If):
            for c in n.body:
                for d in ast.walk(c):
                    if isinstance(d, ast.Call) and isinstance(d.func, ast.Attribute) and d.func.attr == "append" \
                            and getattr(d.func.value, "id", None) == "tables" and c in n.body and isinstance(c, ast.Expr) and c.value is d:
                        appends.append((ast.unparse(n.test), ast.unparse(d)))
    if appends != [("table_data", "tables.append(table_data)")]:
        notes.append(f"{PPTX}: _process_slide_from_context fills `tables` with {appends}, the model was written for "
                     "`if table_data: tables.append(table_data)`")
    frame_ifs = [ast.unparse(n.test) for n in fn.body[-1:] if False]
    got = []
    for n in ast.walk(fn):
        if isinstance(n, ast.Assign) and len(n.targets) == 1 and getattr(n.targets[0], "id", None) == "table_data":
            got.append(ast.unparse(n.value))
    if got != ["_extract_table_from_graphic_frame(elem)"]:
        notes.append(f"{PPTX}: table_data is assigned {got}")
    guards = [ast.unparse(n.test) for n in ast.walk(fn) if isinstance(n, ast.If) and any(
        isinstance(a, ast.Assign) and getattr(a.targets[0], "id", None) == "table_data" for a in ast.walk(n))
        and "shape_type" in _names_in(n.test)]
    if guards != ["shape_type == 'graphicFrame'"]:
        notes.append(f"{PPTX}: the table branch is guarded by {guards}, the model was written for shape_type == 'graphicFrame'")
    del frame_ifs


def _pptx_position(notes):
    """literals of _get_shape_position"""
    out = {"titlePos": None, "bodyBase": None, "bodyX": None, "footerPos": None, "noPos": None, "excPos": None,
           "sldNum": None, "attrX": None, "attrY": None, "attrDflt": None, "phType": None, "phIdx": None}
    fn = _func(PPTX, "_get_shape_position")
    if fn is None:
        notes.append(f"{PPTX}: _get_shape_position does not exist")
        return out
    tries = [n for n in fn.body if isinstance(n, ast.Try)]
    if len(tries) != 1 or len(tries[0].handlers) != 1 or getattr(tries[0].handlers[0].type, "id", None) != "Exception":
        notes.append(f"{PPTX}: _get_shape_position is not one try/except Exception")
        return out
    tr = tries[0]
    h = tr.handlers[0]
    if len(h.body) == 1 and isinstance(h.body[0], ast.Return):
        out["excPos"] = _const_tuple(h.body[0].value)
    if tr.body and isinstance(tr.body[-1], ast.Return):
        out["noPos"] = _const_tuple(tr.body[-1].value)
    gets = {}     # variable -> (elem, attr, default) for `v = int(e.get(attr, default))` / `v = e.get(attr, default)`
    for n in ast.walk(tr):
        if isinstance(n, ast.Assign) and len(n.targets) == 1 and isinstance(n.targets[0], ast.Name):
            v = n.value
            wrapped = isinstance(v, ast.Call) and getattr(v.func, "id", None) == "int" and len(v.args) == 1
            g = v.args[0] if wrapped else v
            if isinstance(g, ast.Call) and isinstance(g.func, ast.Attribute) and g.func.attr == "get" and len(g.args) == 2 \
                    and all(isinstance(a, ast.Constant) and isinstance(a.value, str) for a in g.args):
                gets[n.targets[0].id] = (getattr(g.func.value, "id", None), g.args[0].value, g.args[1].value, wrapped)
    # return (y, x) with x = int(off.get("x", "0")), y = int(off.get("y", "0"))
    explicit = [n for n in ast.walk(tr) if isinstance(n, ast.Return) and isinstance(n.value, ast.Tuple)
                and all(isinstance(e, ast.Name) for e in n.value.elts)]
    if len(explicit) == 1 and len(explicit[0].value.elts) == 2:
        first, second = (e.id for e in explicit[0].value.elts)
        gy, gx = gets.get(first), gets.get(second)
        if gy and gx and gy[0] == gx[0] == "off" and gy[3] and gx[3] and gy[2] == gx[2]:
            out["attrY"], out["attrX"], out["attrDflt"] = gy[1], gx[1], gy[2]
        else:
            notes.append(f"{PPTX}: _get_shape_position returns ({first}, {second}) with {first} = {gy}, {second} = {gx}; "
                         "the model was written for int(off.get(<name>, <default>)) for both")
    else:
        notes.append(f"{PPTX}: _get_shape_position has {len(explicit)} `return (a, b)` of two variables")
    for var, key in (("ph_type", "phType"), ("ph_idx", "phIdx")):
        g = gets.get(var)
        if g and g[0] == "ph" and g[2] == "" and not g[3]:
            out[key] = g[1]
        else:
            notes.append(f"{PPTX}: _get_shape_position: {var} = {g}, the model was written for ph.get(<name>, '')")
    # the three placeholder branches
    for n in ast.walk(tr):
        if not isinstance(n, ast.If) or not n.body or not isinstance(n.body[-1], ast.Return):
            continue
        test = ast.unparse(n.test)
        ret = n.body[-1].value
        if test == "ph_type in TITLE_TYPES":
            out["titlePos"] = _const_tuple(ret)
        elif test == "ph_type in BODY_TYPES or (not ph_type and ph_idx)":
            if isinstance(ret, ast.Tuple) and len(ret.elts) == 2 and isinstance(ret.elts[0], ast.BinOp) and isinstance(ret.elts[0].op, ast.Add) \
                    and isinstance(ret.elts[0].left, ast.Constant) and isinstance(ret.elts[0].right, ast.Name) \
                    and isinstance(ret.elts[1], ast.Constant):
                out["bodyBase"], out["bodyX"] = ret.elts[0].left.value, ret.elts[1].value
            idx = [ast.unparse(a.value) for a in n.body if isinstance(a, ast.Assign)]
            if idx != ["int(ph_idx) if ph_idx.isdigit() else 0"]:
                notes.append(f"{PPTX}: _get_shape_position: body placeholder index is {idx}")
        elif test.startswith("ph_type in FOOTER_TYPES or ph_type == "):
            out["footerPos"] = _const_tuple(ret)
            cmp = n.test.values[1]
            if isinstance(cmp, ast.Compare) and isinstance(cmp.comparators[0], ast.Constant):
                out["sldNum"] = cmp.comparators[0].value
    for k, v in out.items():
        if v is None:
            notes.append(f"{PPTX}: _get_shape_position: the literal for {k} was not found where the model expects it")
    return out


def _pair(p):
    return f"({p[0]}, {p[1]})" if p else "(0, 0)"


@generator("TablesSlide")
def gen_tablesslide() -> str:
    notes = []
    px = fresh_import("sharepoint2text.parsing.extractors.ms_modern.pptx_extractor")
    op = fresh_import("sharepoint2text.parsing.extractors.open_office.odp_extractor")
    L = [HEADER.format(src=", ".join([PPTX, ODP]))]
    L.append("import S2T.Model.TablesSlide\nnamespace S2T.Gen.TablesSlide\nopen S2T.Tables.Slide\n")

    # ---- PPTX
    a = _module_assigns(PPTX)
    tags = {k: _const(px, PPTX, n, notes, a) for k, n in
            [("spTree", "P_SPTREE"), ("sp", "P_SP"), ("pic", "P_PIC"), ("graphicFrame", "P_GRAPHICFRAME"), ("spPr", "P_SPPR"),
             ("aXfrm", "A_XFRM"), ("pXfrm", "P_XFRM"), ("off", "A_OFF"), ("nvSpPr", "P_NVSPPR"), ("nvPr", "P_NVPR"), ("ph", "P_PH")]}
    sets = {k: _const(px, PPTX, n, notes, a) for k, n in
            [("titleTypes", "TITLE_TYPES"), ("bodyTypes", "BODY_TYPES"), ("footerTypes", "FOOTER_TYPES")]}
    mod_tree = parse(PPTX)
    _pptx_skeleton(notes, mod_tree)
    lit = _pptx_position(notes)
    # the names used inside _get_shape_position must be the constants emitted above
    fn = _func(PPTX, "_get_shape_position")
    if fn is not None:
        used = _names_in(fn) & {n for n in a if n.isupper()}
        want = {"P_SPPR", "A_XFRM", "P_XFRM", "A_OFF", "P_NVSPPR", "P_NVPR", "P_PH", "TITLE_TYPES", "BODY_TYPES", "FOOTER_TYPES"}
        if used != want:
            notes.append(f"{PPTX}: _get_shape_position uses the module constants {sorted(used)}, the model was written for {sorted(want)}")
        calls = [(c.func.attr, ast.unparse(c.func.value), ast.unparse(c.args[0]) if c.args else "")
                 for c in ast.walk(fn) if isinstance(c, ast.Call) and isinstance(c.func, ast.Attribute) and c.func.attr in ("find", "iter", "findall")]
        want_calls = [("iter", "shape_elem", "P_SPPR"), ("iter", "shape_elem", "A_XFRM"), ("find", "sp_pr", "A_XFRM"), ("find", "sp_pr", "P_XFRM"),
                      ("iter", "shape_elem", "A_XFRM"), ("iter", "shape_elem", "P_XFRM"), ("find", "xfrm", "A_OFF"),
                      ("find", "shape_elem", "P_NVSPPR"), ("find", "nv_sp_pr", "P_NVPR"), ("find", "nv_pr", "P_PH")]
        if sorted(calls) != sorted(want_calls):
            notes.append(f"{PPTX}: _get_shape_position navigates with {calls}, the model was written for {want_calls}")
    fields = [f"{k} := {_s(v)}" for k, v in tags.items()]
    fields += [f"{k} := {_s(lit[k])}" for k in ("attrX", "attrY", "attrDflt", "phType", "phIdx")]
    fields += [f"{k} := " + lean_list((chars(x) for x in sorted(v or [])), per_line=6, indent="    ") for k, v in sets.items()]
    fields += [f"sldNum := {_s(lit['sldNum'])}", f"titlePos := {_pair(lit['titlePos'])}", f"bodyBase := {lit['bodyBase'] or 0}",
               f"bodyX := {lit['bodyX'] or 0}", f"footerPos := {_pair(lit['footerPos'])}", f"noPos := {_pair(lit['noPos'])}",
               f"excPos := {_pair(lit['excPos'])}"]
    L.append("def pptx : SlideTags := {\n  " + ",\n  ".join(fields) + " }\n")

    # ---- ODP
    a = _module_assigns(ODP)
    ns = getattr(op, "NS", {})
    d = {"svgX": _const(op, ODP, "_ATTR_SVG_X", notes, a), "svgY": _const(op, ODP, "_ATTR_SVG_Y", notes, a)}
    try:
        d["frame"] = _resolve("draw:frame", ns)[0]
    except Exception as e:
        notes.append(f"{ODP}: namespace map lacks the draw prefix ({e})")
        d["frame"] = None
    fn = _func(ODP, "_extract_slide")
    if fn is None:
        notes.append(f"{ODP}: _extract_slide does not exist")
    else:
        paths = sorted((c.func.attr, ast.unparse(c.func.value), c.args[0].value) for c in ast.walk(fn)
                       if isinstance(c, ast.Call) and isinstance(c.func, ast.Attribute) and c.func.attr in ("find", "findall", "iter")
                       and c.args and isinstance(c.args[0], ast.Constant) and isinstance(c.args[0].value, str))
        want = sorted([("findall", "page", "draw:frame"), ("find", "frame", "table:table"), ("find", "page", "presentation:notes")])
        if paths != want:
            notes.append(f"{ODP}: _extract_slide uses the path literals {paths}, the model was written for {want}")
        _check_sort(ODP, fn, parse(ODP), "frames_with_positions", "any", notes)
        used = _names_in(fn) & {"_ATTR_SVG_X", "_ATTR_SVG_Y"}
        if used != {"_ATTR_SVG_X", "_ATTR_SVG_Y"}:
            notes.append(f"{ODP}: _extract_slide uses {sorted(used)} of _ATTR_SVG_X / _ATTR_SVG_Y")
        appends = []
        for n in ast.walk(fn):
            if isinstance(n, ast.If):
                for c in n.body:
                    if isinstance(c, ast.Expr) and isinstance(c.value, ast.Call) and ast.unparse(c.value.func) == "slide.tables.append":
                        appends.append((ast.unparse(n.test), ast.unparse(c.value)))
        if appends != [("table_data", "slide.tables.append(table_data)")]:
            notes.append(f"{ODP}: _extract_slide fills slide.tables with {appends}, the model was written for "
                         "`if table_data: slide.tables.append(table_data)`")
        got = [ast.unparse(n.value) for n in ast.walk(fn) if isinstance(n, ast.Assign) and getattr(n.targets[0], "id", None) == "table_data"]
        if got != ["_extract_table(table)"]:
            notes.append(f"{ODP}: table_data is assigned {got}")
    L.append("def odp : OdpSlideTags := { " + ", ".join(f"{k} := {_s(d[k])}" for k in ("frame", "svgX", "svgY")) + " }\n")
    # the length expression: does it accept a sign?  (probed on the compiled expression; the model has the two variants)
    rx = getattr(op, "_ODF_LENGTH_RE", None)
    signed = False
    if rx is None:
        notes.append(f"{ODP}: _ODF_LENGTH_RE does not exist")
    else:
        probes = {"1cm": True, " 12.5 cm ": True, "7": True, ".5cm": False, "5.cm": False, "1e3": False, "+1cm": False, "- 1cm": False,
                  "1cm x": False, "": False}
        for text, want in probes.items():
            if bool(rx.match(text)) != want:
                notes.append(f"{ODP}: _ODF_LENGTH_RE {'matches' if not want else 'does not match'} {text!r}, the model was written for the opposite")
        signed = bool(rx.match("-1cm"))
        fnp = _func(ODP, "_parse_odf_length_to_px")
        if fnp is None or "_ODF_LENGTH_RE" not in _names_in(fnp) or "float" not in _names_in(fnp):
            notes.append(f"{ODP}: _parse_odf_length_to_px does not read the number with _ODF_LENGTH_RE and float()")
    L.append("/-- `_ODF_LENGTH_RE` accepts `-` in front of the digits -/")
    L.append(f"def odpLengthSigned : Bool := {'true' if signed else 'false'}\n")

    L.append("/-- translator cross-check notes; must be empty -/")
    L.append("def notes : List String := " + lean_list(lean_str(n) for n in notes) + "\n")
    L.append("end S2T.Gen.TablesSlide\n")
    return "\n".join(L)
