"""C06: the accessor (observer) interface of every result / unit / image / table class -> S2T/Gen/Observers.lean

accessorParams  (class, method, parameter, kind)  every OPTIONAL parameter of every public method of a class in
                data_types.py that can be called without a required argument (= an observer of the object alone).
                kind: `bool` (default True/False), `optbool` / `optint` / `optstr` (default None, annotated), `int`, `str`,
                otherwise `other:<default>` — a kind the observer-sequence generator (harness/props/c06_observe.py
                `param_domain`) has no value domain for, so nobody would vary it.
requiredArgMethods (class, method)  public methods that NEED an argument (not observers; listed so that a new one is seen).
instanceCaches  (class, method, expression)  per-instance state outside the dataclass fields: `__dict__` / `vars(self)` /
                `object.__setattr__` / `setattr(self, …)` / `functools.cached_property` inside these classes.
"""
import ast
import os

from translate import HEADER, REPO, generator, lean_list, lean_str

DATA_TYPES = "sharepoint2text/parsing/extractors/data_types.py"
NON_OBSERVERS = {"populate_from_path", "from_json", "__init__", "__post_init__"}


def _kind(default, ann):
    a = (ast.unparse(ann) if ann is not None else "").lower()
    if isinstance(default, ast.Constant):
        v = default.value
        if isinstance(v, bool):
            return "bool"
        if v is None:
            for t in ("bool", "int", "str"):
                if t in a:
                    return "opt" + t
            return "other:None"
        if isinstance(v, int):
            return "int"
        if isinstance(v, str):
            return "str"
    return "other:" + ast.unparse(default)[:30]


def scan():
    with open(os.path.join(REPO, DATA_TYPES), encoding="utf-8") as fh:
        tree = ast.parse(fh.read())
    params, required, caches = [], [], []
    for cls in [n for n in tree.body if isinstance(n, ast.ClassDef)]:
        for fn in [n for n in cls.body if isinstance(n, (ast.FunctionDef, ast.AsyncFunctionDef))]:
            for dec in fn.decorator_list:
                if "cache" in ast.unparse(dec).lower():
                    caches.append((cls.name, fn.name, "@" + ast.unparse(dec)[:40]))
            for n in ast.walk(fn):
                if isinstance(n, ast.Attribute) and n.attr == "__dict__":
                    caches.append((cls.name, fn.name, ast.unparse(n)[:40]))
                if isinstance(n, ast.Call) and ast.unparse(n.func) in ("vars", "setattr", "delattr", "object.__setattr__", "object.__delattr__"):
                    caches.append((cls.name, fn.name, ast.unparse(n)[:40]))
            if fn.name.startswith("_") or fn.name in NON_OBSERVERS:
                continue
            if any(ast.unparse(d) in ("classmethod", "staticmethod") or ast.unparse(d).endswith(".setter") for d in fn.decorator_list):
                continue
            a = fn.args
            pos = (a.posonlyargs + a.args)[1:]
            ndef = len(a.defaults)
            req = pos[: len(pos) - ndef] if ndef <= len(pos) else []
            kwreq = [k for k, d in zip(a.kwonlyargs, a.kw_defaults) if d is None]
            if req or kwreq:
                required.append((cls.name, fn.name))
                continue
            pairs = list(zip(pos[len(pos) - ndef:], a.defaults[-len(pos):] if pos else [])) + \
                [(k, d) for k, d in zip(a.kwonlyargs, a.kw_defaults) if d is not None]
            for arg, d in pairs:
                params.append((cls.name, fn.name, arg.arg, _kind(d, arg.annotation)))
            if a.vararg or a.kwarg:
                params.append((cls.name, fn.name, "*" + (a.vararg.arg if a.vararg else a.kwarg.arg), "other:variadic"))
    return sorted(set(params)), sorted(set(required)), sorted(set(caches))


@generator("Observers")
def gen_observers() -> str:
    params, required, caches = scan()
    L = [HEADER.format(src=DATA_TYPES + " (AST)")]
    L.append("namespace S2T.Gen.Observers\n")
    L.append("/-- (class, method, parameter, kind): optional parameters of observer methods -/")
    L.append("def accessorParams : List (String × String × String × String) := " + lean_list(
        f"({lean_str(a)}, {lean_str(b)}, {lean_str(c)}, {lean_str(d)})" for a, b, c, d in params) + "\n")
    L.append("/-- (class, method): public methods that need an argument -/")
    L.append("def requiredArgMethods : List (String × String) := " + lean_list(f"({lean_str(a)}, {lean_str(b)})" for a, b in required) + "\n")
    L.append("/-- (class, method, expression): per-instance state outside the dataclass fields -/")
    L.append("def instanceCaches : List (String × String × String) := " + lean_list(
        f"({lean_str(a)}, {lean_str(b)}, {lean_str(c)})" for a, b, c in caches) + "\n")
    L.append("end S2T.Gen.Observers\n")
    return "\n".join(L)
