"""C20: AES tables of _pypdf_aes_fallback.py -> S2T/Gen/Aes.lean

Runtime values of the module attributes are what the running code indexes, so they are what is
translated.  `_SBOX` / `_INV_SBOX` are literals in the source: the runtime value is cross-checked against
the AST literal.  `_MUL*` / `_RCON` are computed at import (`_build_mul_table(c)`, `_build_rcon()`): if the
AST shows exactly that call the runtime value is compared with a fresh call; a literal is compared with the runtime
value; any disagreement is recorded in `notes` (which a Lean theorem requires to be empty)."""
import ast

from translate import HEADER, ast_literal_assign, fresh_import, generator, lean_list, lean_str, nat_list, parse

REL = "sharepoint2text/parsing/extractors/pdf/_pypdf_aes_fallback.py"
MOD = "sharepoint2text.parsing.extractors.pdf._pypdf_aes_fallback"


def _assign_value(name):
    for node in parse(REL).body:
        tgt = val = None
        if isinstance(node, ast.Assign) and len(node.targets) == 1:
            tgt, val = node.targets[0], node.value
        elif isinstance(node, ast.AnnAssign) and node.value is not None:
            tgt, val = node.target, node.value
        if isinstance(tgt, ast.Name) and tgt.id == name:
            return val
    return None


def _ints(name, val, notes, n=None):
    xs = list(val)
    if not all(isinstance(x, int) and not isinstance(x, bool) and x >= 0 for x in xs):
        notes.append(f"{name}: runtime value is not a sequence of non-negative ints")
        xs = [x if isinstance(x, int) and x >= 0 else 10**6 for x in xs]
    return xs


@generator("Aes")
def gen_aes() -> str:
    m = fresh_import(MOD)
    notes = []
    info = []
    tabs = {}
    for nm in ("_SBOX", "_INV_SBOX"):
        tabs[nm] = _ints(nm, getattr(m, nm), notes)
        lit = ast_literal_assign(REL, nm)
        if lit is None:
            notes.append(f"{nm}: not a literal in the source")
        elif list(lit) != tabs[nm]:
            notes.append(f"{nm}: runtime value differs from the source literal")
    for nm, c in (("_MUL2", 2), ("_MUL3", 3), ("_MUL9", 9), ("_MUL11", 11), ("_MUL13", 13), ("_MUL14", 14)):
        tabs[nm] = _ints(nm, getattr(m, nm), notes)
        v = _assign_value(nm)
        ok = (isinstance(v, ast.Call) and isinstance(v.func, ast.Name) and v.func.id == "_build_mul_table"
              and len(v.args) == 1 and not v.keywords and isinstance(v.args[0], ast.Constant) and v.args[0].value == c)
        if ok:
            if list(m._build_mul_table(c)) != tabs[nm]:
                notes.append(f"{nm}: runtime value differs from _build_mul_table({c})")
        else:
            # written some other way (literal, comprehension, …): the runtime value is what the code indexes and
            # is what the theorems decide; only a literal that disagrees with it is a broken tie
            lit = ast_literal_assign(REL, nm)
            if lit is not None and list(lit) != tabs[nm]:
                notes.append(f"{nm}: runtime value differs from the source literal")
            else:
                info.append(f"{nm}: computed in the source, not by `_build_mul_table({c})`; runtime value taken")
    tabs["_RCON"] = _ints("_RCON", m._RCON, notes)
    v = _assign_value("_RCON")
    if isinstance(v, ast.Call) and isinstance(v.func, ast.Name) and v.func.id == "_build_rcon" and not v.args and not v.keywords:
        if list(m._build_rcon()) != tabs["_RCON"]:
            notes.append("_RCON: runtime value differs from _build_rcon()")
    else:
        lit = ast_literal_assign(REL, "_RCON")
        if lit is not None and list(lit) != tabs["_RCON"]:
            notes.append("_RCON: runtime value differs from the source literal")
        else:
            info.append("_RCON: computed in the source, not by `_build_rcon()`; runtime value taken")
    cmax = m._ROUND_KEY_CACHE_MAX
    if ast_literal_assign(REL, "_ROUND_KEY_CACHE_MAX") != cmax:
        notes.append("_ROUND_KEY_CACHE_MAX: runtime value differs from the source literal")
    L = [HEADER.format(src=REL)]
    L.append("import S2T.Model.Aes\nnamespace S2T.Gen.Aes\nopen S2T.Aes\n")
    for nm, ln in (("_SBOX", "sbox"), ("_INV_SBOX", "invSbox"), ("_MUL2", "mul2"), ("_MUL3", "mul3"), ("_MUL9", "mul9"),
                   ("_MUL11", "mul11"), ("_MUL13", "mul13"), ("_MUL14", "mul14"), ("_RCON", "rcon")):
        L.append(f"/-- runtime value of `{nm}` -/")
        L.append(f"def {ln} : List Nat := " + nat_list(tabs[nm]) + "\n")
    L.append("/-- `_ROUND_KEY_CACHE_MAX` -/")
    L.append(f"def cacheMax : Nat := {int(cmax)}\n")
    # `info` is deliberately not written: a harmless rewrite of how a table is computed must leave the generated
    # text (and so Lake's traces) unchanged
    L.append("/-- translator cross-check notes (runtime value vs. source); must be empty -/")
    L.append("def notes : List String := " + lean_list(lean_str(n) for n in notes) + "\n")
    L.append("def tables : Tables := { sbox, invSbox, mul2, mul3, mul9, mul11, mul13, mul14, rcon }\n")
    L.append("end S2T.Gen.Aes\n")
    return "\n".join(L)
