"""C14: relationship-kind guards of the image paths -> S2T/Gen/ImageRels.lean

A relationships part lists relationships of MANY kinds (a worksheet: drawing, vmlDrawing, comments, hyperlink,
printerSettings, table, ...; a drawing: image, chart, hyperlink, diagram*; the main document: styles, settings, header,
footer, hyperlink, image, ...).  The image extraction selects "its" relationships with a substring test on the Type URI.
Read off the CURRENT source, for every `if` of the three image functions whose test is one such comparison:

    if "<needle>" in <expr about the type>[.lower()]:       <body: assigns d[...] / break>
    if "<needle>" not in <expr about the type>[.lower()]:   continue

the needle, whether the Type is lower-cased before the test, and what the guarded branch does (names assigned by
subscript).  The theorems of Props/C14_Rels.lean decide, for these guards, that on every Type URI of the standard's
relationship inventory (namespace x kind) the test is true exactly for the one kind the loop is after — so the guards
select the designated relationship for EVERY relationships part, whatever siblings it lists and in whatever order.
A test that is not of this shape (a helper call, a compound condition, a regular expression) is emitted as "not found":
the obligation `gen_rel_guards_found` fails and the failing-input search runs.
"""
import ast

from translate import HEADER, generator, lean_list, lean_str, parse

DOCX = "sharepoint2text/parsing/extractors/ms_modern/docx_extractor.py"
XLSX = "sharepoint2text/parsing/extractors/ms_modern/xlsx_extractor.py"


def _func(rel, name):
    for node in ast.walk(parse(rel)):
        if isinstance(node, ast.FunctionDef) and node.name == name:
            return node
    return None


def _lowered_names(fn):
    """local names assigned (anywhere in fn) from an expression that calls .lower() / .casefold()"""
    out = set()
    for node in ast.walk(fn):
        if isinstance(node, ast.Assign) and len(node.targets) == 1 and isinstance(node.targets[0], ast.Name):
            if any(isinstance(c, ast.Call) and isinstance(c.func, ast.Attribute) and c.func.attr in ("lower", "casefold") for c in ast.walk(node.value)):
                out.add(node.targets[0].id)
    return out


def _type_names(fn):
    """local names assigned from an expression that mentions the "type" entry of a relationship"""
    out = set()
    for node in ast.walk(fn):
        if isinstance(node, ast.Assign) and len(node.targets) == 1 and isinstance(node.targets[0], ast.Name):
            if any(isinstance(c, ast.Constant) and c.value == "type" for c in ast.walk(node.value)):
                out.add(node.targets[0].id)
    return out


def _guards(fn):
    """[(needle, lowered, positive, assigned names, has break/continue)] for the `if`s of fn that test a relationship type"""
    low = _lowered_names(fn)
    tnames = _type_names(fn)
    out, odd = [], []
    for node in ast.walk(fn):
        if not isinstance(node, ast.If):
            continue
        t = node.test
        about_type = any((isinstance(c, ast.Constant) and c.value == "type") or (isinstance(c, ast.Name) and c.id in tnames) for c in ast.walk(t))
        if not about_type:
            continue
        if not (isinstance(t, ast.Compare) and len(t.ops) == 1 and isinstance(t.ops[0], (ast.In, ast.NotIn))
                and isinstance(t.left, ast.Constant) and isinstance(t.left.value, str)):
            odd.append(ast.unparse(t))
            continue
        comp = t.comparators[0]
        # the right operand: rel["type"] | rel.get("type", "") | <name> , optionally followed by .lower()
        lowered = False
        inner = comp
        if isinstance(comp, ast.Call) and isinstance(comp.func, ast.Attribute) and comp.func.attr == "lower" and not comp.args:
            lowered, inner = True, comp.func.value
        ok = False
        if isinstance(inner, ast.Name) and inner.id in tnames:
            ok = True
            lowered = lowered or inner.id in low
        elif isinstance(inner, ast.Subscript) and isinstance(inner.slice, ast.Constant) and inner.slice.value == "type":
            ok = True
        elif (isinstance(inner, ast.Call) and isinstance(inner.func, ast.Attribute) and inner.func.attr == "get" and inner.args
              and isinstance(inner.args[0], ast.Constant) and inner.args[0].value == "type"):
            ok = True
        if not ok:
            odd.append(ast.unparse(t))
            continue
        assigned = sorted({s.targets[0].value.id for s in ast.walk(node) if isinstance(s, ast.Assign) and len(s.targets) == 1
                           and isinstance(s.targets[0], ast.Subscript) and isinstance(s.targets[0].value, ast.Name)})
        jumps = sorted({type(s).__name__.lower() for s in node.body if isinstance(s, (ast.Break, ast.Continue))})
        out.append((t.left.value, lowered, isinstance(t.ops[0], ast.In), assigned, jumps, bool(node.orelse)))
    return out, odd


def _opt(g):
    return "none" if g is None else f"some ({lean_str(g[0])}, {'true' if g[1] else 'false'})"


@generator("ImageRels")
def gen_image_rels() -> str:
    notes = []
    fx = _func(XLSX, "_extract_images_from_zip")
    fd = _func(DOCX, "_extract_images_from_context")
    sheet = image = docx = None
    seen = []
    if fx is None:
        notes.append("xlsx._extract_images_from_zip: no such function")
    else:
        gs, odd = _guards(fx)
        for o in odd:
            notes.append(f"xlsx._extract_images_from_zip: relationship-type test of an unmodelled shape: {o}")
        for needle, lowered, pos, assigned, jumps, orelse in gs:
            seen.append(f"xlsx:{needle}:{'lower' if lowered else 'exact'}:{'in' if pos else 'not in'}:{','.join(assigned)}:{','.join(jumps)}")
            if pos and not orelse and assigned == ["sheet_to_drawing"] and jumps == ["break"]:
                sheet = (needle, lowered) if sheet is None else ("?ambiguous", False)
            elif pos and not orelse and assigned == ["rid_to_image"] and jumps == []:
                image = (needle, lowered) if image is None else ("?ambiguous", False)
            else:
                notes.append(f"xlsx._extract_images_from_zip: relationship-type guard with an unmodelled effect: {seen[-1]}")
    if fd is None:
        notes.append("docx._extract_images_from_context: no such function")
    else:
        gs, odd = _guards(fd)
        for o in odd:
            notes.append(f"docx._extract_images_from_context: relationship-type test of an unmodelled shape: {o}")
        for needle, lowered, pos, assigned, jumps, orelse in gs:
            seen.append(f"docx:{needle}:{'lower' if lowered else 'exact'}:{'in' if pos else 'not in'}:{','.join(assigned)}:{','.join(jumps)}")
            if (not pos) and not orelse and assigned == [] and jumps == ["continue"]:
                docx = (needle, lowered) if docx is None else ("?ambiguous", False)
            else:
                notes.append(f"docx._extract_images_from_context: relationship-type guard with an unmodelled effect: {seen[-1]}")
    L = [HEADER.format(src=", ".join((XLSX, DOCX)))]
    L.append("namespace S2T.Gen.ImageRels\n")
    L.append("/-- xlsx `_extract_images_from_zip`: `if \"<needle>\" in rel[\"type\"]: sheet_to_drawing[k] = ...; break` (needle, Type lower-cased first) -/")
    L.append(f"def xlsx_sheet_guard : Option (String × Bool) := {_opt(sheet)}\n")
    L.append("/-- xlsx `_extract_images_from_zip`: `if \"<needle>\" in rel[\"type\"]: rid_to_image[rel[\"id\"]] = ...` -/")
    L.append(f"def xlsx_image_guard : Option (String × Bool) := {_opt(image)}\n")
    L.append("/-- docx `_extract_images_from_context`: `if \"<needle>\" not in rel_type.lower(): continue` -/")
    L.append(f"def docx_image_guard : Option (String × Bool) := {_opt(docx)}\n")
    L.append("/-- every relationship-type test found in the two functions (for the reader) -/")
    L.append("def guards_seen : List String := " + lean_list(lean_str(s) for s in seen) + "\n")
    L.append("/-- tests of an unmodelled shape / effect; must be empty -/")
    L.append("def notes : List String := " + lean_list(lean_str(n) for n in notes) + "\n")
    L.append("end S2T.Gen.ImageRels\n")
    return "\n".join(L)
