"""Function-level translator, part 2: non-negative ints, bit operations, lists / bytes, loops that mutate a list,
comprehensions, `while` — and the whitelist of `_pypdf_aes_fallback.py` (generator `PyAes`).

`SeqFuncTr` extends `pyfun.FuncTr` construct by construct (same discipline: the AST of the current source only, no
per-function template; whatever is not understood appends to `notes`).  Primitive operations are the TRUSTED
definitions of lean/S2T/Py/Bytes.lean.  Newly supported (on top of the table in DESIGN.md §2.6):

| Python | Lean |
|---|---|
| `int` declared non-negative by the module's `annot` table; literals `0, 1, 0xFF` | `Nat`; `({v} : Nat)` |
| `& | ^ << >> + *` on such ints; `// %` by a positive literal | `&&& ||| ^^^ <<< >>> + * / %` |
| `// %` by a variable | `(← Py.natFloorDiv a b)`, `(← Py.natMod a b)` (`ZeroDivisionError`) |
| `a - b`, `-a` | `((a : Int) - (b : Int))`, `(-(a : Int))` : `Int`; an `Int` meets a `Nat` through `Nat → Int` casts only |
| `x in (16, 24, 32)` / `not in` with a tuple of int literals | `([16, 24, 32].contains x)` |
| `l[i]` on list / bytes, any int index | `(← Py.getItem l i)` (`IndexError`, negative indices from the end) |
| `l[a:b]`, `l[a:]`, `l[:b]`, `l[:]`, negative bounds | `(Py.slice l (some a) (some b))` … |
| `l[i] = e`, `l[i] op= e` on a local list / a list parameter; on a bytearray | `l := (← Py.setItem l i e)`; `Py.bytearraySetItem` (`ValueError` before `IndexError`) |
| `ba[a:b] = e` | `ba := (Py.setSlice ba (some a) (some b) e)` |
| a parameter that is assigned (`a &= 0xFF`) | shadowed: `let mut a := a` |
| a LIST PARAMETER mutated in place (subscript store, `append`, `extend`, passed on to a mutating function), result `None` | the function returns the new list; a call statement `f(state)` is `state := (← f state)`.  Every in-place mutated list must be bound to fresh lists only and must not escape (`x = state`, `w.append(state)` …): otherwise *unsupported* (aliasing is not modelled) |
| `len list tuple bytes bytearray memoryview` | `List.length`, identity, `(← Py.bytesOfList l)` / `bytesOfInts` (`ValueError`), `Py.bytearrayZeros n`, identity |
| `[a, b]`, `[]` with an annotation, `l + m`, `l * n` | list literal, `++`, `Py.repeatList` |
| `l.append(x)`, `l.extend(m)` | `l := l ++ [x]`, `l := l ++ m` |
| `for i in range(n)`, `range(a, b)`, `range(a, b, ±k)`, `range(a, b, step)`; `for b in bytes`; `for x, y in zip(l, m)` | `for i in Py.rangeN a b do` (`Nat`), `Py.rangeI` / `Py.rangeStep` (`Int`), `(← Py.rangeStepN a b s)` (`ValueError` for step 0), `List.zip` |
| `[e for x in it]`, `tuple(e for …)`, `bytes(e for …)` (one generator, no `if`) | `List.map (fun x => e) it`, or `(← List.mapM (fun x => do pure e) it)` when `e` can raise |
| `a0, a1, a2, a3 = l` (list / bytes / slice) | `let [a0, a1, a2, a3] := l | throw Py.unpackError` (`ValueError`) |
| generator function (`yield e`) whose raising operations all precede the first `yield` | the list of yielded values (`py_yield := py_yield ++ [e]`) |
| `while v:` / `while v != 0:` / `while v > 0:` | see `while_stmt` below: an auxiliary definition by WELL-FOUNDED recursion on `v`, no fuel |
| a call of a function listed in the module's `aliases` (`_get_round_keys` ↦ `_expand_key`) | the call of the target: the cache wrapper stays hand-modelled (`S2T.Aes.getRoundKeys`, theorem `C20_cache`: it answers like `_expand_key` after any history) |
"""
from __future__ import annotations

import ast

from translate import generator

from gen.pyfun import (BOOL, BYTES, INT, MODULES, NAT, NONE, STR, UNK, FuncTr, Lst, Sig, Tup, Unsupported, _mk,
                       ident, lt)

AES_SRC = "sharepoint2text/parsing/extractors/pdf/_pypdf_aes_fallback.py"


def is_seq(t):
    return t == BYTES or t[0] == "list"


def elt_of(t):
    return NAT if t == BYTES else t[1]


def is_intish(t):
    return t in (NAT, INT)


def as_int(code, t):
    # `((e : Nat) : Int)`: elaborate `e` over Nat first, then cast (a bare `(e : Int)` would re-read the operators of e over Int)
    return f"(({code} : Nat) : Int)" if t == NAT else code


def int_const(node):
    """value of an int literal (possibly negated), or None"""
    if isinstance(node, ast.Constant) and isinstance(node.value, int) and not isinstance(node.value, bool):
        return node.value
    if isinstance(node, ast.UnaryOp) and isinstance(node.op, ast.USub):
        v = int_const(node.operand)
        return None if v is None else -v
    return None


NAT_OPS = {ast.Add: "+", ast.Mult: "*", ast.BitAnd: "&&&", ast.BitOr: "|||", ast.BitXor: "^^^", ast.LShift: "<<<",
           ast.RShift: ">>>"}
INT_OPS = {ast.Add: "+", ast.Sub: "-", ast.Mult: "*"}
COPY_CALLS = {"len", "list", "tuple", "bytes", "bytearray", "zip"}


class SeqFuncTr(FuncTr):
    def __init__(self, mod, node, opts):
        super().__init__(mod, node, opts)
        self.aux: list = []              # auxiliary definitions (while loops), emitted before the function
        self.whiles = 0
        self.inplace: set = set()        # names of lists mutated in place
        self.mutparams: list = []
        self.is_generator = any(isinstance(n, (ast.Yield, ast.YieldFrom)) for n in ast.walk(node))
        self.after_yield = False
        self.shadowed: list = []

    # ---- types
    def annot(self, node):
        if node is None:
            return None
        txt = ast.unparse(node)
        table = self.mod.cfg.get("annot", {})
        if txt in table:
            return table[txt]
        return super().annot(node)

    def coerce(self, code, t, want, node):
        if t == NAT and want == INT:
            return as_int(code, t)
        return super().coerce(code, t, want, node)

    # ---- analysis: which lists are mutated in place, and do they stay un-aliased
    def analyse(self):
        super().analyse()
        sigs = self.mod.sigs
        params = {a.arg for a in list(self.node.args.args) + list(self.node.args.kwonlyargs)}
        for n in ast.walk(self.node):
            if isinstance(n, (ast.Assign, ast.AugAssign, ast.AnnAssign)):
                tgts = n.targets if isinstance(n, ast.Assign) else [n.target]
                for t in tgts:
                    if isinstance(t, ast.Subscript) and isinstance(t.value, ast.Name):
                        self.inplace.add(t.value.id)
            if isinstance(n, ast.Expr) and isinstance(n.value, ast.Call):
                c = n.value
                if isinstance(c.func, ast.Attribute) and c.func.attr in ("append", "extend") \
                        and isinstance(c.func.value, ast.Name):
                    self.inplace.add(c.func.value.id)
                if isinstance(c.func, ast.Name) and c.func.id in sigs and getattr(sigs[c.func.id], "mutates", None):
                    s = sigs[c.func.id]
                    pos = {p: i for i, (p, _) in enumerate(s.params)}
                    for m in s.mutates:
                        a = c.args[pos[m]] if pos[m] < len(c.args) else next(
                            (k.value for k in c.keywords if k.arg == m), None)
                        if isinstance(a, ast.Name):
                            self.inplace.add(a.id)
        self.mut |= self.inplace
        for n in ast.walk(self.node):
            if isinstance(n, ast.Name) and isinstance(n.ctx, ast.Store) and n.id in params:
                self.mut.add(n.id)
        # every binding of an in-place mutated local is a fresh list, and the list does not escape
        parents = {}
        for p in ast.walk(self.node):
            for ch in ast.iter_child_nodes(p):
                parents[ch] = p
        for n in ast.walk(self.node):
            if isinstance(n, (ast.Assign, ast.AnnAssign)) and n.value is not None:
                tgts = n.targets if isinstance(n, ast.Assign) else [n.target]
                for t in tgts:
                    if isinstance(t, ast.Name) and t.id in self.inplace and not self.is_fresh(n.value):
                        self.note(n, f"in-place mutated list `{t.id}` is bound to `{ast.unparse(n.value)}`, which may "
                                     "alias another list (aliasing is not modelled)")
            if isinstance(n, ast.Name) and isinstance(n.ctx, ast.Load) and n.id in self.inplace:
                if not self.use_ok(n, parents.get(n), parents):
                    self.note(n, f"in-place mutated list `{n.id}` escapes in `{ast.unparse(parents.get(n))}` "
                                 "(aliasing is not modelled)")
        self.mutparams = [a.arg for a in self.node.args.args if a.arg in self.inplace]

    def is_fresh(self, e):
        if isinstance(e, (ast.List, ast.ListComp)):
            return True
        if isinstance(e, ast.BinOp) and isinstance(e.op, (ast.Add, ast.Mult)):
            return True
        if isinstance(e, ast.Subscript) and isinstance(e.slice, ast.Slice):
            return True
        if isinstance(e, ast.IfExp):
            return self.is_fresh(e.body) and self.is_fresh(e.orelse)
        if isinstance(e, ast.Call) and isinstance(e.func, ast.Name):
            if e.func.id in ("list", "bytearray", "sorted"):
                return True
            s = self.mod.sigs.get(e.func.id)
            if s is not None and getattr(s, "fresh_ret", False):
                return True
        return False

    def use_ok(self, n, p, parents):
        if isinstance(p, ast.Subscript) and p.value is n:
            return True
        if isinstance(p, ast.Attribute) and p.attr in ("append", "extend") and isinstance(parents.get(p), ast.Call):
            return True
        if isinstance(p, ast.Call) and isinstance(p.func, ast.Name) and n in p.args:
            if p.func.id in COPY_CALLS:
                return True
            s = self.mod.sigs.get(p.func.id)
            if s is not None and (not (s.ret == BYTES or s.ret[0] == "list") or getattr(s, "fresh_ret", False)
                                  or getattr(s, "mutates", None)):
                return True
            return False
        if isinstance(p, ast.Call) and isinstance(p.func, ast.Attribute) and p.func.attr == "extend" and n in p.args:
            return True   # copies the elements
        if isinstance(p, (ast.For, ast.comprehension)) and p.iter is n:
            return True
        if isinstance(p, ast.BinOp) and isinstance(p.op, (ast.Add, ast.Mult)):
            return True
        if isinstance(p, ast.Return):
            return True
        if isinstance(p, ast.Compare):
            return True
        return False

    # ---- expressions
    def expr(self, e):
        r = super().expr(e)
        if self.is_generator and self.after_yield and r[2]:
            self.note(e, "an operation that may raise is evaluated after a `yield` of a generator function "
                         "(the list-of-yielded-values translation would move the exception)")
        return r

    def _expr(self, e):
        if isinstance(e, ast.Constant) and isinstance(e.value, int) and not isinstance(e.value, bool) and e.value >= 0:
            return f"({e.value} : Nat)", NAT, False
        if isinstance(e, ast.UnaryOp) and isinstance(e.op, ast.USub):
            c, t, eff = self.expr(e.operand)
            if t == NAT: return f"(-{as_int(c, t)})", INT, eff
            if t == INT: return f"(-{c})", INT, eff
            raise Unsupported("unary minus on a non-int")
        if isinstance(e, ast.List):
            if not e.elts:
                raise Unsupported("empty list literal without an annotation giving its element type")
            parts = [self.expr(x) for x in e.elts]
            ts = {p[1] for p in parts}
            if len(ts) != 1:
                raise Unsupported("list literal with elements of different types")
            return "[" + ", ".join(p[0] for p in parts) + "]", Lst(parts[0][1]), any(p[2] for p in parts)
        if isinstance(e, (ast.ListComp, ast.GeneratorExp)):
            return self.comprehension(e)
        if isinstance(e, ast.BinOp):
            a, ta, ea = self.expr(e.left)
            b, tb, eb = self.expr(e.right)
            c, t, eff = self.binop(type(e.op), a, ta, b, tb, e, rlit=int_const(e.right))
            return c, t, eff or ea or eb
        if isinstance(e, ast.Subscript):
            c, t, eff = self.expr(e.value)
            if is_seq(t):
                return self.seq_subscript(c, t, eff, e)
        return super()._expr(e)

    def binop(self, op, a, ta, b, tb, node, rlit=None):
        """-> (code, type, raises) for `a op b` on already translated operands"""
        if ta == NAT and tb == NAT:
            if op in NAT_OPS:
                return f"({a} {NAT_OPS[op]} {b})", NAT, False
            if op is ast.Sub:
                return f"({as_int(a, ta)} - {as_int(b, tb)})", INT, False
            if op in (ast.FloorDiv, ast.Mod):
                if rlit is not None and rlit > 0:
                    return f"({a} {'/' if op is ast.FloorDiv else '%'} {b})", NAT, False
                self.eff = True
                fn = "S2T.Py.natFloorDiv" if op is ast.FloorDiv else "S2T.Py.natMod"
                return f"(← {fn} {a} {b})", NAT, True
        elif is_intish(ta) and is_intish(tb):
            if op in INT_OPS:
                return f"({as_int(a, ta)} {INT_OPS[op]} {as_int(b, tb)})", INT, False
            if op is ast.Div and ta == INT and tb == INT:
                self.eff = True
                return f"(← S2T.Py.truediv {a} {b})", ("floatv",), True
        elif is_seq(ta) and is_seq(tb) and op is ast.Add:
            if ta == tb:
                return f"({a} ++ {b})", ta, False
        elif is_seq(ta) and is_intish(tb) and op is ast.Mult:
            return f"(S2T.Py.repeatList {a} {as_int(b, tb)})", ta, False
        elif is_intish(ta) and is_seq(tb) and op is ast.Mult:
            return f"(S2T.Py.repeatList {b} {as_int(a, ta)})", tb, False
        elif ta == STR and tb == STR and op is ast.Add:
            return f"({a} ++ {b})", STR, False
        raise Unsupported(f"binary operator {op.__name__} on {lt(ta)}, {lt(tb)}")

    def bound(self, node):
        """slice bound -> (Option Int term, raises)"""
        if node is None:
            return "none", False
        c, t, eff = self.expr(node)
        if not is_intish(t):
            raise Unsupported(f"slice bound of type {lt(t)}")
        return f"(some {as_int(c, t)})", eff

    def seq_subscript(self, c, t, eff, e):
        s = e.slice
        if isinstance(s, ast.Slice):
            if s.step is not None:
                raise Unsupported("slice with a step")
            lo, e1 = self.bound(s.lower)
            hi, e2 = self.bound(s.upper)
            return f"(S2T.Py.slice {c} {lo} {hi})", t, eff or e1 or e2
        k, tk, ek = self.expr(s)
        if not is_intish(tk):
            raise Unsupported(f"index of type {lt(tk)}")
        self.eff = True
        return f"(← S2T.Py.getItem {c} {as_int(k, tk)})", elt_of(t), True

    def comprehension(self, g):
        if len(g.generators) != 1 or g.generators[0].is_async or g.generators[0].ifs:
            raise Unsupported("comprehension with several generators / a filter")
        gen = g.generators[0]
        it, tel, eff_it = self.iterable(gen.iter)
        tg = gen.target
        if isinstance(tg, ast.Name):
            names, types, pat = [tg.id], [tel], f"({ident(tg.id)} : {lt(tel)})"
        elif isinstance(tg, ast.Tuple) and tel[0] == "tuple" and len(tel[1]) == len(tg.elts) \
                and all(isinstance(x, ast.Name) for x in tg.elts):
            names, types = [x.id for x in tg.elts], list(tel[1])
            pat = "((" + ", ".join(ident(n) for n in names) + f") : {lt(tel)})"
        else:
            raise Unsupported("comprehension target shape")
        if any(n in self.declared for n in names):
            raise Unsupported("comprehension variable shadows a local")
        saved = {n: self.vars.get(n) for n in names}
        for n, tt in zip(names, types):
            self.vars[n] = tt
        try:
            body, tb, eb = self.expr(g.elt)
        finally:
            for n in names:
                if saved[n] is None:
                    self.vars.pop(n, None)
                else:
                    self.vars[n] = saved[n]
        if eb:
            self.eff = True
            return (f"(← List.mapM (fun {pat} => (do pure {body} : S2T.Py.M {lt(tb)})) {it})", Lst(tb), True)
        return f"(List.map (fun {pat} => {body}) {it})", Lst(tb), eff_it

    def call(self, e):
        f = e.func
        if isinstance(f, ast.Name) and f.id not in self.vars:
            n = f.id
            aliases = self.mod.cfg.get("aliases", {})
            if n in aliases and n not in self.mod.sigs:
                e2 = ast.copy_location(ast.Call(func=ast.copy_location(ast.Name(id=aliases[n], ctx=ast.Load()), f),
                                                args=e.args, keywords=e.keywords), e)
                return self.call(e2)
            if n in self.mod.sigs and getattr(self.mod.sigs[n], "mutates", None):
                raise Unsupported(f"call of the in-place mutating function `{n}` inside an expression")
            one = len(e.args) == 1 and not e.keywords
            if n == "len" and one:
                c, t, eff = self.expr(e.args[0])
                if is_seq(t):
                    return f"(List.length {c})", NAT, eff
            if n in ("list", "tuple") and one:
                c, t, eff = self.expr(e.args[0])
                if is_seq(t):
                    return c, Lst(elt_of(t)), eff
                raise Unsupported(f"{n}() of {lt(t)}")
            if n == "bytes" and one:
                c, t, eff = self.expr(e.args[0])
                if t == BYTES:
                    return c, BYTES, eff
                if t in (Lst(NAT), Lst(INT)):
                    self.eff = True
                    fn = "S2T.Py.bytesOfList" if t == Lst(NAT) else "S2T.Py.bytesOfInts"
                    return f"(← {fn} {c})", BYTES, True
                raise Unsupported(f"bytes() of {lt(t)}")
            if n == "bytearray" and one:
                c, t, eff = self.expr(e.args[0])
                if t == NAT:
                    return f"(S2T.Py.bytearrayZeros {c})", BYTES, eff
                raise Unsupported(f"bytearray() of {lt(t)}")
            if n == "memoryview" and one:
                c, t, eff = self.expr(e.args[0])
                if t == BYTES:
                    return c, BYTES, eff
                raise Unsupported(f"memoryview() of {lt(t)}")
            if n in ("range", "zip"):
                raise Unsupported(f"{n}() outside an iteration position")
        return super().call(e)

    # ---- conditions
    def cond(self, e):
        if isinstance(e, (ast.BoolOp, ast.Compare)) or (isinstance(e, ast.UnaryOp) and isinstance(e.op, ast.Not)) or (
                isinstance(e, ast.Call) and isinstance(e.func, ast.Name) and e.func.id == "bool"):
            return super().cond(e)
        c, t, eff = self.expr(e)
        if t == BOOL:
            return c, eff
        if t in (INT, STR, NAT, BYTES) or t[0] in ("opt", "list"):
            return f"(S2T.Py.truthy {c})", eff
        if t != UNK:
            self.note(e, f"truthiness of a value of type {lt(t)}")
        return "(default)", eff

    def compare(self, e):
        operands = [e.left] + list(e.comparators)
        vals = [self.expr(x) for x in operands]
        if not any(is_intish(v[1]) and v[1] == NAT or is_seq(v[1]) for v in vals):
            return super().compare(e)
        outs = []
        for i, op in enumerate(e.ops):
            (a, ta, _), (b, tb, _) = vals[i], vals[i + 1]
            rn = operands[i + 1]
            if isinstance(op, (ast.In, ast.NotIn)):
                if isinstance(rn, (ast.Tuple, ast.List, ast.Set)) and rn.elts and is_intish(ta) \
                        and all(int_const(x) is not None for x in rn.elts):
                    vs = [int_const(x) for x in rn.elts]
                    if ta == NAT and all(v >= 0 for v in vs):
                        c = "([" + ", ".join(f"({v} : Nat)" for v in vs) + f"].contains {a})"
                    else:
                        c = "([" + ", ".join(f"({v} : Int)" for v in vs) + f"].contains {as_int(a, ta)})"
                    outs.append(c if isinstance(op, ast.In) else f"(!{c})")
                    continue
                raise Unsupported(f"`in` with {lt(ta)} in {ast.unparse(rn)}")
            if is_intish(ta) and is_intish(tb):
                if ta != tb:
                    a, b = as_int(a, ta), as_int(b, tb)
                if isinstance(op, (ast.Eq, ast.NotEq)):
                    outs.append(f"({a} == {b})" if isinstance(op, ast.Eq) else f"({a} != {b})")
                    continue
                sym = {ast.Lt: "<", ast.LtE: "≤", ast.Gt: ">", ast.GtE: "≥"}.get(type(op))
                if sym:
                    outs.append(f"decide ({a} {sym} {b})")
                    continue
            if is_seq(ta) and ta == tb and isinstance(op, (ast.Eq, ast.NotEq)) and ta in (BYTES, Lst(NAT), Lst(INT)):
                outs.append(f"({a} == {b})" if isinstance(op, ast.Eq) else f"({a} != {b})")
                continue
            raise Unsupported(f"comparison {type(op).__name__} between {lt(ta)} and {lt(tb)}")
        if len(outs) > 1 and any(v[2] for v in vals[1:-1]):
            raise Unsupported("comparison chain whose middle operand may raise")
        eff = any(v[2] for v in vals)
        return ("(" + " && ".join(outs) + ")" if len(outs) > 1 else outs[0]), eff

    # ---- iteration
    def iterable(self, node):
        if isinstance(node, ast.Call) and isinstance(node.func, ast.Name) and node.func.id not in self.vars \
                and not node.keywords:
            n = node.func.id
            if n == "range" and 1 <= len(node.args) <= 3:
                parts = [self.expr(a) for a in node.args]
                if not all(is_intish(p[1]) for p in parts):
                    raise Unsupported("range() of non-ints")
                eff = any(p[2] for p in parts)
                if len(parts) == 1:
                    parts = [("(0 : Nat)", NAT, False)] + parts
                if len(parts) == 2:
                    (a, ta, _), (b, tb, _) = parts
                    if ta == NAT and tb == NAT:
                        return f"(S2T.Py.rangeN {a} {b})", NAT, eff
                    return f"(S2T.Py.rangeI {as_int(a, ta)} {as_int(b, tb)})", INT, eff
                (a, ta, _), (b, tb, _), (s, ts, _) = parts
                k = int_const(node.args[2])
                if k is not None and k != 0:
                    return f"(S2T.Py.rangeStep {as_int(a, ta)} {as_int(b, tb)} ({k} : Int))", INT, eff
                if ta == NAT and tb == NAT and ts == NAT:
                    self.eff = True
                    return f"(← S2T.Py.rangeStepN {a} {b} {s})", NAT, True
                raise Unsupported("range() with a variable step on possibly negative ints")
            if n == "zip" and len(node.args) == 2:
                a, ta, ea = self.iterable(node.args[0])
                b, tb, eb = self.iterable(node.args[1])
                return f"(List.zip {a} {b})", Tup(ta, tb), ea or eb
            if n in self.mod.sigs and getattr(self.mod.sigs[n], "generator", False):
                s = self.mod.sigs[n]
                c, t, eff = self.apply_sig(s, self.fn_value(s), node)
                return c, t[1], eff
        c, t, eff = self.expr(node)
        if is_seq(t):
            return c, elt_of(t), eff
        return super().iterable(node)

    # ---- statements
    def assign_to(self, target, code, t, node, out, ind, monadic_rhs=False):
        if isinstance(target, (ast.Tuple, ast.List)) and is_seq(t) and not monadic_rhs \
                and all(isinstance(x, ast.Name) for x in target.elts):
            names = [x.id for x in target.elts]
            if any(n in self.declared or n in self.mut for n in names if n != "_"):
                raise Unsupported("re-assignment through a sequence-unpacking pattern")
            for n in names:
                if n != "_":
                    self.vars[n] = elt_of(t)
                    self.declared.add(n)
            self.eff = True
            pat = ", ".join("_" if n == "_" else ident(n) for n in names)
            out.append(f"{ind}let [{pat}] := {code} | throw S2T.Py.unpackError")
            return
        super().assign_to(target, code, t, node, out, ind, monadic_rhs)

    def store_subscript(self, target, rhs, trhs, rhs_eff, st, out, ind, aug=None):
        """`v[k] = rhs`, `v[a:b] = rhs`, `v[k] op= rhs` on a declared in-place mutated local `v`"""
        if not isinstance(target.value, ast.Name) or target.value.id not in self.declared:
            raise Unsupported(f"store into `{ast.unparse(target.value)}`, which is not a local name")
        v = target.value.id
        tv = self.vars[v]
        if not is_seq(tv) or v not in self.mut:
            raise Unsupported(f"store into a value of type {lt(tv)}")
        s = target.slice
        if isinstance(s, ast.Slice):
            if aug is not None or s.step is not None:
                raise Unsupported("augmented / stepped slice assignment")
            lo, e1 = self.bound(s.lower)
            hi, e2 = self.bound(s.upper)
            if trhs != tv:
                raise Unsupported(f"slice assignment of {lt(trhs)} into {lt(tv)}")
            if (e1 or e2) and rhs_eff:
                raise Unsupported("slice assignment whose bounds and value may both raise")
            out.append(f"{ind}{ident(v)} := (S2T.Py.setSlice {ident(v)} {lo} {hi} {rhs})")
            return
        k, tk, ek = self.expr(s)
        if not is_intish(tk):
            raise Unsupported(f"index of type {lt(tk)}")
        k = as_int(k, tk)
        if ek:
            # the index is evaluated once (and, for a plain store, after the value)
            if aug is None and rhs_eff:
                self.tmp += 1
                out.append(f"{ind}let py_t{self.tmp} : {lt(trhs)} := {rhs}")
                rhs = f"py_t{self.tmp}"
            self.tmp += 1
            out.append(f"{ind}let py_t{self.tmp} : Int := {k}")
            k = f"py_t{self.tmp}"
        if aug is not None:
            self.eff = True
            old = f"(← S2T.Py.getItem {ident(v)} {k})"
            rhs, trhs, _ = self.binop(aug, old, elt_of(tv), rhs, trhs, st, rlit=None)
        if trhs != elt_of(tv):
            raise Unsupported(f"store of {lt(trhs)} into an element of {lt(tv)}")
        self.eff = True
        fn = "S2T.Py.bytearraySetItem" if tv == BYTES else "S2T.Py.setItem"
        out.append(f"{ind}{ident(v)} := (← {fn} {ident(v)} {k} {rhs})")

    def result_code(self):
        """what a function with mutated list parameters / a generator returns"""
        if self.is_generator:
            return "py_yield"
        if len(self.mutparams) == 1:
            return ident(self.mutparams[0])
        return "(" + ", ".join(ident(p) for p in self.mutparams) + ")"

    def _stmt(self, st, out, ind, in_loop, in_try):
        if isinstance(st, ast.Expr) and isinstance(st.value, ast.Yield):
            if st.value.value is None:
                raise Unsupported("bare yield")
            c, t, eff = self.expr(st.value.value)
            if self.ret is None or self.ret[0] != "list" or self.ret[1] != t:
                raise Unsupported(f"yield of {lt(t)} in a generator declared {lt(self.ret) if self.ret else '?'}")
            out.append(f"{ind}py_yield := py_yield ++ [{c}]")
            self.after_yield = True
            return
        if isinstance(st, ast.Expr) and isinstance(st.value, ast.Call):
            c = st.value
            if isinstance(c.func, ast.Attribute) and c.func.attr in ("append", "extend") \
                    and isinstance(c.func.value, ast.Name) and c.func.value.id in self.declared \
                    and len(c.args) == 1 and not c.keywords:
                v = c.func.value.id
                tv = self.vars[v]
                if tv[0] != "list" or v not in self.mut:
                    raise Unsupported(f".{c.func.attr} on a value of type {lt(tv)}")
                a, ta, ea = self.expr(c.args[0])
                if c.func.attr == "append":
                    if ta != tv[1]:
                        raise Unsupported(f"append of {lt(ta)} to {lt(tv)}")
                    out.append(f"{ind}{ident(v)} := {ident(v)} ++ [{a}]")
                else:
                    if not is_seq(ta) or elt_of(ta) != tv[1]:
                        raise Unsupported(f"extend of {lt(tv)} by {lt(ta)}")
                    out.append(f"{ind}{ident(v)} := {ident(v)} ++ {a}")
                return
            if isinstance(c.func, ast.Name) and c.func.id in self.mod.sigs and c.func.id not in self.vars \
                    and getattr(self.mod.sigs[c.func.id], "mutates", None):
                s = self.mod.sigs[c.func.id]
                pos = {p: i for i, (p, _) in enumerate(s.params)}
                tgts = []
                for m in s.mutates:
                    a = c.args[pos[m]] if pos[m] < len(c.args) else next(
                        (k.value for k in c.keywords if k.arg == m), None)
                    if not (isinstance(a, ast.Name) and a.id in self.declared and a.id in self.mut):
                        raise Unsupported(f"argument `{m}` of the in-place mutating function `{c.func.id}` is not a "
                                          "local list")
                    tgts.append(ident(a.id))
                args, eff = self.args_for(s, c)
                code = "(" + " ".join([self.fn_value(s)] + [f"({a})" if " " in a and not a.startswith("(") else a
                                                            for a in args]) + ")"
                lhs = tgts[0] if len(tgts) == 1 else "(" + ", ".join(tgts) + ")"
                if s.eff:
                    self.eff = True
                    out.append(f"{ind}{lhs} := (← {code})")
                else:
                    out.append(f"{ind}{lhs} := {code}")
                return
        if isinstance(st, (ast.Assign, ast.AnnAssign)) and st.value is not None:
            targets = st.targets if isinstance(st, ast.Assign) else [st.target]
            if len(targets) == 1 and isinstance(targets[0], ast.Subscript):
                c, t, eff = self.expr(st.value)
                self.store_subscript(targets[0], c, t, eff, st, out, ind)
                return
            if len(targets) == 1 and isinstance(targets[0], ast.Name) and isinstance(st.value, ast.List) \
                    and not st.value.elts:
                t = self.annot(st.annotation) if isinstance(st, ast.AnnAssign) else None
                if t is None and targets[0].id in self.declared:
                    t = self.vars[targets[0].id]
                if t is None or t[0] != "list":
                    raise Unsupported("empty list literal without a list annotation")
                self.assign_to(targets[0], "[]", t, st, out, ind)
                return
        if isinstance(st, ast.AugAssign) and isinstance(st.target, ast.Subscript):
            c, t, eff = self.expr(st.value)
            # Python loads the target element, then evaluates the right-hand side, then stores: the emitted term
            # `setItem v k ((← getItem v k) op rhs)` lifts its `←` in exactly that (textual) order
            self.store_subscript(st.target, c, t, eff, st, out, ind, aug=type(st.op))
            return
        if isinstance(st, ast.Return) and (self.mutparams or self.is_generator):
            if in_try:
                raise Unsupported("return inside try/except")
            if st.value is not None and not (isinstance(st.value, ast.Constant) and st.value.value is None):
                raise Unsupported("a function that mutates a list parameter / a generator returns a value")
            out.append(f"{ind}return {self.result_code()}")
            return
        if isinstance(st, ast.For):
            return self.for_stmt(st, out, ind, in_try)
        if isinstance(st, ast.While):
            return self.while_stmt(st, out, ind, in_try)
        super()._stmt(st, out, ind, in_loop, in_try)

    def for_stmt(self, st, out, ind, in_try):
        if st.orelse:
            raise Unsupported("for … else")
        it, tel, _ = self.iterable(st.iter)
        names = self._targets(st.target)
        if any(n in self.declared for n in names if n != "_"):
            raise Unsupported("loop variable re-uses an assigned local")
        saved = {n: self.vars.get(n) for n in names}
        if isinstance(st.target, ast.Name):
            pat = ident(st.target.id)
            self.vars[st.target.id] = tel
        elif isinstance(st.target, ast.Tuple) and tel[0] == "tuple" and len(tel[1]) == len(st.target.elts) \
                and all(isinstance(x, ast.Name) for x in st.target.elts):
            for x, tt in zip(st.target.elts, tel[1]):
                self.vars[x.id] = tt
            pat = "(" + ", ".join("_" if x.id == "_" else ident(x.id) for x in st.target.elts) + ")"
        else:
            raise Unsupported("loop target shape")
        for other in ast.walk(self.node):
            if isinstance(other, ast.Name) and other.id in names and isinstance(other.ctx, ast.Load) \
                    and other.lineno > st.end_lineno and not self.rebound_between(other, st):
                raise Unsupported("loop variable is read after the loop")
        if self.is_generator and any(isinstance(n, ast.Yield) for n in ast.walk(st)):
            self.after_yield = True   # the body runs again after its own yield
        out.append(f"{ind}for {pat} in {it} do")
        out += self.block(st.body, ind + "  ", True, in_try)
        for n in names:
            if saved[n] is None:
                self.vars.pop(n, None)
            else:
                self.vars[n] = saved[n]

    def rebound_between(self, use, loop):
        """is `use` (a read of a loop variable's name after the loop) bound by a later `for` / comprehension"""
        for n in ast.walk(self.node):
            if isinstance(n, (ast.For, ast.ListComp, ast.GeneratorExp)) and n is not loop \
                    and n.lineno > loop.end_lineno and n.lineno <= use.lineno <= n.end_lineno:
                tg = n.target if isinstance(n, ast.For) else n.generators[0].target
                if use.id in self._targets(tg):
                    return True
        return False

    # `while`:  accepted shape
    #     while TEST:            TEST is a condition over locals that does not raise
    #         BODY               no break / continue / return / yield / else
    # where exactly ONE statement of BODY assigns the variant `v` (a non-negative int local), that statement stands
    # at the top level of BODY (so it runs exactly once per iteration) and is `v >>= k` (k ≥ 1), `v //= k` (k ≥ 2),
    # `v = v >> k` or `v = v // k` with an int literal k.  Emitted: an auxiliary definition
    #     def f.while_n (read-only locals) (loop-carried locals) : (M) (carried…) :=
    #       if h : TEST = true then
    #         let (carried without v) := Id.run do  BODY ; return (carried without v)      -- `←` if BODY can raise
    #         f.while_n … (v >>> k)          -- the new v computed from the OLD v: BODY changes v nowhere else
    #       else (carried…)
    #     termination_by v
    #     decreasing_by py_while_decreasing h       -- TEST implies v ≠ 0, so v >>> k < v (lean/S2T/Py/Bytes.lean)
    # No fuel: Lean accepts the definition only with that termination proof.  Anything else: unsupported.
    def while_stmt(self, st, out, ind, in_try):
        if st.orelse:
            raise Unsupported("while … else")
        for n in ast.walk(st):
            if isinstance(n, (ast.Break, ast.Continue, ast.Return, ast.Yield, ast.YieldFrom, ast.While)) and n is not st:
                raise Unsupported(f"{type(n).__name__} inside a while loop")
        # stores in the body
        stores = []
        for n in ast.walk(st):
            if isinstance(n, ast.Name) and isinstance(n.ctx, ast.Store) and n.id not in stores:
                stores.append(n.id)
        for n in ast.walk(st):
            if isinstance(n, ast.Subscript) and isinstance(n.ctx, ast.Store):
                raise Unsupported("store into a list inside a while loop")
        carried = [n for n in self.vars if n in stores and n in self.declared]   # declaration order
        tested = [n.id for n in ast.walk(st.test) if isinstance(n, ast.Name)]
        variant, shrink, k = None, None, None
        for v in carried:
            if self.vars[v] != NAT or v not in tested:
                continue
            assigns = [n for n in ast.walk(st) if isinstance(n, (ast.Assign, ast.AugAssign, ast.AnnAssign)) and v in
                       [x for t in (n.targets if isinstance(n, ast.Assign) else [n.target]) for x in self._targets(t)]]
            if len(assigns) != 1 or assigns[0] not in st.body:
                continue
            a = assigns[0]
            op = kk = None
            if isinstance(a, ast.AugAssign) and isinstance(a.target, ast.Name):
                op, kk = type(a.op), int_const(a.value)
            elif isinstance(a, ast.Assign) and len(a.targets) == 1 and isinstance(a.targets[0], ast.Name) \
                    and isinstance(a.value, ast.BinOp) and isinstance(a.value.left, ast.Name) and a.value.left.id == v:
                op, kk = type(a.value.op), int_const(a.value.right)
            if op is ast.RShift and kk is not None and kk >= 1:
                variant, shrink, k = v, ">>>", kk
            elif op is ast.FloorDiv and kk is not None and kk >= 2:
                variant, shrink, k = v, "/", kk
            if variant:
                break
        if variant is None:
            raise Unsupported("while loop without a recognised variant (a non-negative local `v` of the test whose "
                              "only assignment in the body is a top-level `v >>= k` / `v //= k`)")
        self.whiles += 1
        fname = f"{ident(self.name)}.while_{self.whiles}"
        test, teff = self.cond(st.test)
        if teff:
            raise Unsupported("while test that may raise")
        # translate the body in the scope of the auxiliary definition
        eff0, env0 = self.eff, self.env
        self.eff = False
        body = self.block(st.body, "      ", False, in_try=False)
        beff = self.eff
        self.eff = eff0 or beff
        if self.env and not env0:
            raise Unsupported("while body that needs the environment")
        reads = []
        for n in ast.walk(st):
            if isinstance(n, ast.Name) and isinstance(n.ctx, ast.Load) and n.id in self.declared \
                    and n.id not in carried and n.id not in reads:
                reads.append(n.id)
        rest = [c for c in carried if c != variant]
        tup = lambda ns: ("(" + ", ".join(ident(n) for n in ns) + ")") if len(ns) != 1 else ident(ns[0])
        tty = lambda ns: lt(Tup(*[self.vars[n] for n in ns])) if len(ns) != 1 else lt(self.vars[ns[0]])
        ps = "".join(f" ({ident(n)} : {lt(self.vars[n])})" for n in reads + carried)
        rty = tty(carried)
        A = [f"/-- `while {ast.unparse(st.test)}:` number {self.whiles} of `{self.name}`: read-only locals "
             f"{reads}, loop-carried {carried}; well-founded recursion on `{variant}` "
             f"(`{variant} {'>>=' if shrink == '>>>' else '//='} {k}` is its only assignment in the body) -/"]
        A.append(f"def {fname}{ps} : {'S2T.Py.M ' + rty if beff else rty} :=")
        A.append(f"  if h : {test} = true then{' do' if beff else ''}")
        inner = []
        for n in carried:
            inner.append(f"      let mut {ident(n)} := {ident(n)}")
        inner += body
        if rest:
            if beff:
                A.append(f"    let {tup(rest)} : {tty(rest)} ← (do")
                A += inner
                A.append(f"      pure {tup(rest)} : S2T.Py.M {tty(rest)})")
            else:
                A.append(f"    let {tup(rest)} : {tty(rest)} := Id.run do")
                A += inner
                A.append(f"      return {tup(rest)}")
        elif beff:
            A.append("    let _ ← (do")
            A += inner
            A.append("      pure () : S2T.Py.M Unit)")
        rec_args = " ".join(ident(n) if n != variant else f"({ident(n)} {shrink} {k})" for n in reads + carried)
        A.append(f"    {fname} {rec_args}")
        A.append(f"  else {'pure ' if beff else ''}{tup(carried)}")
        A.append(f"termination_by {ident(variant)}")
        A.append("decreasing_by py_while_decreasing h")
        self.aux.append("\n".join(A) + "\n")
        call = f"{self.mod_prefix()}{fname} " + " ".join(ident(n) for n in reads + carried)
        lhs = tup(carried)
        if beff:
            out.append(f"{ind}{lhs} := (← {call})")
        else:
            out.append(f"{ind}{lhs} := ({call})")

    def mod_prefix(self):
        return f"S2T.Gen.{self.mod.name}."

    # ---- the function
    def translate(self):
        node = self.node
        for d in node.decorator_list:
            self.note(node, f"decorator {ast.unparse(d)}")
        a = node.args
        if a.vararg or a.kwarg or a.posonlyargs:
            self.note(node, "*args / **kwargs / positional-only parameters")
        params, defaults = [], {}
        allargs = list(a.args) + list(a.kwonlyargs)
        dvals = [None] * (len(a.args) - len(a.defaults)) + list(a.defaults) + list(a.kw_defaults)
        for arg, dv in zip(allargs, dvals):
            t = self.opts.get("types", {}).get(arg.arg) or self.annot(arg.annotation)
            if t is None:
                self.note(arg, f"parameter `{arg.arg}` has no mapped annotation "
                               f"({ast.unparse(arg.annotation) if arg.annotation else 'none'})")
                t = UNK
            params.append((arg.arg, t))
            self.vars[arg.arg] = t
            self.declared.add(arg.arg)
        self.analyse()
        for arg, dv in zip(allargs, dvals):
            if dv is not None:
                c, t, eff = self.expr(dv)
                if eff:
                    self.note(dv, "default value that may raise")
                defaults[arg.arg] = self.coerce(c, t, self.vars[arg.arg], dv)
        # an assigned / in-place mutated parameter is shadowed by a mutable local of the same name
        self.shadowed = [p for p, _ in params if p in self.mut]
        for p in self.mutparams:
            if not is_seq(self.vars[p]):
                self.note(node, f"in-place mutation of parameter `{p}` of type {lt(self.vars[p])}")
        declared_ret = self.opts["ret"] if "ret" in self.opts else self.annot(node.returns)
        if declared_ret is None and node.returns is not None:
            self.note(node, f"return annotation {ast.unparse(node.returns)} is not mapped")
        if self.is_generator:
            if declared_ret is None or declared_ret[0] != "list":
                self.note(node, "generator function without a mapped Iterable[...] annotation")
                declared_ret = Lst(UNK)
            if self.mutparams:
                self.note(node, "generator function that mutates a parameter")
            self.ret = declared_ret
        elif self.mutparams:
            if declared_ret not in (None, NONE):
                self.note(node, "a function that mutates a list parameter in place and also returns a value")
            ts = [self.vars[p] for p in self.mutparams]
            self.ret = ts[0] if len(ts) == 1 else Tup(*ts)
        else:
            self.ret = declared_ret
        pro = [f"  let mut {ident(p)} := {ident(p)}" for p in self.shadowed]
        if self.is_generator:
            pro.append(f"  let mut py_yield : {lt(self.ret)} := []")
        body = self.block(node.body, "  ", False, keep=True)
        special = bool(self.mutparams or self.is_generator)
        if self.ret is None:
            self.ret = NONE
        if not self.terminal(node.body):
            if special:
                if body == ["  pure ()"]:
                    body = []
                body.append(f"  return {self.result_code()}")
            elif self.ret == NONE:
                pass
            elif self.ret[0] == "opt":
                body.append("  return none")
            else:
                self.note(node, "control can reach the end of a function whose result type is not None-able")
        body = pro + body
        sig = Sig(f"S2T.Gen.{self.mod.name}.{ident(self.name)}", params, self.ret, self.eff, self.env, defaults)
        sig.mutates = list(self.mutparams)
        sig.generator = self.is_generator
        rets = [n for n in ast.walk(node) if isinstance(n, ast.Return) and n.value is not None]
        sig.fresh_ret = bool(rets) and all(self.is_fresh(r.value) for r in rets)
        ps = "".join(f" ({ident(p)} : {lt(t)})" for p, t in params)
        envp = " (env : S2T.Py.Env)" if self.env else ""
        rt = lt(self.ret)
        if self.mutparams:
            self.remarks.append(f"mutates its list parameter(s) {self.mutparams} in place and returns None: translated "
                                "as the function returning the new list(s)")
        if self.is_generator:
            self.remarks.append("generator function: translated as the list of the yielded values")
        L = list(self.aux)
        L.append(f"/-- `{self.name}` of {self.mod.cfg['src']}" + "".join("\n    " + r for r in self.remarks) + " -/")
        if self.eff:
            L.append(f"def {ident(self.name)}{envp}{ps} : S2T.Py.M {rt} := do")
        else:
            L.append(f"def {ident(self.name)}{envp}{ps} : {rt} := Id.run do")
        L += body
        return "\n".join(L) + "\n", sig


# ----------------------------------------------------------------------------- the AES module
_TAB = Lst(NAT)
MODULES["PyAes"] = dict(
    src=AES_SRC, pymod="sharepoint2text.parsing.extractors.pdf._pypdf_aes_fallback",
    imports=["S2T.Py.Bytes", "S2T.Gen.Aes"], uses=[], functr=SeqFuncTr,
    # the model's hypothesis (S2T/Model/Aes.lean works over Nat): every `int` of this module is non-negative
    annot={"int": NAT, "bytes": BYTES, "bytes | memoryview": BYTES, "memoryview": BYTES, "list[int]": Lst(NAT),
           "tuple[int, ...]": Lst(NAT), "list[bytes]": Lst(BYTES), "list[list[int]]": Lst(Lst(NAT)),
           "Iterable[memoryview]": Lst(BYTES), "None": NONE},
    # module tables: the definitions tools/gen/aes.py emits from the runtime values (cross-checked with the source)
    consts={"_SBOX": ("S2T.Gen.Aes.sbox", _TAB), "_INV_SBOX": ("S2T.Gen.Aes.invSbox", _TAB),
            "_MUL2": ("S2T.Gen.Aes.mul2", _TAB), "_MUL3": ("S2T.Gen.Aes.mul3", _TAB),
            "_MUL9": ("S2T.Gen.Aes.mul9", _TAB), "_MUL11": ("S2T.Gen.Aes.mul11", _TAB),
            "_MUL13": ("S2T.Gen.Aes.mul13", _TAB), "_MUL14": ("S2T.Gen.Aes.mul14", _TAB),
            "_RCON": ("S2T.Gen.Aes.rcon", _TAB)},
    # `_get_round_keys(key)` (OrderedDict cache around `_expand_key`) stays hand-modelled: S2T.Aes.getRoundKeys,
    # theorem C20_cache (it answers exactly like `_expand_key(key)` after any history of calls)
    aliases={"_get_round_keys": "_expand_key"},
    funcs=[("_xtime", {}), ("_gf_mul", {}), ("_build_mul_table", {}), ("_build_rcon", {}),
           ("_add_round_key", {}), ("_sub_bytes", {}), ("_inv_sub_bytes", {}), ("_shift_rows", {}),
           ("_inv_shift_rows", {}), ("_mix_columns", {}), ("_inv_mix_columns", {}),
           ("_rot_word", {}), ("_sub_word", {}), ("_expand_key", {}),
           ("_aes_encrypt_block", {}), ("_aes_decrypt_block", {}),
           ("_pkcs7_pad", {}), ("_pkcs7_unpad", {}), ("_chunks", {}),
           ("aes_ecb_encrypt", {}), ("aes_ecb_decrypt", {}), ("aes_cbc_encrypt", {}), ("aes_cbc_decrypt", {})])

generator("PyAes")(_mk("PyAes"))
