"""C10: constants of util/sevenzip.py and archive_extractor.py -> S2T/Gen/SevenZip.lean

Runtime values (module attributes of the imported package) are emitted; each is cross-checked with the
value of the module-level assignment found in the source text (constant expressions are evaluated by a
tiny arithmetic evaluator).  Mismatches are recorded in `notes`, which a theorem requires to be empty."""
import ast

from translate import HEADER, fresh_import, generator, lean_list, lean_str, nat_list, parse

SZ = "sharepoint2text/parsing/extractors/util/sevenzip.py"
AX = "sharepoint2text/parsing/extractors/archive_extractor.py"


def _ev(node):
    if isinstance(node, ast.Constant):
        return node.value
    if isinstance(node, ast.BinOp) and isinstance(node.op, (ast.Mult, ast.Add, ast.Sub, ast.LShift)):
        a, b = _ev(node.left), _ev(node.right)
        return {ast.Mult: lambda: a * b, ast.Add: lambda: a + b, ast.Sub: lambda: a - b, ast.LShift: lambda: a << b}[type(node.op)]()
    if isinstance(node, (ast.Tuple, ast.List)):
        return tuple(_ev(e) for e in node.elts)
    if isinstance(node, ast.Set):
        return frozenset(_ev(e) for e in node.elts)
    raise ValueError(ast.dump(node)[:80])


def _src_value(rel, name):
    for node in parse(rel).body:
        tgt = val = None
        if isinstance(node, ast.Assign) and len(node.targets) == 1:
            tgt, val = node.targets[0], node.value
        elif isinstance(node, ast.AnnAssign) and node.value is not None:
            tgt, val = node.target, node.value
        if isinstance(tgt, ast.Name) and tgt.id == name:
            return _ev(val)
    raise KeyError(name)


def _b(x: bytes) -> str:
    return "[" + ", ".join(str(v) for v in x) + "]"


def _cp(x: str) -> str:
    return "[" + ", ".join(str(ord(c)) for c in x) + "]"


@generator("SevenZip")
def gen_sevenzip() -> str:
    sz = fresh_import("sharepoint2text.parsing.extractors.util.sevenzip")
    ax = fresh_import("sharepoint2text.parsing.extractors.archive_extractor")
    notes = []

    def chk(rel, mod, name, norm=lambda v: v):
        rt = getattr(mod, name)
        try:
            sv = _src_value(rel, name)
            if norm(sv) != norm(rt):
                notes.append(f"{name}: runtime value differs from the source text")
        except Exception as e:  # not a constant expression
            notes.append(f"{name}: not a constant expression in the source ({e})")
        return rt

    ids = [
        ("kEnd", "PROP_END"), ("kHeader", "PROP_HEADER"), ("kArchiveProperties", "PROP_ARCHIVE_PROPERTIES"),
        ("kAdditionalStreamsInfo", "PROP_ADDITIONAL_STREAMS_INFO"), ("kMainStreamsInfo", "PROP_MAIN_STREAMS_INFO"),
        ("kFilesInfo", "PROP_FILES_INFO"), ("kPackInfo", "PROP_PACK_INFO"), ("kUnpackInfo", "PROP_UNPACK_INFO"),
        ("kSubStreamsInfo", "PROP_SUBSTREAMS_INFO"), ("kSize", "PROP_SIZE"), ("kCRC", "PROP_CRC"),
        ("kFolder", "PROP_FOLDER"), ("kCodersUnpackSize", "PROP_CODERS_UNPACK_SIZE"),
        ("kNumUnpackStream", "PROP_NUM_UNPACK_STREAM"), ("kEmptyStream", "PROP_EMPTY_STREAM"),
        ("kEmptyFile", "PROP_EMPTY_FILE"), ("kName", "PROP_NAME"), ("kWinAttributes", "PROP_WIN_ATTRIBUTES"),
        ("kEncodedHeader", "PROP_ENCODED_HEADER"),
    ]
    bts = [("coderCopy", "CODER_COPY"), ("coderLzma", "CODER_LZMA"), ("coderLzma2", "CODER_LZMA2"),
           ("coderBcj", "CODER_BCJ"), ("aesPrefix", "CODER_AES_PREFIX"), ("magic", "MAGIC")]
    fields = [f"{f} := {int(chk(SZ, sz, n))}" for f, n in ids]
    fields += [f"{f} := {_b(chk(SZ, sz, n))}" for f, n in bts]

    sigs = chk(AX, ax, "MAGIC_SIGNATURES", lambda v: tuple(tuple(x) for x in v))
    nested = chk(AX, ax, "NESTED_ARCHIVE_EXTENSIONS", frozenset)
    tar_off = chk(AX, ax, "TAR_MAGIC_OFFSET")
    tar_magic = chk(AX, ax, "TAR_MAGIC")
    max_entry = chk(AX, ax, "MAX_ARCHIVE_FILE_SIZE")
    max_mem = chk(AX, ax, "MAX_MEMORY_SIZE")
    max_7z = chk(AX, ax, "MAX_7Z_FILE_SIZE")
    if ax._config.max_memory_size != max_mem:
        notes.append("_config.max_memory_size differs from MAX_MEMORY_SIZE at import time")

    L = [HEADER.format(src=f"{SZ}, {AX}")]
    L.append("import S2T.Model.ArchiveLoop\nnamespace S2T.Gen.SevenZip\n")
    L.append("def ids : S2T.SevenZip.Ids :=\n  { " + ",\n    ".join(fields) + " }\n")
    L.append("def signatures : List (List Nat × List Nat × Nat) := "
             + lean_list(f"({_b(m)}, {_cp(t)}, {int(n)})" for m, t, n in sigs) + "\n")
    L.append("def nested : List (List Nat) := " + lean_list(_cp(e) for e in sorted(nested)) + "\n")
    L.append("def consts : S2T.ArchiveLoop.Consts :=\n  { signatures := signatures, tarMagicOffset := %d, tarMagic := %s,\n"
             "    nested := nested, maxArchiveFileSize := %d, maxMemorySize := %d, max7zFileSize := %d }\n"
             % (tar_off, _b(tar_magic), max_entry, max_mem, max_7z))
    # decoder set-up of `_decompress_lzma2` for EVERY property byte: the filter chain the source hands to
    # lzma.LZMADecompressor, recorded by running the function itself against a stand-in `lzma` module
    # (some d = [LZMA2 dict_size=d], none = [LZMA2 preset=6]; anything else is a note)
    table = []
    real_lzma = sz.lzma

    class _Stop(Exception):
        pass

    class _Rec:
        FORMAT_RAW, FORMAT_ALONE = real_lzma.FORMAT_RAW, real_lzma.FORMAT_ALONE
        FILTER_LZMA2, FILTER_LZMA1, LZMAError = real_lzma.FILTER_LZMA2, real_lzma.FILTER_LZMA1, real_lzma.LZMAError

        def __init__(self):
            self.seen = None

        def LZMADecompressor(self, format=None, filters=None, **kw):
            self.seen = (format, filters, kw)
            raise _Stop()

    for pb in range(256):
        rec = _Rec()
        sz.lzma = rec
        try:
            sz.SevenZipReader.__new__(sz.SevenZipReader)._decompress_lzma2(b"\x00", bytes([pb]), None)
            notes.append(f"_decompress_lzma2({pb}): no decoder was set up")
        except _Stop:
            pass
        except Exception as e:
            notes.append(f"_decompress_lzma2({pb}): raised {type(e).__name__} before setting up a decoder")
        finally:
            sz.lzma = real_lzma
        fmt, flt, kw = rec.seen or (None, None, None)
        if rec.seen is None:
            table.append("none")
        elif fmt == real_lzma.FORMAT_RAW and not kw and flt == [{"id": real_lzma.FILTER_LZMA2, "dict_size": flt[0].get("dict_size")}] \
                and isinstance(flt[0]["dict_size"], int) and flt[0]["dict_size"] >= 0:
            table.append(f"some {flt[0]['dict_size']}")
        elif fmt == real_lzma.FORMAT_RAW and not kw and flt == [{"id": real_lzma.FILTER_LZMA2, "preset": 6}]:
            table.append("none")
        else:
            table.append("none")
            notes.append(f"_decompress_lzma2({pb}): decoder set-up outside the model: format={fmt} filters={flt} {kw}")
    L.append("/-- `_decompress_lzma2`: the dictionary size handed to the decoder, per property byte 0..255, recorded from the\n"
             "    source function itself (`none` = the filter `preset=6`) -/")
    L.append("def lzma2DictTable : List (Option Nat) := " + lean_list(table) + "\n")
    L.append("/-- translator cross-check notes (runtime value vs. source text); must be empty -/")
    L.append("def notes : List String := " + lean_list(lean_str(n) for n in notes) + "\n")
    L.append("end S2T.Gen.SevenZip\n")
    return "\n".join(L)
